package main

import (
	"flag"
	"fmt"
	"math/big"
	"math/rand"
	"regexp"
	"sort"
	"time"

	sdkmath "cosmossdk.io/math"
	sdk "github.com/cosmos/cosmos-sdk/types"
	authtypes "github.com/cosmos/cosmos-sdk/x/auth/types"
	sdkvesting "github.com/cosmos/cosmos-sdk/x/auth/vesting/types"
	banktypes "github.com/cosmos/cosmos-sdk/x/bank/types"
	"github.com/ethereum/go-ethereum/common"

	"github.com/haqq-network/haqq/contracts"
	"github.com/haqq-network/haqq/x/liquidvesting"
	lvtypes "github.com/haqq-network/haqq/x/liquidvesting/types"
	vestingtypes "github.com/haqq-network/haqq/x/vesting/types"
)

// Driver for specs/LiquidVesting.tla (property C11).
//
// Two modes, one trace file:
//
//   pure     the real x/liquidvesting/types schedule helpers (SubtractAmountFromPeriods,
//            ExtractUpcomingPeriods, ReplacePeriodsTail, CurrentPeriodShift) on an enumerated
//            input space (--enum maxPeriods,maxAmt), on seeded random large inputs
//            (--pure-random N) and on listed cases (script file, "cases").
//            Line: {"ev":"pure","fn",..,"args",..,"ok","err","out",..,"scn"}
//   history  the real liquidvesting / vesting / bank / erc20 message servers on an Env with scripted
//            block times.  Step: {"ev":"liquidate"|"transfer"|"redeem","args":{..,"t":offset}}.
//            Line: {"ev","args","ok","err","post":<ledger state>,"obs":{..},"scn"}
//
// Times are offsets in seconds from GenesisTime.  Amounts are decimal strings.  A period is
// {"len":n,"amt":{"aISLM":"x"}} (the Coins shape of specs/Schedule.tla).

func init() { register("liquidvesting", lvMain) }

const lvND = "aISLM"

type lvPeriod struct {
	Len int64             `json:"len"`
	Amt map[string]string `json:"amt"`
}

type lvAcctCfg struct {
	Kind    string     `json:"kind"` // "vesting" | "plain" | "none"
	Start   int64      `json:"start"`
	Lockup  []lvPeriod `json:"lockup,omitempty"`
	Vesting []lvPeriod `json:"vesting,omitempty"` // empty: vests instantly at start
	Extra   string     `json:"extra,omitempty"`   // free native balance on top of the grant
}

type lvCfg struct {
	Seed   int64                `json:"seed"`
	MinLiq string               `json:"minLiq"`
	Accts  map[string]lvAcctCfg `json:"accts"`
}

type lvStep struct {
	Ev   string `json:"ev"`
	Args M      `json:"args"`
}

type lvCase struct {
	Fn   string `json:"fn"`
	Args M      `json:"args"`
}

type lvScript struct {
	Cfg   *lvCfg   `json:"cfg"`
	Steps []lvStep `json:"steps"`
	Cases []lvCase `json:"cases,omitempty"` // pure cases (replay of a pure line)
}

// ---------------------------------------------------------------------------
// conversions

func lvAmt(s string) sdkmath.Int { return sdkmath.NewIntFromBigInt(mustBig(s)) }

func lvPeriodsIn(ps []lvPeriod) sdkvesting.Periods {
	out := make(sdkvesting.Periods, 0, len(ps))
	for _, p := range ps {
		coins := sdk.Coins{}
		keys := make([]string, 0, len(p.Amt))
		for k := range p.Amt {
			keys = append(keys, k)
		}
		sort.Strings(keys)
		for _, k := range keys {
			a := lvAmt(p.Amt[k])
			if a.IsPositive() {
				coins = append(coins, sdk.NewCoin(k, a))
			}
		}
		out = append(out, sdkvesting.Period{Length: p.Len, Amount: coins})
	}
	return out
}

func lvPeriodsOut(ps sdkvesting.Periods) []any {
	out := make([]any, 0, len(ps))
	for _, p := range ps {
		out = append(out, M{"len": p.Length, "amt": M{lvND: bigStr(p.Amount.AmountOf(lvND))}})
	}
	return out
}

func lvPeriodsAny(v any) []lvPeriod {
	if v == nil {
		return nil
	}
	if ps, ok := v.([]lvPeriod); ok {
		return ps
	}
	arr := v.([]any)
	out := make([]lvPeriod, 0, len(arr))
	for _, x := range arr {
		m := x.(M)
		amt := map[string]string{}
		for k, a := range m["amt"].(M) {
			amt[k] = a.(string)
		}
		out = append(out, lvPeriod{Len: lvInt(m["len"]), Amt: amt})
	}
	return out
}

func lvInt(v any) int64 {
	switch x := v.(type) {
	case float64:
		return int64(x)
	case int64:
		return x
	case int:
		return int64(x)
	case string:
		return mustBig(x).Int64()
	}
	panic(fmt.Sprintf("not an integer: %v", v))
}

func lvP(l int64, amt string) lvPeriod { return lvPeriod{Len: l, Amt: map[string]string{lvND: amt}} }

func lvPeriodsM(ps []lvPeriod) []any {
	out := make([]any, 0, len(ps))
	for _, p := range ps {
		out = append(out, M{"len": p.Len, "amt": M{lvND: p.Amt[lvND]}})
	}
	return out
}

// ---------------------------------------------------------------------------
// pure mode

func lvPure(c lvCase) (ok bool, es string, out M) {
	defer func() {
		if r := recover(); r != nil {
			ok, es, out = false, fmt.Sprintf("panic: %v", r), M{"none": true}
		}
	}()
	a := c.Args
	switch c.Fn {
	case "subtract":
		dec, diff, err := lvtypes.SubtractAmountFromPeriods(lvPeriodsIn(lvPeriodsAny(a["periods"])), sdk.NewCoin(lvND, lvAmt(a["x"].(string))))
		if err != nil {
			return false, err.Error(), M{"none": true}
		}
		return true, "", M{"dec": lvPeriodsOut(dec), "diff": lvPeriodsOut(diff)}
	case "upcoming":
		ps := lvtypes.ExtractUpcomingPeriods(lvInt(a["start"]), lvInt(a["end"]), lvPeriodsIn(lvPeriodsAny(a["periods"])), lvInt(a["t"]))
		return true, "", M{"periods": lvPeriodsOut(ps)}
	case "past":
		ps := lvtypes.ExtractPastPeriods(lvInt(a["start"]), lvInt(a["end"]), lvPeriodsIn(lvPeriodsAny(a["periods"])), lvInt(a["t"]))
		return true, "", M{"periods": lvPeriodsOut(ps)}
	case "replace_tail":
		ps := lvtypes.ReplacePeriodsTail(lvPeriodsIn(lvPeriodsAny(a["periods"])), lvPeriodsIn(lvPeriodsAny(a["repl"])))
		return true, "", M{"periods": lvPeriodsOut(ps)}
	case "shift":
		s := lvtypes.CurrentPeriodShift(lvInt(a["start"]), lvInt(a["t"]), lvPeriodsIn(lvPeriodsAny(a["periods"])))
		return true, "", M{"shift": s}
	}
	panic("unknown pure fn " + c.Fn)
}

// all period lists with at most maxP periods and amounts 0..maxAmt (lengths 1 + i mod 3: the
// split never looks at them but must copy them)
func lvEnumLists(maxP int, maxAmt int64) [][]lvPeriod {
	res := [][]lvPeriod{{}}
	prev := [][]lvPeriod{{}}
	for n := 1; n <= maxP; n++ {
		var cur [][]lvPeriod
		for _, l := range prev {
			for a := int64(0); a <= maxAmt; a++ {
				nl := append(append([]lvPeriod{}, l...), lvP(int64(1+(n+int(a))%3), fmt.Sprint(a)))
				cur = append(cur, nl)
			}
		}
		res = append(res, cur...)
		prev = cur
	}
	return res
}

func lvTotal(ps []lvPeriod) *big.Int {
	t := new(big.Int)
	for _, p := range ps {
		t.Add(t, mustBig(p.Amt[lvND]))
	}
	return t
}

func lvEnumCases(maxP int, maxAmt int64) []lvCase {
	var cases []lvCase
	for _, l := range lvEnumLists(maxP, maxAmt) {
		tot := lvTotal(l).Int64()
		for x := int64(0); x <= tot+1; x++ {
			cases = append(cases, lvCase{"subtract", M{"periods": lvPeriodsM(l), "x": fmt.Sprint(x)}})
		}
	}
	// the other helpers on every list with lengths, every start/read time in a small window
	for _, l := range lvEnumLists(3, 1) {
		tl := int64(0)
		for _, p := range l {
			tl += p.Len
		}
		for _, start := range []int64{0, 2} {
			for _, endExtra := range []int64{0, 2} {
				for t := start - 1; t <= start+tl+endExtra+1; t++ {
					cases = append(cases, lvCase{"upcoming", M{"start": start, "end": start + tl + endExtra, "periods": lvPeriodsM(l), "t": t}})
					cases = append(cases, lvCase{"past", M{"start": start, "end": start + tl + endExtra, "periods": lvPeriodsM(l), "t": t}})
				}
			}
			for t := start - 1; t <= start+tl+1; t++ {
				cases = append(cases, lvCase{"shift", M{"start": start, "t": t, "periods": lvPeriodsM(l)}})
			}
		}
		for _, r := range lvEnumLists(3, 1) {
			if len(r) <= 3 && len(l) <= 3 && lvTotal(r).Int64() <= 1 && lvTotal(l).Int64() <= 2 {
				cases = append(cases, lvCase{"replace_tail", M{"periods": lvPeriodsM(l), "repl": lvPeriodsM(r)}})
			}
		}
	}
	return cases
}

func lvRandBig(r *rand.Rand, max *big.Int) *big.Int {
	if max.Sign() <= 0 {
		return new(big.Int)
	}
	return new(big.Int).Rand(r, new(big.Int).Add(max, big.NewInt(1)))
}

var lvE18 = new(big.Int).Exp(big.NewInt(10), big.NewInt(18), nil)

func lvRandAmount(r *rand.Rand) *big.Int {
	switch r.Intn(8) {
	case 0:
		return new(big.Int)
	case 1:
		return big.NewInt(int64(1 + r.Intn(9)))
	case 2:
		return new(big.Int).Mul(lvE18, big.NewInt(int64(1+r.Intn(100000))))
	default:
		return lvRandBig(r, new(big.Int).Mul(lvE18, big.NewInt(5_000_000)))
	}
}

func lvRandPeriods(r *rand.Rand, n int, minLen int64) []lvPeriod {
	ps := make([]lvPeriod, 0, n)
	for i := 0; i < n; i++ {
		l := minLen + int64(r.Intn(4))
		if r.Intn(3) == 0 {
			l = minLen + int64(r.Intn(2_000_000))
		}
		ps = append(ps, lvP(l, lvRandAmount(r).String()))
	}
	return ps
}

func lvRandomCases(r *rand.Rand, n int) []lvCase {
	var cases []lvCase
	for i := 0; i < n; i++ {
		ps := lvRandPeriods(r, r.Intn(9), 0)
		tot := lvTotal(ps)
		var x *big.Int
		switch r.Intn(7) {
		case 0:
			x = new(big.Int).Set(tot)
		case 1:
			x = new(big.Int).Add(tot, big.NewInt(1))
		case 2:
			x = big.NewInt(int64(r.Intn(12)))
		case 3:
			x = new(big.Int).Sub(tot, big.NewInt(int64(r.Intn(12))))
			if x.Sign() < 0 {
				x = new(big.Int)
			}
		default:
			x = lvRandBig(r, tot)
		}
		cases = append(cases, lvCase{"subtract", M{"periods": lvPeriodsM(ps), "x": x.String()}})
		if i%4 == 0 {
			tl := int64(0)
			for _, p := range ps {
				tl += p.Len
			}
			start := int64(r.Intn(1000))
			end := start + tl + int64(r.Intn(2)*r.Intn(1000))
			var t int64
			switch r.Intn(4) {
			case 0:
				t = start + int64(r.Intn(3)) - 1
			case 1:
				t = end + int64(r.Intn(3)) - 1
			default:
				t = start + r.Int63n(tl+2)
			}
			cases = append(cases,
				lvCase{"upcoming", M{"start": start, "end": end, "periods": lvPeriodsM(ps), "t": t}},
				lvCase{"shift", M{"start": start, "t": t, "periods": lvPeriodsM(ps)}},
				lvCase{"replace_tail", M{"periods": lvPeriodsM(ps), "repl": lvPeriodsM(lvRandPeriods(r, r.Intn(10), 0))}})
		}
	}
	return cases
}

// ---------------------------------------------------------------------------
// history mode

type lvEnv struct {
	paid []any // set by a redeem step: what the recipient account itself locks at the critical instants
	*Env
	cfg   *lvCfg
	names []string
	keys  map[string]Key
}

func lvTime(off int64) time.Time { return GenesisTime.Add(time.Duration(off) * time.Second) }

func (e *lvEnv) now() int64 { return e.Ctx.BlockTime().Unix() - GenesisTime.Unix() }

func newLvEnv(cfg *lvCfg) *lvEnv {
	e := &lvEnv{Env: NewEnv(cfg.Seed), cfg: cfg, keys: map[string]Key{}}
	// the EVM (token pair registration, coin <-> ERC20 conversion inside Liquidate/Redeem) resolves the
	// coinbase from the block proposer: name the genesis validator
	vals := e.App.StakingKeeper.GetAllValidators(e.Ctx)
	cons, err := vals[0].GetConsAddr()
	if err != nil {
		panic(err)
	}
	h := e.Ctx.BlockHeader()
	h.ProposerAddress = cons
	e.Ctx = e.Ctx.WithBlockHeader(h)

	if err := e.App.LiquidVestingKeeper.SetParams(e.Ctx, lvtypes.NewParams(lvAmt(cfg.MinLiq), true)); err != nil {
		panic(err)
	}
	for n := range cfg.Accts {
		e.names = append(e.names, n)
	}
	sort.Strings(e.names)
	funder := DetKey(cfg.Seed, "funder")
	for _, n := range e.names {
		e.keys[n] = DetKey(cfg.Seed, n)
		a := cfg.Accts[n]
		addr := e.keys[n].Addr
		switch a.Kind {
		case "vesting":
			lp := lvPeriodsIn(a.Lockup)
			e.Fund(funder.Addr, lp.TotalAmount())
			msg := vestingtypes.NewMsgCreateClawbackVestingAccount(funder.Addr, addr, lvTime(a.Start), lp, lvPeriodsIn(a.Vesting), false)
			if _, err := e.Exec(msg); err != nil {
				panic(fmt.Errorf("cannot create vesting account %s: %w", n, err))
			}
		case "plain", "none":
		default:
			panic("unknown account kind " + a.Kind)
		}
		if a.Extra != "" && a.Extra != "0" {
			e.Fund(addr, sdk.NewCoins(sdk.NewCoin(lvND, lvAmt(a.Extra))))
		}
	}
	return e
}

func (e *lvEnv) erc20Of(denom string) (common.Address, bool) {
	id := e.App.Erc20Keeper.GetTokenPairID(e.Ctx, denom)
	if len(id) == 0 {
		return common.Address{}, false
	}
	tp, found := e.App.Erc20Keeper.GetTokenPair(e.Ctx, id)
	if !found {
		return common.Address{}, false
	}
	return tp.GetERC20Contract(), true
}

func (e *lvEnv) erc20Bal(contract common.Address, addr sdk.AccAddress) sdkmath.Int {
	cctx, _ := e.Ctx.CacheContext()
	b := e.App.Erc20Keeper.BalanceOf(cctx, contracts.ERC20MinterBurnerDecimalsContract.ABI, contract, common.BytesToAddress(addr.Bytes()))
	if b == nil {
		return sdkmath.ZeroInt()
	}
	return sdkmath.NewIntFromBigInt(b)
}

// project reads the abstract ledger from the real stores
func (e *lvEnv) project() M {
	ctx := e.Ctx
	k := e.App.LiquidVestingKeeper
	modAddr := authtypes.NewModuleAddress(lvtypes.ModuleName)
	counter := k.GetDenomCounter(ctx)
	denoms := make([]any, 0, counter)
	for id := uint64(0); id < counter; id++ {
		base := lvtypes.DenomBaseNameFromID(id)
		rec := M{"id": base, "supply": bigStr(e.App.BankKeeper.GetSupply(ctx, base).Amount)}
		d, found := k.GetDenom(ctx, base)
		rec["exists"] = found
		if found {
			rec["start"] = d.StartTime.Unix() - GenesisTime.Unix()
			rec["end"] = d.EndTime.Unix() - GenesisTime.Unix()
			rec["periods"] = lvPeriodsOut(d.LockupPeriods)
			rec["orig"] = d.OriginalDenom
		} else {
			rec["start"], rec["end"], rec["periods"], rec["orig"] = 0, 0, []any{}, ""
		}
		contract, hasPair := e.erc20Of(base)
		held := M{}
		for _, n := range e.names {
			b := e.App.BankKeeper.GetBalance(ctx, e.keys[n].Addr, base).Amount
			if hasPair {
				b = b.Add(e.erc20Bal(contract, e.keys[n].Addr))
			}
			held[n] = bigStr(b)
		}
		rec["held"] = held
		// liquid coins sitting on the liquidvesting module account itself (none expected)
		rec["stray"] = bigStr(e.App.BankKeeper.GetBalance(ctx, modAddr, base).Amount)
		denoms = append(denoms, rec)
	}
	acct := M{}
	for _, n := range e.names {
		addr := e.keys[n].Addr
		rec := M{"bal": bigStr(e.App.BankKeeper.GetBalance(ctx, addr, lvND).Amount)}
		acc := e.App.AccountKeeper.GetAccount(ctx, addr)
		va, isVesting := acc.(*vestingtypes.ClawbackVestingAccount)
		switch {
		case acc == nil:
			rec["kind"] = "none"
		case isVesting:
			rec["kind"] = "vesting"
		default:
			rec["kind"] = "plain"
		}
		if isVesting {
			rec["start"] = va.StartTime.Unix() - GenesisTime.Unix()
			rec["end"] = va.EndTime - GenesisTime.Unix()
			rec["lockup"] = lvPeriodsOut(va.LockupPeriods)
			rec["vesting"] = lvPeriodsOut(va.VestingPeriods)
			rec["ov"] = bigStr(va.OriginalVesting.AmountOf(lvND))
		} else {
			rec["start"], rec["end"], rec["lockup"], rec["vesting"], rec["ov"] = 0, 0, []any{}, []any{}, "0"
		}
		acct[n] = rec
	}
	p := k.GetParams(ctx)
	return M{"mod": bigStr(e.App.BankKeeper.GetBalance(ctx, modAddr, lvND).Amount), "denoms": denoms, "acct": acct,
		"minLiq": bigStr(p.MinimumLiquidationAmount), "enabled": p.EnableLiquidVesting}
}

// obs: what the bank module really treats as locked right now (ties the recorded schedules to the
// spending rule; diagnostic)
func (e *lvEnv) obs() M {
	locked := M{}
	for _, n := range e.names {
		locked[n] = func() (res string) {
			defer func() {
				if r := recover(); r != nil {
					res = fmt.Sprintf("panic: %v", r)
				}
			}()
			return bigStr(e.App.BankKeeper.LockedCoins(e.Ctx, e.keys[n].Addr).AmountOf(lvND))
		}()
	}
	o := M{"locked": locked}
	if e.paid != nil {
		o["paid"] = e.paid
	}
	return o
}

// lvLockedAt asks an account object what it locks at instant off (seconds from GenesisTime): the
// account's own LockedCoins(time), i.e. the real reading rule including start and end time
func lvLockedAt(acc authtypes.AccountI, off int64) (res string) {
	defer func() {
		if r := recover(); r != nil {
			res = "-1" // a getter that panics on a broken record: nothing it could lock is credited
		}
	}()
	va, ok := acc.(*vestingtypes.ClawbackVestingAccount)
	if !ok {
		return "0"
	}
	return bigStr(va.LockedCoins(lvTime(off)).AmountOf(lvND))
}

func lvCritAdd(set map[int64]bool, ts ...int64) {
	for _, t := range ts {
		set[t-1], set[t], set[t+1] = true, true, true
	}
}

func lvCritPeriods(set map[int64]bool, start int64, ps sdkvesting.Periods) {
	lvCritAdd(set, start)
	t := start
	for _, p := range ps {
		t += p.Length
		lvCritAdd(set, t)
	}
}

func lvCritAccount(set map[int64]bool, acc authtypes.AccountI) {
	if va, ok := acc.(*vestingtypes.ClawbackVestingAccount); ok {
		st := va.StartTime.Unix() - GenesisTime.Unix()
		lvCritPeriods(set, st, va.LockupPeriods)
		lvCritPeriods(set, st, va.VestingPeriods)
		lvCritAdd(set, va.EndTime-GenesisTime.Unix())
	}
}

func lvCritDenom(set map[int64]bool, d lvtypes.Denom, found bool) {
	if found {
		lvCritPeriods(set, d.StartTime.Unix()-GenesisTime.Unix(), d.LockupPeriods)
		lvCritAdd(set, d.EndTime.Unix()-GenesisTime.Unix())
	}
}

// exportImport restarts the liquidvesting module from its own exported genesis: ExportGenesis, the
// document through the JSON codec (as a genesis file), Validate, the module store wiped, InitGenesis.
// Bank, erc20 and auth state stay (their own genesis documents would carry them).
func (e *lvEnv) exportImport() (err error) {
	cctx, write := e.Ctx.CacheContext()
	defer func() {
		if r := recover(); r != nil {
			err = fmt.Errorf("panic: %v", r)
		}
	}()
	k := e.App.LiquidVestingKeeper
	gs := liquidvesting.ExportGenesis(cctx, k)
	bz := e.App.AppCodec().MustMarshalJSON(gs)
	var in lvtypes.GenesisState
	e.App.AppCodec().MustUnmarshalJSON(bz, &in)
	if err := in.Validate(); err != nil {
		return err
	}
	store := cctx.KVStore(e.App.GetKey(lvtypes.StoreKey))
	var keys [][]byte
	it := store.Iterator(nil, nil)
	for ; it.Valid(); it.Next() {
		keys = append(keys, append([]byte{}, it.Key()...))
	}
	it.Close()
	for _, key := range keys {
		store.Delete(key)
	}
	liquidvesting.InitGenesis(cctx, k, in)
	write()
	return nil
}

func (e *lvEnv) step(st lvStep) (bool, string) {
	a := st.Args
	addr := func(k string) sdk.AccAddress { return e.keys[a[k].(string)].Addr }
	e.Ctx = e.Ctx.WithBlockTime(lvTime(lvInt(a["t"])))
	e.paid = nil
	switch st.Ev {
	case "export_import":
		err := e.exportImport()
		return err == nil, errStr(err)
	case "liquidate":
		_, err := e.Exec(lvtypes.NewMsgLiquidate(addr("from"), addr("to"), sdk.NewCoin(lvND, lvAmt(a["amt"].(string)))))
		return err == nil, errStr(err)
	case "redeem":
		to := addr("to")
		preAcc := e.App.AccountKeeper.GetAccount(e.Ctx, to)
		preDen, preFound := e.App.LiquidVestingKeeper.GetDenom(e.Ctx, a["denom"].(string))
		_, err := e.Exec(lvtypes.NewMsgRedeem(addr("from"), to, sdk.NewCoin(a["denom"].(string), lvAmt(a["amt"].(string)))))
		if err == nil {
			// what the recipient account itself locks, before and after, at every critical instant from now on
			postAcc := e.App.AccountKeeper.GetAccount(e.Ctx, to)
			postDen, postFound := e.App.LiquidVestingKeeper.GetDenom(e.Ctx, a["denom"].(string))
			set := map[int64]bool{}
			lvCritAdd(set, e.now())
			lvCritAccount(set, preAcc)
			lvCritAccount(set, postAcc)
			lvCritDenom(set, preDen, preFound)
			lvCritDenom(set, postDen, postFound)
			var ts []int64
			for t := range set {
				if t >= e.now() {
					ts = append(ts, t)
				}
			}
			sort.Slice(ts, func(i, j int) bool { return ts[i] < ts[j] })
			e.paid = make([]any, 0, len(ts))
			for _, t := range ts {
				e.paid = append(e.paid, M{"t": t, "pre": lvLockedAt(preAcc, t), "post": lvLockedAt(postAcc, t)})
			}
		}
		return err == nil, errStr(err)
	case "transfer":
		// haqq's bank MsgSend moves a coin that has a token pair on the ERC20 side (it converts what is
		// spendable as a coin and calls transfer on the contract): this is how liquid tokens change hands
		_, err := e.Exec(banktypes.NewMsgSend(addr("from"), addr("to"), sdk.NewCoins(sdk.NewCoin(a["denom"].(string), lvAmt(a["amt"].(string))))))
		return err == nil, errStr(err)
	}
	panic("unknown liquidvesting step " + st.Ev)
}

// ---------------------------------------------------------------------------
// random histories (large amounts, long schedules); parameters are drawn from the live state so that
// most calls are acceptable

func lvRandomCfg(r *rand.Rand, seed int64) *lvCfg {
	cfg := &lvCfg{Seed: seed, Accts: map[string]lvAcctCfg{}}
	if r.Intn(3) == 0 {
		cfg.MinLiq = "1"
	} else {
		cfg.MinLiq = new(big.Int).Mul(lvE18, big.NewInt(int64(1+r.Intn(1000)))).String()
	}
	posPeriods := func(n int) []lvPeriod {
		ps := make([]lvPeriod, 0, n)
		for i := 0; i < n; i++ {
			l := int64(1 + r.Intn(5))
			if r.Intn(3) == 0 {
				l = int64(1 + r.Intn(100000))
			}
			var amt *big.Int
			if r.Intn(6) == 0 {
				amt = big.NewInt(int64(1 + r.Intn(7)))
			} else {
				amt = new(big.Int).Add(lvRandBig(r, new(big.Int).Mul(lvE18, big.NewInt(3_000_000))), big.NewInt(1))
			}
			ps = append(ps, lvP(l, amt.String()))
		}
		return ps
	}
	extra := func() string {
		if r.Intn(2) == 0 {
			return "0"
		}
		return lvRandBig(r, new(big.Int).Mul(lvE18, big.NewInt(1000))).String()
	}
	cfg.Accts["a1"] = lvAcctCfg{Kind: "vesting", Start: -int64(r.Intn(20)), Lockup: posPeriods(1 + r.Intn(8)), Extra: extra()}
	switch r.Intn(3) {
	case 0:
		cfg.Accts["a2"] = lvAcctCfg{Kind: "vesting", Start: int64(r.Intn(30)) - 10, Lockup: posPeriods(1 + r.Intn(5)), Extra: extra()}
	case 1:
		cfg.Accts["a2"] = lvAcctCfg{Kind: "plain", Extra: "12345"}
	default:
		cfg.Accts["a2"] = lvAcctCfg{Kind: "none"}
	}
	switch r.Intn(4) {
	case 0:
		cfg.Accts["a3"] = lvAcctCfg{Kind: "vesting", Start: int64(r.Intn(200000)), Lockup: posPeriods(1 + r.Intn(4)), Extra: extra()}
	case 1:
		cfg.Accts["a3"] = lvAcctCfg{Kind: "plain", Extra: "777"}
	default:
		cfg.Accts["a3"] = lvAcctCfg{Kind: "none"}
	}
	cfg.Accts["a4"] = lvAcctCfg{Kind: "none"}
	// a recipient whose vesting is unfinished while the scenario runs: lockup ahead of vesting, lockup
	// behind vesting, or both running on the same time scale
	if r.Intn(3) != 0 {
		lens := func(n int, lo, span int64) []int64 {
			out := make([]int64, n)
			for i := range out {
				out[i] = lo + r.Int63n(span)
			}
			return out
		}
		nl, nv := 1+r.Intn(3), 1+r.Intn(4)
		var ll, vl []int64
		switch r.Intn(3) {
		case 0: // lockup ahead
			ll, vl = lens(nl, 1, 3), lens(nv, 20, 200000)
		case 1: // lockup behind
			ll, vl = lens(nl, 10, 100000), lens(nv, 2, 8)
		default: // both running
			ll, vl = lens(nl, 1, 8), lens(nv, 1, 8)
		}
		lock := posPeriods(nl)
		for i := range lock {
			lock[i].Len = ll[i]
		}
		// vesting periods: the same total cut into nv positive parts
		total := lvTotal(lock)
		if total.Cmp(big.NewInt(int64(nv))) < 0 {
			nv = int(total.Int64())
			vl = vl[:nv]
		}
		rest := new(big.Int).Set(total)
		vest := make([]lvPeriod, 0, nv)
		for i := 0; i < nv; i++ {
			part := new(big.Int).Set(rest)
			if i < nv-1 {
				// leave at least 1 for each remaining part
				room := new(big.Int).Sub(rest, big.NewInt(int64(nv-i)))
				part = new(big.Int).Add(lvRandBig(r, room), big.NewInt(1))
			}
			rest.Sub(rest, part)
			vest = append(vest, lvP(vl[i], part.String()))
		}
		cfg.Accts["a5"] = lvAcctCfg{Kind: "vesting", Start: int64(r.Intn(8)) - 4, Lockup: lock, Vesting: vest, Extra: extra()}
	}
	return cfg
}

// lvLockedUp reads the locked-up amount of a vesting account; a broken account record (a changed tree
// may write one) makes the getter panic, which must not kill the driver
func lvLockedUp(va *vestingtypes.ClawbackVestingAccount, at time.Time) (res sdkmath.Int) {
	defer func() {
		if r := recover(); r != nil {
			res = sdkmath.NewInt(3)
		}
	}()
	return va.GetLockedUpCoins(at).AmountOf(lvND)
}

func (e *lvEnv) randomStep(r *rand.Rand) lvStep {
	t := e.now()
	switch r.Intn(5) {
	case 0:
	case 1, 2:
		t += int64(r.Intn(4))
	case 3:
		t += int64(r.Intn(40))
	default:
		t += int64(r.Intn(150000))
	}
	at := lvTime(t)
	pick := func() string { return e.names[r.Intn(len(e.names))] }
	frac := func(max sdkmath.Int) sdkmath.Int {
		switch r.Intn(6) {
		case 0:
			return max
		case 1:
			return max.AddRaw(1)
		case 2:
			return sdkmath.NewInt(int64(1 + r.Intn(5)))
		default:
			return sdkmath.NewIntFromBigInt(lvRandBig(r, max.BigInt()))
		}
	}
	counter := e.App.LiquidVestingKeeper.GetDenomCounter(e.Ctx)
	liveDenoms := []string{}
	for id := uint64(0); id < counter; id++ {
		if _, ok := e.App.LiquidVestingKeeper.GetDenom(e.Ctx, lvtypes.DenomBaseNameFromID(id)); ok {
			liveDenoms = append(liveDenoms, lvtypes.DenomBaseNameFromID(id))
		}
	}
	holderOf := func(denom string) (string, sdkmath.Int) {
		contract, hasPair := e.erc20Of(denom)
		perm := r.Perm(len(e.names))
		for _, i := range perm {
			n := e.names[i]
			b := e.App.BankKeeper.GetBalance(e.Ctx, e.keys[n].Addr, denom).Amount
			if hasPair {
				b = b.Add(e.erc20Bal(contract, e.keys[n].Addr))
			}
			if b.IsPositive() {
				return n, b
			}
		}
		return pick(), sdkmath.ZeroInt()
	}
	kind := r.Intn(10)
	if len(liveDenoms) == 0 && kind >= 4 && r.Intn(4) != 0 {
		kind = 0
	}
	// a restart from the exported genesis: now and then, and preferably when a fully redeemed denom has
	// left a gap below a live one
	gap := len(liveDenoms) > 0 && liveDenoms[len(liveDenoms)-1] != lvtypes.DenomBaseNameFromID(uint64(len(liveDenoms)-1))
	if r.Intn(14) == 0 || (gap && r.Intn(4) == 0) {
		return lvStep{"export_import", M{"t": t}}
	}
	switch {
	case kind < 4:
		// liquidate from a vesting account that has something locked
		var cands []string
		for _, n := range e.names {
			if va, ok := e.App.AccountKeeper.GetAccount(e.Ctx, e.keys[n].Addr).(*vestingtypes.ClawbackVestingAccount); ok {
				if lvLockedUp(va, at).IsPositive() || r.Intn(8) == 0 {
					cands = append(cands, n)
				}
			}
		}
		from := pick()
		amt := sdkmath.NewInt(int64(1 + r.Intn(5)))
		if len(cands) > 0 && r.Intn(10) != 0 {
			from = cands[r.Intn(len(cands))]
			va := e.App.AccountKeeper.GetAccount(e.Ctx, e.keys[from].Addr).(*vestingtypes.ClawbackVestingAccount)
			locked := lvLockedUp(va, at)
			amt = frac(locked)
			if minLiq := lvAmt(e.cfg.MinLiq); amt.LT(minLiq) && locked.GTE(minLiq) && r.Intn(6) != 0 {
				amt = minLiq.Add(sdkmath.NewIntFromBigInt(lvRandBig(r, locked.Sub(minLiq).BigInt())))
			}
		}
		to := from
		if r.Intn(2) == 0 {
			to = pick()
		}
		if !amt.IsPositive() {
			amt = sdkmath.OneInt()
		}
		return lvStep{"liquidate", M{"from": from, "to": to, "amt": amt.String(), "t": t}}
	case kind < 6:
		denom := "aLIQUID0"
		if len(liveDenoms) > 0 {
			denom = liveDenoms[r.Intn(len(liveDenoms))]
		}
		from, have := holderOf(denom)
		amt := frac(have)
		if !amt.IsPositive() {
			amt = sdkmath.OneInt()
		}
		return lvStep{"transfer", M{"from": from, "to": pick(), "denom": denom, "amt": amt.String(), "t": t}}
	default:
		denom := "aLIQUID0"
		if len(liveDenoms) > 0 {
			denom = liveDenoms[r.Intn(len(liveDenoms))]
		}
		from, have := holderOf(denom)
		amt := frac(have)
		if r.Intn(3) == 0 {
			amt = have
		}
		if !amt.IsPositive() {
			amt = sdkmath.OneInt()
		}
		to := pick()
		if r.Intn(4) == 0 {
			to = from
		} else if _, has := e.keys["a5"]; has && r.Intn(3) == 0 {
			to = "a5"
		}
		return lvStep{"redeem", M{"from": from, "to": to, "denom": denom, "amt": amt.String(), "t": t}}
	}
}

// ---------------------------------------------------------------------------
// histories with many tokens in circulation at once (specs/LiquidVestingMany.tla): issue, then drain

// lvManyCfg: a random configuration whose first account stays locked long enough to issue many tokens
func lvManyCfg(r *rand.Rand, seed int64) *lvCfg {
	cfg := lvRandomCfg(r, seed)
	a1 := cfg.Accts["a1"]
	a1.Start = -int64(r.Intn(20))
	n := 2 + r.Intn(4)
	a1.Lockup = make([]lvPeriod, 0, n)
	for i := 0; i < n; i++ {
		amt := new(big.Int).Add(lvRandBig(r, new(big.Int).Mul(lvE18, big.NewInt(3_000_000))), new(big.Int).Mul(lvE18, big.NewInt(100_000)))
		a1.Lockup = append(a1.Lockup, lvP(int64(50_000+r.Intn(100_000)), amt.String()))
	}
	cfg.Accts["a1"] = a1
	return cfg
}

func (e *lvEnv) lvLive() []string {
	counter := e.App.LiquidVestingKeeper.GetDenomCounter(e.Ctx)
	live := []string{}
	for id := uint64(0); id < counter; id++ {
		base := lvtypes.DenomBaseNameFromID(id)
		if e.App.BankKeeper.GetSupply(e.Ctx, base).Amount.IsPositive() {
			live = append(live, base)
		}
	}
	return live
}

func (e *lvEnv) lvHeld(n, denom string) sdkmath.Int {
	b := e.App.BankKeeper.GetBalance(e.Ctx, e.keys[n].Addr, denom).Amount
	if contract, hasPair := e.erc20Of(denom); hasPair {
		b = b.Add(e.erc20Bal(contract, e.keys[n].Addr))
	}
	return b
}

// lvManyScenario issues `tokens` liquid tokens (a few seconds apart, to varying holders), then redeems
// every token completely, in a random order, each holder everything it has; one step in four in
// between is an arbitrary random step (transfer, partial redeem, another liquidation, a restart)
func (e *lvEnv) lvManyScenario(r *rand.Rand, tokens int, emit func(lvStep)) {
	pick := func() string { return e.names[r.Intn(len(e.names))] }
	for tries := 0; tries < 2*tokens && int(e.App.LiquidVestingKeeper.GetDenomCounter(e.Ctx)) < tokens; tries++ {
		t := e.now() + int64(r.Intn(4))
		left := int64(tokens) - int64(e.App.LiquidVestingKeeper.GetDenomCounter(e.Ctx))
		from := "a1"
		va, ok := e.App.AccountKeeper.GetAccount(e.Ctx, e.keys[from].Addr).(*vestingtypes.ClawbackVestingAccount)
		amt := sdkmath.OneInt()
		if ok {
			locked := lvLockedUp(va, lvTime(t))
			minLiq := lvAmt(e.cfg.MinLiq)
			room := locked.QuoRaw(left + 1).Sub(minLiq)
			amt = minLiq
			if room.IsPositive() {
				amt = minLiq.Add(sdkmath.NewIntFromBigInt(lvRandBig(r, room.BigInt())))
			}
			if r.Intn(5) == 0 {
				amt = minLiq.AddRaw(int64(r.Intn(7)))
			}
		}
		to := from
		if r.Intn(3) != 0 {
			to = pick()
		}
		emit(lvStep{"liquidate", M{"from": from, "to": to, "amt": amt.String(), "t": t}})
	}
	for rounds := 0; rounds < 3; rounds++ {
		live := e.lvLive()
		if len(live) == 0 {
			break
		}
		r.Shuffle(len(live), func(i, j int) { live[i], live[j] = live[j], live[i] })
		for _, denom := range live {
			if r.Intn(4) == 0 {
				emit(e.randomStep(r))
			}
			for _, n := range e.names {
				have := e.lvHeld(n, denom)
				if !have.IsPositive() {
					continue
				}
				to := pick()
				if r.Intn(3) == 0 {
					to = n
				}
				emit(lvStep{"redeem", M{"from": n, "to": to, "denom": denom, "amt": have.String(), "t": e.now() + int64(r.Intn(3))}})
			}
		}
	}
}

// ---------------------------------------------------------------------------

var lvPtrRe = regexp.MustCompile(`\{\d{6,}\}`)

func lvMain(args []string) error {
	fs := flag.NewFlagSet("liquidvesting", flag.ExitOnError)
	scripts := fs.String("scripts", "", "JSON file: array of {cfg, steps} (history) or {cases} (pure)")
	enum := fs.String("enum", "", "pure: maxPeriods,maxAmt of the enumerated split inputs")
	pureRandom := fs.Int("pure-random", 0, "pure: number of seeded random large inputs")
	random := fs.Int("random", 0, "history: number of random scenarios")
	steps := fs.Int("steps", 10, "history: steps per random scenario")
	many := fs.Int("many", 0, "history: number of random scenarios with many tokens (issue, then drain)")
	tokens := fs.Int("tokens", 12, "history: least number of tokens issued in a --many scenario")
	seed := fs.Int64("seed", 1, "seed")
	out := fs.String("out", "trace.ndjson", "trace output")
	fs.Parse(args)

	tw, err := NewTraceWriter(*out)
	if err != nil {
		return err
	}
	defer tw.Close()
	scn := 0
	emptyPost := M{"mod": "0", "denoms": []any{}, "acct": M{"-": M{"kind": "none", "bal": "0", "start": 0, "end": 0, "lockup": []any{}, "vesting": []any{}, "ov": "0"}}, "minLiq": "1", "enabled": true}

	runPure := func(src string, cases []lvCase) {
		scn++
		tw.Emit(M{"ev": "reset", "scn": scn, "src": src, "mode": "pure", "post": emptyPost})
		for _, c := range cases {
			ok, es, o := lvPure(c)
			tw.Emit(M{"ev": "pure", "fn": c.Fn, "args": c.Args, "ok": ok, "err": es, "out": o, "scn": scn})
		}
	}
	emitStep := func(e *lvEnv, st lvStep) {
		ok, es := e.step(st)
		// Liquidate formats its minimum-amount error with %d of a math.Int struct, i.e. prints a heap
		// address: masked so that the same seed gives a byte-identical trace
		es = lvPtrRe.ReplaceAllString(es, "{ptr}")
		tw.Emit(M{"ev": st.Ev, "args": st.Args, "ok": ok, "err": es, "post": e.project(), "obs": e.obs(), "scn": scn})
	}

	if *enum != "" {
		var mp int
		var ma int64
		if _, err := fmt.Sscanf(*enum, "%d,%d", &mp, &ma); err != nil {
			return fmt.Errorf("--enum maxPeriods,maxAmt: %w", err)
		}
		runPure("enum", lvEnumCases(mp, ma))
	}
	if *pureRandom > 0 {
		runPure("random", lvRandomCases(rand.New(rand.NewSource(*seed*7919+11)), *pureRandom))
	}
	if *scripts != "" {
		var all []lvScript
		if err := readJSONFile(*scripts, &all); err != nil {
			return err
		}
		for i, sc := range all {
			if len(sc.Cases) > 0 {
				runPure("script", sc.Cases)
				continue
			}
			if sc.Cfg == nil {
				return fmt.Errorf("script %d has no cfg", i)
			}
			if sc.Cfg.Seed == 0 {
				sc.Cfg.Seed = *seed*1000 + int64(i)
			}
			e := newLvEnv(sc.Cfg)
			scn++
			tw.Emit(M{"ev": "reset", "scn": scn, "src": "script", "mode": "history", "cfg": sc.Cfg, "post": e.project()})
			for _, st := range sc.Steps {
				emitStep(e, st)
			}
		}
	}
	for i := 0; i < *random; i++ {
		s := *seed*1000003 + int64(i)
		r := rand.New(rand.NewSource(s))
		cfg := lvRandomCfg(r, s)
		e := newLvEnv(cfg)
		scn++
		tw.Emit(M{"ev": "reset", "scn": scn, "src": "random", "mode": "history", "cfg": cfg, "post": e.project()})
		for j := 0; j < *steps; j++ {
			emitStep(e, e.randomStep(r))
		}
	}
	for i := 0; i < *many; i++ {
		s := *seed*1000033 + 500000 + int64(i)
		r := rand.New(rand.NewSource(s))
		cfg := lvManyCfg(r, s)
		e := newLvEnv(cfg)
		scn++
		tw.Emit(M{"ev": "reset", "scn": scn, "src": "random-many", "mode": "history", "cfg": cfg, "post": e.project()})
		e.lvManyScenario(r, *tokens+r.Intn(*tokens), func(st lvStep) { emitStep(e, st) })
	}
	fmt.Printf("liquidvesting: scenarios=%d lines=%d\n", scn, tw.N)
	return nil
}
