package main

import (
	"encoding/json"
	"flag"
	"fmt"
	"math/rand"
	"os"
	"runtime"
	"sort"
	"strings"
	"time"

	sdkmath "cosmossdk.io/math"
	sdk "github.com/cosmos/cosmos-sdk/types"
	authtypes "github.com/cosmos/cosmos-sdk/x/auth/types"
	sdkvesting "github.com/cosmos/cosmos-sdk/x/auth/vesting/types"

	vestingtypes "github.com/haqq-network/haqq/x/vesting/types"
)

// Driver for specs/Schedule.tla + specs/Vesting.tla (property C09).
//
// pure mode (--enum / --random-pure / --cases): calls the real ReadSchedule,
// ReadPastPeriodCount, DisjunctPeriods, ConjunctPeriods, AlignSchedules, ComputeClawback,
// Validate and the account getters on explicit inputs and logs inputs and outputs, one
// self-contained line per case ("sched", "pair", "acct"); validated by ScheduleTrace.tla.
// The enumerated input space is generated HERE with the same bounds as the constants of
// specs/Vesting_pure_*.cfg (offsets, periods, lengths, amounts, denominations).
//
// history mode (--scripts / --random): sequences of CreateClawbackVestingAccount (fresh and
// merge), ConvertIntoVestingAccount, keeper-level ApplyVestingSchedule(merge), Clawback,
// UpdateVestingFunder and block-time ticks on the real message server; validated by
// VestingTrace.tla.
//
// All times in the log are offsets (seconds) from GenesisTime.

func init() { register("vsched", vsMain) }

var vsBase = GenesisTime.Unix()

type vsPeriod struct {
	Len int64             `json:"len"`
	Amt map[string]string `json:"amt"`
}

type vsSched struct {
	Start   int64      `json:"start"`
	Periods []vsPeriod `json:"periods"`
}

// vsCase is one pure input.  kind "sched": schedule A read with end = End(A)+EndExtra;
// "pair": A and B through disjunct/conjunct/align; "acct": account with lockup A and vesting B
// (same start, same total): getters and ComputeClawback at every instant of Ts.
type vsCase struct {
	Kind     string   `json:"kind"`
	D        []string `json:"D"`
	A        *vsSched `json:"a,omitempty"`
	B        *vsSched `json:"b,omitempty"`
	EndExtra int64    `json:"endExtra"`
	Ts       []int64  `json:"ts,omitempty"`
}

func vsCoins(amt map[string]string) sdk.Coins {
	keys := make([]string, 0, len(amt))
	for k := range amt {
		keys = append(keys, k)
	}
	sort.Strings(keys)
	out := sdk.Coins{}
	for _, k := range keys {
		a := sdkmath.NewIntFromBigInt(mustBig(amt[k]))
		if a.IsZero() {
			continue
		}
		out = append(out, sdk.NewCoin(k, a))
	}
	return out.Sort()
}

func vsCoinsOut(D []string, c sdk.Coins) map[string]string {
	m := map[string]string{}
	for _, d := range D {
		m[d] = bigStr(c.AmountOf(d))
	}
	for _, x := range c {
		if _, ok := m[x.Denom]; !ok {
			m[x.Denom] = bigStr(x.Amount) // a denomination outside the domain changes the shape and is seen
		}
	}
	return m
}

func vsPeriodsIn(ps []vsPeriod) sdkvesting.Periods {
	out := make(sdkvesting.Periods, 0, len(ps))
	for _, p := range ps {
		out = append(out, sdkvesting.Period{Length: p.Len, Amount: vsCoins(p.Amt)})
	}
	return out
}

func vsPeriodsOut(D []string, ps sdkvesting.Periods) []vsPeriod {
	out := make([]vsPeriod, 0, len(ps))
	for _, p := range ps {
		out = append(out, vsPeriod{Len: p.Length, Amt: vsCoinsOut(D, p.Amount)})
	}
	return out
}

func vsEnd(s *vsSched) int64 {
	e := s.Start
	for _, p := range s.Periods {
		e += p.Len
	}
	return e
}

// vsInstants: every instant of the horizon when it is short, otherwise every period end
// and start of the given schedules, each with its two neighbours, plus `extra`.
func vsInstants(r *rand.Rand, extra []int64, ss ...*vsSched) []int64 {
	lo, hi := ss[0].Start, ss[0].Start
	set := map[int64]bool{}
	for _, s := range ss {
		t := s.Start
		if t < lo {
			lo = t
		}
		for _, d := range []int64{-1, 0, 1} {
			set[t+d] = true
		}
		for _, p := range s.Periods {
			t += p.Len
			for _, d := range []int64{-1, 0, 1} {
				set[t+d] = true
			}
		}
		if t > hi {
			hi = t
		}
	}
	for _, t := range extra {
		for _, d := range []int64{-1, 0, 1} {
			set[t+d] = true
		}
		if t > hi {
			hi = t
		}
		if t < lo {
			lo = t
		}
	}
	if hi-lo <= 38 {
		for t := lo - 1; t <= hi+1; t++ {
			set[t] = true
		}
	} else if r != nil {
		for i := 0; i < 6; i++ {
			set[lo+r.Int63n(hi-lo+1)] = true
		}
	}
	out := make([]int64, 0, len(set))
	for t := range set {
		out = append(out, t)
	}
	sort.Slice(out, func(i, j int) bool { return out[i] < out[j] })
	return out
}

func vsAcctOut(D []string, va *vestingtypes.ClawbackVestingAccount, funder string) M {
	return M{"exists": true, "funder": funder, "start": va.StartTime.Unix() - vsBase, "end": va.EndTime - vsBase,
		"lockup": vsPeriodsOut(D, va.LockupPeriods), "vesting": vsPeriodsOut(D, va.VestingPeriods),
		"orig": vsCoinsOut(D, va.OriginalVesting), "valid": va.Validate() == nil}
}

func vsNoAcct(D []string) M {
	return M{"exists": false, "funder": "", "start": 0, "end": 0, "lockup": []vsPeriod{}, "vesting": []vsPeriod{},
		"orig": vsCoinsOut(D, nil), "valid": true}
}

// vsGetters evaluates the real account getters at the instants ts.
func vsGetters(D []string, va *vestingtypes.ClawbackVestingAccount, ts []int64) M {
	g := M{"ts": ts}
	var vested, unvested, unlocked, lockedup, lockedcoins, unlockedvested, lockedupvested []map[string]string
	for _, t := range ts {
		bt := time.Unix(vsBase+t, 0)
		vested = append(vested, vsCoinsOut(D, va.GetVestedCoins(bt)))
		unvested = append(unvested, vsCoinsOut(D, va.GetVestingCoins(bt)))
		unlocked = append(unlocked, vsCoinsOut(D, va.GetUnlockedCoins(bt)))
		lockedup = append(lockedup, vsCoinsOut(D, va.GetLockedUpCoins(bt)))
		lockedcoins = append(lockedcoins, vsCoinsOut(D, va.LockedCoins(bt)))
		// the cap of the two schedules as the account reports it, and its complement within the vested part
		unlockedvested = append(unlockedvested, vsCoinsOut(D, va.GetUnlockedVestedCoins(bt)))
		lockedupvested = append(lockedupvested, vsCoinsOut(D, va.GetLockedUpVestedCoins(bt)))
	}
	g["vested"], g["unvested"], g["unlocked"], g["lockedup"], g["lockedcoins"] = vested, unvested, unlocked, lockedup, lockedcoins
	g["unlockedvested"], g["lockedupvested"] = unlockedvested, lockedupvested
	// nothing is delegated in any account this driver builds or reads (recorded, checked by the trace specification)
	g["delegated"] = vsCoinsOut(D, va.DelegatedFree.Add(va.DelegatedVesting...))
	return g
}

// vsPanicSite names the first frame inside x/vesting that was executing when a panic was raised.
func vsPanicSite() string {
	pcs := make([]uintptr, 40)
	n := runtime.Callers(3, pcs)
	frames := runtime.CallersFrames(pcs[:n])
	for {
		f, more := frames.Next()
		if strings.Contains(f.Function, "haqq/x/vesting") {
			i := strings.LastIndex(f.Function, "/")
			return fmt.Sprintf("%s:%d", f.Function[i+1:], f.Line)
		}
		if !more {
			return "?"
		}
	}
}

// vsEval runs one pure case on the real code and returns the trace line.
func vsEval(c vsCase, scn int, r *rand.Rand) (line M) {
	defer func() {
		if p := recover(); p != nil {
			line = M{"ev": "panic", "scn": scn, "case": c, "D": c.D, "msg": fmt.Sprint(p), "where": vsPanicSite()}
		}
	}()
	D := c.D
	switch c.Kind {
	case "sched":
		s := c.A
		ps := vsPeriodsIn(s.Periods)
		end := vsEnd(s) + c.EndExtra
		total := ps.TotalAmount()
		ts := c.Ts
		if len(ts) == 0 {
			ts = vsInstants(r, []int64{end}, s)
		}
		outs := make([]map[string]string, 0, len(ts))
		cnts := make([]int, 0, len(ts))
		for _, t := range ts {
			outs = append(outs, vsCoinsOut(D, vestingtypes.ReadSchedule(vsBase+s.Start, vsBase+end, ps, total, vsBase+t)))
			cnts = append(cnts, vestingtypes.ReadPastPeriodCount(vsBase+s.Start, vsBase+end, ps, vsBase+t))
		}
		c.Ts = ts
		return M{"ev": "sched", "scn": scn, "case": c, "D": D, "s": s, "end": end, "total": vsCoinsOut(D, total),
			"ts": ts, "outs": outs, "cnts": cnts}
	case "pair":
		a, b := c.A, c.B
		pa, pb := vsPeriodsIn(a.Periods), vsPeriodsIn(b.Periods)
		ds, de, dp := vestingtypes.DisjunctPeriods(vsBase+a.Start, vsBase+b.Start, pa, pb)
		cs, ce, cp := vestingtypes.ConjunctPeriods(vsBase+a.Start, vsBase+b.Start, pa, pb)
		// AlignSchedules mutates the period slices it is given
		la, lb := vsPeriodsIn(a.Periods), vsPeriodsIn(b.Periods)
		as, ae := vestingtypes.AlignSchedules(vsBase+a.Start, vsBase+b.Start, la, lb)
		return M{"ev": "pair", "scn": scn, "case": c, "D": D, "a": a, "b": b,
			"dis": M{"start": ds - vsBase, "end": de - vsBase, "periods": vsPeriodsOut(D, dp)},
			"con": M{"start": cs - vsBase, "end": ce - vsBase, "periods": vsPeriodsOut(D, cp)},
			"al":  M{"start": as - vsBase, "end": ae - vsBase, "pa": vsPeriodsOut(D, la), "pb": vsPeriodsOut(D, lb)}}
	case "acct":
		a, b := c.A, c.B
		lp, vp := vsPeriodsIn(a.Periods), vsPeriodsIn(b.Periods)
		addr := DetKey(1, "v").Addr
		funder := DetKey(1, "f1").Addr
		// ComputeClawback has a value receiver but writes OriginalVesting / EndTime through the
		// embedded *BaseVestingAccount, i.e. it mutates the account it is called on: build a fresh
		// account for every call
		mk := func() *vestingtypes.ClawbackVestingAccount {
			return vestingtypes.NewClawbackVestingAccount(authtypes.NewBaseAccountWithAddress(addr), funder,
				vp.TotalAmount(), time.Unix(vsBase+a.Start, 0).UTC(), lp, vp, nil)
		}
		va := mk()
		ts := c.Ts
		if len(ts) == 0 {
			ts = vsInstants(r, nil, a, &vsSched{Start: b.Start, Periods: b.Periods})
		}
		c.Ts = ts
		claw := make([]M, 0, len(ts))
		for _, t := range ts {
			na, amt := mk().ComputeClawback(vsBase + t)
			claw = append(claw, M{"t": t, "amt": vsCoinsOut(D, amt), "acct": vsAcctOut(D, &na, "f1")})
		}
		return M{"ev": "acct", "scn": scn, "case": c, "D": D, "acct": vsAcctOut(D, va, "f1"),
			"g": vsGetters(D, va, ts), "claw": claw}
	}
	panic("unknown case kind " + c.Kind)
}

// ---------------------------------------------------------------------------------------------
// enumerated input space (bounds = constants of specs/Vesting_pure_*.cfg)

func vsEnumLists(D []string, maxP int, maxLen, maxAmt int64) [][]vsPeriod {
	var choices []vsPeriod
	var amts []map[string]string
	var rec func(i int, cur map[string]string)
	rec = func(i int, cur map[string]string) {
		if i == len(D) {
			m := map[string]string{}
			for k, v := range cur {
				m[k] = v
			}
			amts = append(amts, m)
			return
		}
		for a := int64(0); a <= maxAmt; a++ {
			cur[D[i]] = fmt.Sprint(a)
			rec(i+1, cur)
		}
	}
	rec(0, map[string]string{})
	for l := int64(0); l <= maxLen; l++ {
		for _, a := range amts {
			choices = append(choices, vsPeriod{Len: l, Amt: a})
		}
	}
	lists := [][]vsPeriod{{}}
	prev := [][]vsPeriod{{}}
	for n := 1; n <= maxP; n++ {
		var next [][]vsPeriod
		for _, p := range prev {
			for _, ch := range choices {
				q := append(append([]vsPeriod{}, p...), ch)
				next = append(next, q)
			}
		}
		lists = append(lists, next...)
		prev = next
	}
	return lists
}

func vsTotalEq(D []string, a, b []vsPeriod) bool {
	return vestingtypes.CoinEq(vsPeriodsIn(a).TotalAmount(), vsPeriodsIn(b).TotalAmount())
}

// ---------------------------------------------------------------------------------------------
// random larger inputs

type vsGen struct {
	r *rand.Rand
	D []string
}

func (g *vsGen) amount() string {
	r := g.r
	switch r.Intn(8) {
	case 0:
		return "0"
	case 1:
		return fmt.Sprint(1 + r.Intn(3))
	case 2:
		return "1000000000000000000"
	default:
		x := sdkmath.NewInt(int64(1 + r.Intn(999999))).Mul(sdkmath.NewIntWithDecimal(1, 12+r.Intn(10))).AddRaw(int64(r.Intn(1000)))
		return x.String()
	}
}

func (g *vsGen) length(minLen int64) int64 {
	r := g.r
	switch r.Intn(6) {
	case 0:
		return minLen
	case 1:
		return 1
	case 2:
		return int64(1 + r.Intn(5))
	default:
		return int64(1 + r.Intn(1000))
	}
}

func (g *vsGen) periods(n int, minLen int64) []vsPeriod {
	out := make([]vsPeriod, 0, n)
	for i := 0; i < n; i++ {
		amt := map[string]string{}
		for _, d := range g.D {
			if g.r.Intn(4) == 0 {
				amt[d] = "0"
			} else {
				amt[d] = g.amount()
			}
		}
		out = append(out, vsPeriod{Len: g.length(minLen), Amt: amt})
	}
	return out
}

// split returns n periods whose amounts add up to total (a different partition of one grant)
func (g *vsGen) split(total sdk.Coins, n int, minLen int64) []vsPeriod {
	out := make([]vsPeriod, n)
	rest := map[string]sdkmath.Int{}
	for _, d := range g.D {
		rest[d] = total.AmountOf(d)
	}
	for i := 0; i < n; i++ {
		amt := map[string]string{}
		for _, d := range g.D {
			var x sdkmath.Int
			if i == n-1 {
				x = rest[d]
			} else {
				switch g.r.Intn(4) {
				case 0:
					x = sdkmath.ZeroInt()
				case 1:
					x = rest[d]
				default:
					x = rest[d].MulRaw(int64(g.r.Intn(1000))).QuoRaw(1000)
				}
			}
			rest[d] = rest[d].Sub(x)
			amt[d] = x.String()
		}
		out[i] = vsPeriod{Len: g.length(minLen), Amt: amt}
	}
	return out
}

// related schedule: shares event times with s so that simultaneous events are frequent
func (g *vsGen) related(s *vsSched, n int) *vsSched {
	b := &vsSched{Start: s.Start, Periods: g.periods(n, 0)}
	switch g.r.Intn(4) {
	case 0:
		b.Start = s.Start + int64(g.r.Intn(500))
	case 1:
		b.Start = s.Start - int64(g.r.Intn(500))
	case 2:
		if len(s.Periods) > 0 {
			b.Start = s.Start + s.Periods[0].Len
		}
	}
	// copy some lengths so that ends coincide
	for i := range b.Periods {
		if i < len(s.Periods) && g.r.Intn(2) == 0 {
			b.Periods[i].Len = s.Periods[i].Len
		}
	}
	return b
}

func (g *vsGen) randomCases(n int) []vsCase {
	var out []vsCase
	for i := 0; i < n; i++ {
		a := &vsSched{Start: int64(g.r.Intn(1000)), Periods: g.periods(g.r.Intn(9), 0)}
		switch i % 4 {
		case 0:
			out = append(out, vsCase{Kind: "sched", D: g.D, A: a, EndExtra: int64(g.r.Intn(3)) * int64(g.r.Intn(200))})
		case 1, 2:
			out = append(out, vsCase{Kind: "pair", D: g.D, A: a, B: g.related(a, g.r.Intn(9))})
		case 3:
			v := &vsSched{Start: a.Start, Periods: g.periods(1+g.r.Intn(8), 0)}
			tot := vsPeriodsIn(v.Periods).TotalAmount()
			l := &vsSched{Start: a.Start, Periods: g.split(tot, 1+g.r.Intn(6), 0)}
			out = append(out, vsCase{Kind: "acct", D: g.D, A: l, B: v})
		}
	}
	return out
}

// ---------------------------------------------------------------------------------------------
// history mode

type vsStep struct {
	Ev   string `json:"ev"`
	Args M      `json:"args"`
}

type vsCfg struct {
	Seed     int64             `json:"seed"`
	Denoms   []string          `json:"denoms"`
	InitBank map[string]string `json:"initBank"`
}

type vsScript struct {
	Cfg   *vsCfg   `json:"cfg"`
	Steps []vsStep `json:"steps"`
}

var vsNames = []string{"f1", "f2", "v", "x"}

type vsEnv struct {
	*Env
	cfg  *vsCfg
	keys map[string]Key
	name map[string]string
}

func newVsEnv(cfg *vsCfg) *vsEnv {
	e := &vsEnv{Env: NewEnv(cfg.Seed), cfg: cfg, keys: map[string]Key{}, name: map[string]string{}}
	for _, n := range vsNames {
		e.keys[n] = DetKey(cfg.Seed, "vs-"+n)
		e.name[e.keys[n].Addr.String()] = n
	}
	for _, f := range []string{"f1", "f2"} {
		e.Fund(e.keys[f].Addr, vsCoins(cfg.InitBank))
	}
	return e
}

func (e *vsEnv) now() int64 { return e.Ctx.BlockTime().Unix() - vsBase }

func (e *vsEnv) account() *vestingtypes.ClawbackVestingAccount {
	acc := e.App.AccountKeeper.GetAccount(e.Ctx, e.keys["v"].Addr)
	va, _ := acc.(*vestingtypes.ClawbackVestingAccount)
	return va
}

func (e *vsEnv) project() M {
	D := e.cfg.Denoms
	bank := M{}
	for _, n := range vsNames {
		bank[n] = vsCoinsOut(D, e.App.BankKeeper.GetAllBalances(e.Ctx, e.keys[n].Addr))
	}
	acct := vsNoAcct(D)
	if va := e.account(); va != nil {
		f := va.FunderAddress
		if n, ok := e.name[f]; ok {
			f = n
		}
		acct = vsAcctOut(D, va, f)
	}
	return M{"now": e.now(), "acct": acct, "bank": bank}
}

// views: the real getters of the stored account at every critical instant (and now)
func (e *vsEnv) views() (res any) {
	va := e.account()
	if va == nil {
		return false
	}
	// a getter that panics on the stored account (negative coins) is an observation, not a crash
	defer func() {
		if p := recover(); p != nil {
			res = M{"panic": fmt.Sprint(p), "where": vsPanicSite()}
		}
	}()
	D := e.cfg.Denoms
	st := va.StartTime.Unix() - vsBase
	ts := vsInstants(nil, []int64{e.now(), va.EndTime - vsBase},
		&vsSched{Start: st, Periods: vsPeriodsOut(D, va.LockupPeriods)},
		&vsSched{Start: st, Periods: vsPeriodsOut(D, va.VestingPeriods)})
	return vsGetters(D, va, ts)
}

func vsArgPeriods(v any) []vsPeriod {
	out := []vsPeriod{}
	arr, _ := v.([]any)
	for _, x := range arr {
		m := x.(map[string]any)
		amt := map[string]string{}
		for k, a := range m["amt"].(map[string]any) {
			amt[k] = a.(string)
		}
		out = append(out, vsPeriod{Len: int64(m["len"].(float64)), Amt: amt})
	}
	return out
}

func (e *vsEnv) step(st vsStep) (ok bool, errs string) {
	a := st.Args
	addr := func(k string) sdk.AccAddress { return e.keys[a[k].(string)].Addr }
	var msg sdk.Msg
	switch st.Ev {
	case "tick":
		e.Ctx = e.Ctx.WithBlockTime(e.Ctx.BlockTime().Add(time.Duration(int64(a["dt"].(float64))) * time.Second))
		return true, ""
	case "create", "convert_into", "apply":
		start := time.Unix(vsBase+int64(a["start"].(float64)), 0).UTC()
		lp := vsPeriodsIn(vsArgPeriods(a["lockup"]))
		vp := vsPeriodsIn(vsArgPeriods(a["vesting"]))
		merge := a["merge"].(bool)
		switch st.Ev {
		case "create":
			msg = vestingtypes.NewMsgCreateClawbackVestingAccount(addr("from"), e.keys["v"].Addr, start, lp, vp, merge)
		case "convert_into":
			msg = vestingtypes.NewMsgConvertIntoVestingAccount(addr("from"), e.keys["v"].Addr, start, lp, vp, merge, false, nil)
		case "apply":
			// what liquid-vesting Redeem does: lockup periods as given, instant vesting, merge = true;
			// coins are moved in the same (cached) transaction
			coins := lp.TotalAmount()
			ivp := sdkvesting.Periods{{Length: 0, Amount: coins}}
			cctx, write := e.Ctx.CacheContext()
			err := func() (err error) {
				defer func() {
					if p := recover(); p != nil {
						err = fmt.Errorf("panic: %v", p)
					}
				}()
				if _, _, _, err = e.App.VestingKeeper.ApplyVestingSchedule(cctx, addr("from"), e.keys["v"].Addr, coins, start, lp, ivp, merge); err != nil {
					return err
				}
				return e.App.BankKeeper.SendCoins(cctx, addr("from"), e.keys["v"].Addr, coins)
			}()
			if err == nil {
				write()
			}
			return err == nil, errStr(err)
		}
	case "clawback":
		var dest sdk.AccAddress
		if d := a["dest"].(string); d != "" {
			dest = e.keys[d].Addr
		}
		msg = vestingtypes.NewMsgClawback(addr("by"), e.keys["v"].Addr, dest)
	case "update_funder":
		msg = vestingtypes.NewMsgUpdateVestingFunder(addr("by"), addr("new"), e.keys["v"].Addr)
	default:
		panic("unknown vsched step " + st.Ev)
	}
	_, err := e.Exec(msg)
	return err == nil, errStr(err)
}

func vsPeriodsAny(ps []vsPeriod) any {
	bz, _ := json.Marshal(ps)
	var v any
	json.Unmarshal(bz, &v)
	if v == nil {
		return []any{}
	}
	return v
}

// vsRandomScript draws one history: a fresh grant, then merges through all three paths with
// starts before / at / after the account's, clawbacks by funder and others, funder updates.
func vsRandomScript(r *rand.Rand, D []string) []vsStep {
	g := &vsGen{r: r, D: D}
	grant := func(ev string, from string, start int64, merge bool) vsStep {
		v := g.periods(1+r.Intn(4), 1)
		for k := 0; vsPeriodsIn(v).TotalAmount().IsZero() && k < 10; k++ {
			v[0].Amt[D[0]] = fmt.Sprint(1 + r.Intn(1000))
		}
		tot := vsPeriodsIn(v).TotalAmount()
		l := g.split(tot, 1+r.Intn(3), 1)
		args := M{"from": from, "start": float64(start), "merge": merge}
		switch {
		case ev == "apply":
			args["lockup"], args["vesting"], args["merge"] = vsPeriodsAny(l), []any{}, true
		case r.Intn(6) == 0:
			args["lockup"], args["vesting"] = []any{}, vsPeriodsAny(v)
		case r.Intn(6) == 0:
			args["lockup"], args["vesting"] = vsPeriodsAny(l), []any{}
		default:
			args["lockup"], args["vesting"] = vsPeriodsAny(l), vsPeriodsAny(v)
		}
		return vsStep{Ev: ev, Args: args}
	}
	funder := "f1"
	who := func() string {
		if r.Intn(4) == 0 {
			return []string{"f1", "f2", "x"}[r.Intn(3)]
		}
		return funder
	}
	accStart := int64(r.Intn(300))
	steps := []vsStep{{Ev: "tick", Args: M{"dt": float64(r.Intn(400))}}}
	steps = append(steps, grant([]string{"create", "create", "convert_into", "apply"}[r.Intn(4)], funder, accStart, false))
	n := 6 + r.Intn(8)
	for i := 0; i < n; i++ {
		switch r.Intn(10) {
		case 0, 1, 2:
			steps = append(steps, vsStep{Ev: "tick", Args: M{"dt": float64([]int{0, 1, 5, 50, 300, 900}[r.Intn(6)])}})
		case 3, 4, 5, 6:
			ev := []string{"create", "convert_into", "apply"}[r.Intn(3)]
			start := accStart
			switch r.Intn(3) {
			case 0:
				start = accStart - int64(1+r.Intn(300))
				accStart = start
			case 1:
				start = accStart + int64(1+r.Intn(600))
			}
			steps = append(steps, grant(ev, who(), start, r.Intn(8) != 0))
		case 7, 8:
			dest := []string{"", "", "x", "f2"}[r.Intn(4)]
			steps = append(steps, vsStep{Ev: "clawback", Args: M{"by": who(), "dest": dest}})
		case 9:
			by := who()
			nf := []string{"f1", "f2"}[r.Intn(2)]
			steps = append(steps, vsStep{Ev: "update_funder", Args: M{"by": by, "new": nf}})
			if by == funder && nf != by {
				funder = nf
			}
		}
	}
	return steps
}

// ---------------------------------------------------------------------------------------------

type vsOut struct {
	prefix string
	chunk  int
	tw     *TraceWriter
	nfile  int
	total  int
}

// emit writes one line; a new chunk file is started only at a scenario boundary (a pure case or
// the reset line of a history), so that every file can be validated on its own
func (o *vsOut) emit(v any) { o.emitAt(v, true) }

func (o *vsOut) emitAt(v any, boundary bool) {
	if o.tw == nil || (boundary && o.chunk > 0 && o.tw.N >= o.chunk) {
		o.close()
		name := o.prefix
		if o.chunk > 0 {
			name = fmt.Sprintf("%s.%03d", o.prefix, o.nfile)
		}
		tw, err := NewTraceWriter(name)
		if err != nil {
			panic(err)
		}
		o.tw = tw
		o.nfile++
	}
	o.tw.Emit(v)
	o.total++
}

func (o *vsOut) close() {
	if o.tw != nil {
		o.tw.Close()
		o.tw = nil
	}
}

func vsMain(args []string) error {
	fs := flag.NewFlagSet("vsched", flag.ExitOnError)
	enum := fs.Bool("enum", false, "pure: enumerate the bounded input space")
	maxOff := fs.Int64("maxoff", 2, "enum: start offsets 0..maxoff")
	maxP := fs.Int("maxp", 2, "enum: periods per schedule")
	maxLen := fs.Int64("maxlen", 2, "enum: period lengths 0..maxlen")
	maxAmt := fs.Int64("maxamt", 2, "enum: amounts 0..maxamt per denomination")
	ndenoms := fs.Int("denoms", 1, "enum: number of denominations (1 or 2)")
	sample := fs.Int("sample", 0, "enum: keep only a seeded sample of this many pairs (0 = all)")
	randPure := fs.Int("random-pure", 0, "pure: number of seeded random larger cases")
	cases := fs.String("cases", "", "pure: JSON file with an array of cases (replay)")
	scripts := fs.String("scripts", "", "history: JSON file with an array of scripts")
	random := fs.Int("random", 0, "history: number of random scenarios")
	seed := fs.Int64("seed", 1, "seed")
	chunk := fs.Int("chunk", 0, "split the output into files <out>.NNN of this many lines")
	out := fs.String("out", "trace.ndjson", "trace output")
	fs.Parse(args)

	o := &vsOut{prefix: *out, chunk: *chunk}
	defer o.close()
	scn := 0
	allD := []string{"aISLM", "aLIQUID1"}

	runCase := func(c vsCase, r *rand.Rand) {
		scn++
		o.emit(vsEval(c, scn, r))
	}

	if *cases != "" {
		var cs []vsCase
		if err := readJSONFile(*cases, &cs); err != nil {
			return err
		}
		for _, c := range cs {
			runCase(c, nil)
		}
	}

	npairs := 0
	if *enum {
		D := allD[:*ndenoms]
		lists := vsEnumLists(D, *maxP, *maxLen, *maxAmt)
		r := rand.New(rand.NewSource(*seed*7919 + 13))
		// every schedule alone: exact end and a later (account) end
		for off := int64(0); off <= *maxOff; off++ {
			for _, ps := range lists {
				for _, extra := range []int64{0, 1} {
					runCase(vsCase{Kind: "sched", D: D, A: &vsSched{Start: off, Periods: ps}, EndExtra: extra}, nil)
				}
			}
		}
		// every pair with one of the two starting at offset 0
		total := int64(len(lists)) * int64(len(lists)) * (2**maxOff + 1)
		for oa := int64(0); oa <= *maxOff; oa++ {
			for ob := int64(0); ob <= *maxOff; ob++ {
				if oa != 0 && ob != 0 {
					continue
				}
				for _, pa := range lists {
					for _, pb := range lists {
						if *sample > 0 && r.Int63n(total) >= int64(*sample) {
							continue
						}
						npairs++
						a, b := &vsSched{Start: oa, Periods: pa}, &vsSched{Start: ob, Periods: pb}
						runCase(vsCase{Kind: "pair", D: D, A: a, B: b}, nil)
						if oa == ob && vsTotalEq(D, pa, pb) {
							runCase(vsCase{Kind: "acct", D: D, A: a, B: b}, nil)
						}
					}
				}
			}
		}
	}

	if *randPure > 0 {
		r := rand.New(rand.NewSource(*seed*104729 + 7))
		g := &vsGen{r: r, D: allD}
		for _, c := range g.randomCases(*randPure) {
			runCase(c, r)
		}
	}

	runScript := func(src string, sc vsScript) {
		scn++
		e := newVsEnv(sc.Cfg)
		o.emit(M{"ev": "reset", "scn": scn, "src": src, "cfg": sc.Cfg, "base": vsBase, "post": e.project()})
		for _, st := range sc.Steps {
			ok, errs := e.step(st)
			o.emitAt(M{"ev": st.Ev, "args": st.Args, "ok": ok, "err": errs, "post": e.project(), "views": e.views(), "scn": scn}, false)
		}
	}

	if *scripts != "" {
		var all []vsScript
		if err := readJSONFile(*scripts, &all); err != nil {
			return err
		}
		for i, sc := range all {
			if sc.Cfg == nil {
				sc.Cfg = &vsCfg{Seed: *seed + int64(i), Denoms: []string{"aISLM"}, InitBank: map[string]string{"aISLM": "9"}}
			}
			runScript("script", sc)
		}
	}

	for i := 0; i < *random; i++ {
		s := *seed*1000003 + int64(i)
		r := rand.New(rand.NewSource(s))
		cfg := &vsCfg{Seed: s, Denoms: allD, InitBank: map[string]string{
			"aISLM": "900000000000000000000000000000000", "aLIQUID1": "900000000000000000000000000000000"}}
		runScript("random", vsScript{Cfg: cfg, Steps: vsRandomScript(r, allD)})
	}

	o.close()
	fmt.Printf("vsched: scenarios=%d lines=%d files=%d pairs=%d\n", scn, o.total, o.nfile, npairs)
	if o.total == 0 {
		// keep the contract "the output file exists"
		f, err := os.Create(*out)
		if err == nil {
			f.Close()
		}
	}
	return nil
}
