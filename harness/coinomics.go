package main

import (
	"flag"
	"fmt"
	"math/big"
	"math/rand"
	"time"

	sdkmath "cosmossdk.io/math"
	sdk "github.com/cosmos/cosmos-sdk/types"
	authtypes "github.com/cosmos/cosmos-sdk/x/auth/types"
	stakingtypes "github.com/cosmos/cosmos-sdk/x/staking/types"

	"github.com/haqq-network/haqq/testutil"
	erc20types "github.com/haqq-network/haqq/x/erc20/types"
)

// Driver for specs/Coinomics.tla (property C13).
//
// A scenario is {"cfg": {bonded, coeff, dist, abs, denom, enabled}, "steps": [{"ev","args"}, ...]}:
// the cap is set up at supply + dist (abs = "-") or at the absolute value abs, stored with the label denom.
// Steps:  endblock{ts}            run the real x/coinomics EndBlocker at block time ts (Unix ms)
//         set_enabled{enabled}    params.EnableCoinomics
//         set_coeff{coeff}        params.RewardCoefficient (percent, 18-decimal mantissa)
//         set_bonded{bonded}      make staking TotalBondedTokens (= balance of the bonded pool, which
//                                 is what the coinomics keeper reads) exactly this amount: the
//                                 difference is minted into / moved out of the pool
//         set_max{dist,denom}     MaxSupply := current bank supply + dist, stored as a coin of `denom`
//         set_max_abs{max,denom}  MaxSupply := max, whatever the supply is (zero, one, far below the supply, ..)
//                                 MaxSupply is an sdk.Coin; genesis validation and the keeper accept any
//                                 denomination label in it, so the label is part of the scenario
//         ext_supply{delta}       another module mints (delta > 0) or burns (delta < 0)
// Every scenario runs on a cache-wrapped copy of one freshly initialised app (never written
// back), so scenarios are independent of each other and of their order.
// Whole blocks of a chain (the coinomics end blocker among the other modules' begin and end
// blockers and the transactions of the block) are a second kind of scenario: coinchain.go.
// Trace line: {"ev","args","ok","err","post": <state read from the real stores>, "scn": n}.

func init() { register("coinomics", coinomicsMain) }

const coinDenom = "aISLM"

type coinStep struct {
	Ev   string `json:"ev"`
	Args M      `json:"args"`
}

type coinCfg struct {
	Bonded  string `json:"bonded"`
	Coeff   string `json:"coeff"`
	Dist    string `json:"dist"`
	Abs     string `json:"abs"`   // "-": the cap is supply + dist
	Denom   string `json:"denom"` // label MaxSupply is stored with
	Enabled bool   `json:"enabled"`
}

type coinScript struct {
	Cfg   *coinCfg   `json:"cfg"`
	Steps []coinStep `json:"steps"`
}

type coinEnv struct {
	base  *Env
	ctx   sdk.Context
	vault sdk.AccAddress
}

func coinInt(s string) sdkmath.Int { return sdkmath.NewIntFromBigInt(mustBig(s)) }

func coinCoins(amt sdkmath.Int) sdk.Coins { return sdk.NewCoins(sdk.NewCoin(coinDenom, amt)) }

func newCoinBase(seed int64) *coinEnv {
	e := NewEnv(seed)
	c := &coinEnv{base: e, ctx: e.Ctx, vault: DetKey(seed, "coin-vault").Addr}
	// something for "other modules" to burn
	e.Fund(c.vault, coinCoins(coinInt("1000000000000000000000")))
	return c
}

// fork returns an independent copy-on-write view of the base state.
func (c *coinEnv) fork() *coinEnv {
	ctx, _ := c.base.Ctx.CacheContext()
	return &coinEnv{base: c.base, ctx: ctx, vault: c.vault}
}

func (c *coinEnv) supply() sdkmath.Int {
	return c.base.App.BankKeeper.GetSupply(c.ctx, coinDenom).Amount
}

// project reads the abstract state from the real stores.
func (c *coinEnv) project() M {
	a := c.base.App
	p := a.CoinomicsKeeper.GetParams(c.ctx)
	feeAddr := authtypes.NewModuleAddress(authtypes.FeeCollectorName)
	return M{
		"enabled":  p.EnableCoinomics,
		"coeff":    p.RewardCoefficient.BigInt().String(),
		"max":      bigStr(a.CoinomicsKeeper.GetMaxSupply(c.ctx).Amount),
		"maxDenom": a.CoinomicsKeeper.GetMaxSupply(c.ctx).Denom,
		"prevTs":   bigStr(a.CoinomicsKeeper.GetPrevBlockTS(c.ctx)),
		"supply":   bigStr(a.BankKeeper.GetSupply(c.ctx, p.MintDenom).Amount),
		"bonded":   bigStr(a.StakingKeeper.TotalBondedTokens(c.ctx)),
		"fee":      bigStr(a.BankKeeper.GetBalance(c.ctx, feeAddr, p.MintDenom).Amount),
	}
}

func (c *coinEnv) step(st coinStep) (ok bool, errs string) {
	a := c.base.App
	defer func() {
		if r := recover(); r != nil {
			ok, errs = false, fmt.Sprintf("panic: %v", r)
		}
	}()
	str := func(k string) string { return st.Args[k].(string) }
	label := func() string { // (scenarios recorded before the label existed: the native one)
		if d, ok := st.Args["denom"].(string); ok {
			return d
		}
		return coinDenom
	}
	switch st.Ev {
	case "endblock":
		ts := mustBig(str("ts")).Int64()
		c.ctx = c.ctx.WithBlockTime(time.UnixMilli(ts).UTC()).WithBlockHeight(c.ctx.BlockHeight() + 1)
		a.CoinomicsKeeper.EndBlocker(c.ctx)
	case "set_enabled":
		p := a.CoinomicsKeeper.GetParams(c.ctx)
		p.EnableCoinomics = st.Args["enabled"].(bool)
		a.CoinomicsKeeper.SetParams(c.ctx, p)
	case "set_coeff":
		p := a.CoinomicsKeeper.GetParams(c.ctx)
		p.RewardCoefficient = sdkmath.LegacyNewDecFromBigIntWithPrec(mustBig(str("coeff")), sdkmath.LegacyPrecision)
		a.CoinomicsKeeper.SetParams(c.ctx, p)
	case "set_bonded":
		want := coinInt(str("bonded"))
		have := a.StakingKeeper.TotalBondedTokens(c.ctx)
		switch {
		case want.GT(have):
			if err := testutil.FundModuleAccount(c.ctx, a.BankKeeper, stakingtypes.BondedPoolName, coinCoins(want.Sub(have))); err != nil {
				return false, err.Error()
			}
		case want.LT(have):
			if err := a.BankKeeper.SendCoinsFromModuleToAccount(c.ctx, stakingtypes.BondedPoolName, c.vault, coinCoins(have.Sub(want))); err != nil {
				return false, err.Error()
			}
		}
	case "set_max":
		m := c.supply().Add(coinInt(str("dist")))
		a.CoinomicsKeeper.SetMaxSupply(c.ctx, sdk.Coin{Denom: label(), Amount: m})
	case "set_max_abs":
		a.CoinomicsKeeper.SetMaxSupply(c.ctx, sdk.Coin{Denom: label(), Amount: coinInt(str("max"))})
	case "ext_supply":
		d := coinInt(str("delta"))
		if d.IsPositive() {
			if err := testutil.FundAccount(c.ctx, a.BankKeeper, c.vault, coinCoins(d)); err != nil {
				return false, err.Error()
			}
		} else if d.IsNegative() {
			if err := a.BankKeeper.SendCoinsFromAccountToModule(c.ctx, c.vault, erc20types.ModuleName, coinCoins(d.Neg())); err != nil {
				return false, err.Error()
			}
			if err := a.BankKeeper.BurnCoins(c.ctx, erc20types.ModuleName, coinCoins(d.Neg())); err != nil {
				return false, err.Error()
			}
		}
	default:
		panic("unknown coinomics step " + st.Ev)
	}
	return true, ""
}

func (c *coinEnv) setup(cfg *coinCfg) error {
	if cfg.Abs == "" {
		cfg.Abs = coinNoAbs
	}
	if cfg.Denom == "" {
		cfg.Denom = coinDenom
	}
	capStep := coinStep{"set_max", M{"dist": cfg.Dist, "denom": cfg.Denom}}
	if cfg.Abs != coinNoAbs {
		capStep = coinStep{"set_max_abs", M{"max": cfg.Abs, "denom": cfg.Denom}}
	}
	for _, st := range []coinStep{
		{"set_coeff", M{"coeff": cfg.Coeff}},
		{"set_bonded", M{"bonded": cfg.Bonded}},
		capStep,
		{"set_enabled", M{"enabled": cfg.Enabled}},
	} {
		if ok, e := c.step(st); !ok {
			return fmt.Errorf("scenario set-up %s: %s", st.Ev, e)
		}
	}
	if !c.base.App.CoinomicsKeeper.GetPrevBlockTS(c.ctx).IsZero() {
		return fmt.Errorf("scenario does not start with PrevBlockTS = 0")
	}
	return nil
}

// ---------------------------------------------------------------------------------
// random scenarios

const coinFar = "1000000000000000000000000000000000000000000" // 10^42
const coinNoAbs = "-"

// labels MaxSupply may be stored with: the native one, a different spelling of it, other coins
var coinLabels = []string{"aislm", "AISLM", "islm", "uatom", "ibc/27394FB092D2ECCD56123C74F36E4C1F926001CEADA9CA97EA622B25F41E5EB2", "erc20/0x80b5a32E4F032B2a058b4F29EC95EEfEEB87aDcd"}

func coinRandLabel(r *rand.Rand) string {
	if r.Intn(5) < 3 {
		return coinDenom
	}
	return coinLabels[r.Intn(len(coinLabels))]
}

// absolute caps: zero, a few units, anything up to the size of the supply and beyond
func coinRandAbs(r *rand.Rand) string {
	switch r.Intn(6) {
	case 0, 1, 2:
		return "0"
	case 3:
		return fmt.Sprint(1 + r.Intn(3))
	case 4:
		return coinRandBig(r, 1+r.Intn(94)).String() // below the genesis supply
	default:
		return coinRandBig(r, 95+r.Intn(40)).String()
	}
}

// year boundaries: 1 Jan 00:00:00 UTC of the year after a non-leap / leap / century year
var coinNewYears = []int{2001, 2024, 2025, 2026, 2028, 2029, 2100, 2101, 2104, 2105, 2400, 2401}

func coinRandBig(r *rand.Rand, bits int) *big.Int {
	b := make([]byte, (bits+7)/8)
	r.Read(b)
	x := new(big.Int).SetBytes(b)
	return x.Rsh(x, uint(len(b)*8-bits))
}

func coinRandBonded(r *rand.Rand) string {
	switch r.Intn(8) {
	case 0:
		return "0"
	case 1:
		return fmt.Sprint(1 + r.Intn(20))
	case 2:
		return fmt.Sprint(1 + r.Intn(1000000))
	case 3:
		return new(big.Int).Mul(big.NewInt(int64(1+r.Intn(100000000))), mustBig("1000000000000000000")).String()
	case 4:
		return coinRandBig(r, 64+r.Intn(40)).String()
	default:
		return coinRandBig(r, 100+r.Intn(29)).String() // up to 2^128
	}
}

func coinRandCoeff(r *rand.Rand) string {
	switch r.Intn(8) {
	case 0:
		return "0"
	case 1:
		return "7800000000000000000"
	case 2:
		return []string{"50000000000000000000", "100000000000000000000", "25000000000000000000", "200000000000000000000"}[r.Intn(4)]
	case 3:
		return coinRandBig(r, 1+r.Intn(20)).String() // dust: below 10^-12 percent
	case 4:
		return new(big.Int).Mul(big.NewInt(int64(1+r.Intn(10000))), mustBig("1000000000000000000")).String() // up to 10000 %
	default:
		return new(big.Int).Mod(coinRandBig(r, 70), mustBig("100000000000000000000")).String() // 0..100 %, 18 decimals
	}
}

func coinYearStart(y int) int64 { return time.Date(y, 1, 1, 0, 0, 0, 0, time.UTC).UnixMilli() }

// as-built amount (used only to *place* the cap near the interesting values)
func coinExpectMint(bonded, coeff string, elapsed int64, ts int64) *big.Int {
	if elapsed < 0 {
		return big.NewInt(0)
	}
	y := time.UnixMilli(ts).UTC().Year()
	year := int64(31536000000)
	if (y%4 == 0 && y%100 != 0) || y%400 == 0 {
		year = 31622400000
	}
	rc := sdkmath.LegacyNewDecFromBigIntWithPrec(mustBig(coeff), 18).Quo(sdkmath.LegacyNewDec(100))
	m := sdkmath.LegacyNewDecFromBigInt(mustBig(bonded)).Mul(rc).Mul(sdkmath.LegacyNewDec(elapsed).Quo(sdkmath.LegacyNewDec(year)))
	return m.RoundInt().BigInt()
}

// coinGen produces the steps of a random scenario one at a time; it looks at the real
// EnableCoinomics flag (minting switches itself off at the cap) to keep scenarios lively.
// The steps it produced are logged like script steps, so a scenario replays from its log.
type coinGen struct {
	r             *rand.Rand
	now, lastTs   int64
	bonded, coeff string
}

func coinRandomCfg(r *rand.Rand) (*coinCfg, *coinGen) {
	cfg := &coinCfg{Bonded: coinRandBonded(r), Coeff: coinRandCoeff(r), Dist: coinFar, Abs: coinNoAbs, Enabled: r.Intn(6) != 0}
	switch r.Intn(12) {
	case 0:
		cfg.Dist = "0"
	case 1:
		cfg.Dist = "-1"
	case 2:
		cfg.Dist = coinRandBig(r, 1+r.Intn(90)).String()
	case 3:
		cfg.Dist, cfg.Abs = "0", coinRandAbs(r)
	}
	cfg.Denom = coinRandLabel(r)
	g := &coinGen{r: r, bonded: cfg.Bonded, coeff: cfg.Coeff}
	// first block: shortly before a new year, or anywhere
	if r.Intn(3) != 0 {
		g.now = coinYearStart(coinNewYears[r.Intn(len(coinNewYears))]) - []int64{1, 1000, 6000, 12000, 60000, 86400000}[r.Intn(6)]
	} else {
		g.now = coinYearStart(2001) + r.Int63n(coinYearStart(2399)-coinYearStart(2001))
	}
	return cfg, g
}

func (g *coinGen) nextDt(enabled bool) int64 {
	r := g.r
	var dt int64
	switch r.Intn(12) {
	case 0:
		dt = 0
	case 1:
		dt = 1
	case 2:
		dt = 1000
	case 3, 4, 5:
		dt = 5000 + r.Int63n(2000)
	case 6:
		dt = 1 + r.Int63n(1000000000)
	case 7:
		dt = 1 + r.Int63n(3*31622400000) // up to three years
	case 8:
		dt = []int64{15768000000, 15811200000, 31536000000, 31622400000, 7884000000}[r.Intn(5)]
	case 9:
		dt = 1 + r.Int63n(1000*31536000000) // huge gap
	default:
		// to the next 1 January, or just around it
		y := time.UnixMilli(g.now).UTC().Year() + 1
		dt = coinYearStart(y) - g.now + []int64{-1, 0, 1, 5999}[r.Intn(4)]
		if dt < 0 {
			dt = 0
		}
	}
	// equal timestamps only while minting is on: a disabled block carrying the timestamp of the
	// last minting block would make a stale PrevBlockTS indistinguishable from a fresh one
	if !enabled && dt == 0 {
		dt = 6000
	}
	if g.now+dt > coinYearStart(9000) {
		dt = 6000
	}
	return dt
}

func (g *coinGen) block(dt int64) coinStep {
	g.now += dt
	g.lastTs = g.now
	return coinStep{"endblock", M{"ts": fmt.Sprint(g.now)}}
}

// nearCap places the cap relative to what the next block should mint, then runs that block
func (g *coinGen) nearCap(enabled bool) []coinStep {
	r := g.r
	dt := g.nextDt(enabled)
	exp := big.NewInt(0)
	if g.lastTs != 0 {
		exp = coinExpectMint(g.bonded, g.coeff, g.now+dt-g.lastTs, g.now+dt)
	}
	var dist *big.Int
	switch r.Intn(9) {
	case 0:
		dist = mustBig(coinFar)
	case 1:
		dist = big.NewInt(0)
	case 2:
		dist = big.NewInt(-1 - int64(r.Intn(5)))
	case 3:
		dist = new(big.Int).Set(exp)
	case 4:
		dist = new(big.Int).Add(exp, big.NewInt(1))
	case 5:
		dist = new(big.Int).Sub(exp, big.NewInt(1))
	case 6:
		dist = new(big.Int).Div(exp, big.NewInt(2))
	default:
		dist = new(big.Int).Mul(exp, big.NewInt(int64(2+r.Intn(3))))
	}
	return []coinStep{{"set_max", M{"dist": dist.String(), "denom": coinRandLabel(r)}}, g.block(dt)}
}

func (g *coinGen) next(enabled bool) []coinStep {
	r := g.r
	k := r.Intn(100)
	if !enabled {
		switch {
		case k < 30: // switch minting on again, often after making room below the cap
			var out []coinStep
			if r.Intn(2) == 0 {
				out = append(out, coinStep{"set_max", M{"dist": []string{coinFar, coinRandBig(r, 1+r.Intn(100)).String(), "1", "0"}[r.Intn(4)], "denom": coinRandLabel(r)}})
			}
			return append(out, coinStep{"set_enabled", M{"enabled": true}})
		case k < 65:
			return []coinStep{g.block(g.nextDt(enabled))}
		}
	} else {
		switch {
		case k < 6:
			return []coinStep{{"set_enabled", M{"enabled": false}}}
		case k < 55:
			return []coinStep{g.block(g.nextDt(enabled))}
		case k < 72:
			return g.nearCap(enabled)
		case k < 76: // the cap configured to an absolute value, then a block
			return []coinStep{{"set_max_abs", M{"max": coinRandAbs(r), "denom": coinRandLabel(r)}}, g.block(g.nextDt(enabled))}
		}
	}
	switch k % 4 {
	case 0:
		g.coeff = coinRandCoeff(r)
		return []coinStep{{"set_coeff", M{"coeff": g.coeff}}}
	case 1, 2:
		g.bonded = coinRandBonded(r)
		return []coinStep{{"set_bonded", M{"bonded": g.bonded}}}
	default:
		d := coinRandBig(r, 1+r.Intn(127))
		if r.Intn(4) == 0 {
			d = new(big.Int).Neg(big.NewInt(int64(r.Intn(1000000))))
		}
		return []coinStep{{"ext_supply", M{"delta": d.String()}}}
	}
}

// ---------------------------------------------------------------------------------
// vectors of the real LegacyDec for specs/Dec18.tla

func coinDecVectors(tw *TraceWriter, scn int, r *rand.Rand, n int) {
	half := mustBig("500000000000000000")
	pick := func() *big.Int {
		var x *big.Int
		switch r.Intn(6) {
		case 0:
			x = big.NewInt(int64(r.Intn(10)))
		case 1: // around a rounding tie
			x = new(big.Int).Mul(big.NewInt(int64(r.Intn(40))), half)
			x.Add(x, big.NewInt(int64(r.Intn(3)-1)))
		case 2:
			x = coinRandBig(r, 1+r.Intn(60))
		case 3:
			x = new(big.Int).Mul(coinRandBig(r, 1+r.Intn(64)), mustBig("1000000000000000000"))
		default:
			x = coinRandBig(r, 1+r.Intn(188))
		}
		if r.Intn(5) == 0 {
			x.Neg(x)
		}
		return x
	}
	for i := 0; i < n; i++ {
		a, b := pick(), pick()
		if b.Sign() == 0 {
			b = big.NewInt(1999999999999999999)
		}
		da, db := sdkmath.LegacyNewDecFromBigIntWithPrec(a, 18), sdkmath.LegacyNewDecFromBigIntWithPrec(b, 18)
		tw.Emit(M{"ev": "dec", "scn": scn, "ok": true, "err": "", "args": M{"a": a.String(), "b": b.String()},
			"post": M{"mul": da.Mul(db).BigInt().String(), "quo": da.Quo(db).BigInt().String(),
				"round": da.RoundInt().String(), "trunc": da.TruncateInt().String()}})
	}
}

// ---------------------------------------------------------------------------------

func coinomicsMain(args []string) error {
	fs := flag.NewFlagSet("coinomics", flag.ExitOnError)
	scripts := fs.String("scripts", "", "JSON file: array of scenarios {cfg, steps}")
	random := fs.Int("random", 0, "number of random scenarios")
	steps := fs.Int("steps", 12, "steps per random scenario")
	decvec := fs.Int("decvec", 0, "number of LegacyDec vectors to record")
	chainScripts := fs.String("chain-scripts", "", "JSON file: array of whole-block scenarios {cfg, steps} (coinchain.go)")
	chainRandom := fs.Int("chain-random", 0, "number of random whole-block scenarios")
	chainSteps := fs.Int("chain-steps", 12, "blocks per random whole-block scenario")
	seed := fs.Int64("seed", 1, "seed")
	out := fs.String("out", "trace.ndjson", "trace output")
	fs.Parse(args)

	tw, err := NewTraceWriter(*out)
	if err != nil {
		return err
	}
	defer tw.Close()
	base := newCoinBase(*seed)
	scn := 0

	run := func(src string, sc coinScript) error {
		scn++
		c := base.fork()
		if sc.Cfg == nil {
			sc.Cfg = &coinCfg{Bonded: "1000000000000000000", Coeff: "7800000000000000000", Dist: coinFar, Abs: coinNoAbs, Denom: coinDenom, Enabled: true}
		}
		if err := c.setup(sc.Cfg); err != nil {
			return err
		}
		tw.Emit(M{"ev": "reset", "scn": scn, "src": src, "cfg": sc.Cfg, "post": c.project()})
		for _, st := range sc.Steps {
			ok, e := c.step(st)
			tw.Emit(M{"ev": st.Ev, "args": st.Args, "ok": ok, "err": e, "post": c.project(), "scn": scn})
		}
		return nil
	}

	if *scripts != "" {
		var all []coinScript
		if err := readJSONFile(*scripts, &all); err != nil {
			return err
		}
		for _, sc := range all {
			if err := run("script", sc); err != nil {
				return err
			}
		}
	}
	for i := 0; i < *random; i++ {
		r := rand.New(rand.NewSource(*seed*1000003 + int64(i)))
		cfg, g := coinRandomCfg(r)
		scn++
		c := base.fork()
		if err := c.setup(cfg); err != nil {
			return err
		}
		tw.Emit(M{"ev": "reset", "scn": scn, "src": "random", "cfg": cfg, "post": c.project()})
		for n := 0; n < *steps; {
			for _, st := range g.next(base.base.App.CoinomicsKeeper.GetParams(c.ctx).EnableCoinomics) {
				ok, e := c.step(st)
				tw.Emit(M{"ev": st.Ev, "args": st.Args, "ok": ok, "err": e, "post": c.project(), "scn": scn})
				n++
			}
		}
	}
	if err := coinChainRun(tw, &scn, *chainScripts, *chainRandom, *chainSteps, *seed); err != nil {
		return err
	}
	if *decvec > 0 {
		scn++
		c := base.fork()
		tw.Emit(M{"ev": "reset", "scn": scn, "src": "decvec", "cfg": M{"n": *decvec}, "post": c.project()})
		coinDecVectors(tw, scn, rand.New(rand.NewSource(*seed*7919+17)), *decvec)
	}
	fmt.Printf("coinomics: scenarios=%d lines=%d\n", scn, tw.N)
	return nil
}
