package main

// Driver for specs/Erc20Peg.tla (property C10): one token pair per scenario on a real haqq
// application driven block by block (chainkit.Node).
//
//   * the pair is registered through the governance proposal handler of x/erc20 (the function
//     gov calls), on the deliver state: RegisterCoinProposal for an IBC voucher denomination
//     (coin origin, the module deploys ERC20MinterBurnerDecimals), RegisterERC20Proposal for a
//     contract deployed by an Ethereum create transaction (ERC20 origin);
//   * token behaviours: the repository's compiled artifacts ERC20MinterBurnerDecimals (honest,
//     selfDestructed), ERC20MaliciousDelayed and ERC20DirectBalanceManipulation with the
//     hard-coded thief address replaced by a key the harness owns, and a hand-assembled token
//     that emits Transfer(caller, to, n) without moving balances (fakeTransferLog);
//   * the switchable adversarial family "adv" (epAdvTokenCode): a hand-assembled token that is
//     honest until its owner arms it and then answers balanceOf()/totalSupply() in the manner
//     cfg.bal (true | empty | revert | short | zero | high) and executes transfer() in the manner
//     cfg.xfer (honest | noop | less | more | elsewhere | extra | retFalse | retEmpty | retShort | refuse),
//     for ever or only until the first transfer (cfg.shot = always | once).  Its TRUE books are its
//     storage (slot(address) = balance); the projection reads them with EvmKeeper.GetState, never
//     through the answers of the contract;
//   * steps: MsgConvertCoin / MsgConvertERC20 / bank MsgSend through the message service router
//     on a cached context (baseapp.runMsgs semantics); ERC20 transfer / burn / transferFrom as
//     REAL Ethereum transactions through DeliverTx (ante handler, state transition, post-tx
//     hook); pair toggles through the proposal handler; ICS-20 receive / acknowledgement /
//     timeout by calling the application's real transfer stack (erc20 middleware -> packet
//     forward middleware -> transfer module) taken from the IBC router with crafted packets, on
//     a cached context written only when core IBC would write it - for coin-origin pairs with
//     the voucher denomination ibc/<hash>, for ERC20-origin pairs with the pair's own (native)
//     denomination erc20/<address>, whose coins in flight sit in the ICS-20 channel escrow
//     account (put there by the environment step ibc_out, the escrow half of MsgTransfer);
//   * approve(spender, n) by a holder as a real Ethereum transaction (the hook sees the
//     Approval log);
//   * after every step the projection reads bank supply and balances, totalSupply(),
//     balanceOf() and allowance(module, thief) by real EVM calls, and the pair registry.

import (
	"bytes"
	"errors"
	"flag"
	"fmt"
	"math/big"
	"math/rand"

	sdkmath "cosmossdk.io/math"
	dbm "github.com/cometbft/cometbft-db"
	sdk "github.com/cosmos/cosmos-sdk/types"
	authtypes "github.com/cosmos/cosmos-sdk/x/auth/types"
	banktypes "github.com/cosmos/cosmos-sdk/x/bank/types"
	govv1beta1 "github.com/cosmos/cosmos-sdk/x/gov/types/v1beta1"
	transfertypes "github.com/cosmos/ibc-go/v7/modules/apps/transfer/types"
	clienttypes "github.com/cosmos/ibc-go/v7/modules/core/02-client/types"
	channeltypes "github.com/cosmos/ibc-go/v7/modules/core/04-channel/types"
	porttypes "github.com/cosmos/ibc-go/v7/modules/core/05-port/types"
	"github.com/ethereum/go-ethereum/accounts/abi"
	"github.com/ethereum/go-ethereum/common"
	ethcrypto "github.com/ethereum/go-ethereum/crypto"

	"github.com/haqq-network/haqq/contracts"
	"github.com/haqq-network/haqq/x/erc20"
	erc20types "github.com/haqq-network/haqq/x/erc20/types"
	"github.com/haqq-network/haqq/x/evm/statedb"
	evmtypes "github.com/haqq-network/haqq/x/evm/types"
)

func init() { register("erc20peg", epMain) }

type epStep struct {
	Ev   string `json:"ev"`
	Args M      `json:"args"`
}

type epCfg struct {
	Kind      string   `json:"kind"`      // coin | erc20
	Behaviour string   `json:"behaviour"` // honest | delayedMalicious | directManipulation | selfDestructed | fakeTransferLog | adv
	Bal       string   `json:"bal"`       // adv: how balanceOf answers while armed ("-" otherwise)
	Xfer      string   `json:"xfer"`      // adv: what transfer does while armed
	Shot      string   `json:"shot"`      // adv: always | once
	Holders   []string `json:"holders"`
	InitBal   string   `json:"initBal"`
	Seed      int64    `json:"seed"`
}

type epScript struct {
	Cfg   epCfg    `json:"cfg"`
	Steps []epStep `json:"steps"`
}

const (
	epThief     = "t"
	epModule    = "m"
	epBaseDenom = "uatom"
	epChannel   = "channel-0"
)

// the hard-coded thief of the repository's malicious tokens (contracts/*.sol)
var epHardThief = common.HexToAddress("0x4dC6ac40Af078661fc43823086E1513635Eeab14")

var epTransferTopic = ethcrypto.Keccak256Hash([]byte("Transfer(address,address,uint256)"))

type epEnv struct {
	cfg      epCfg
	n        *Node
	keys     map[string]Key
	accts    []string // holders + thief, the domain of coinBal
	relayer  Key
	abi      abi.ABI
	contract common.Address
	denom    string
	stack    porttypes.IBCModule
	seq      uint64
	batcher  common.Address // forwarding contract: run(amt, k) does k x token.transferFrom(caller, module, amt)
}

func (e *epEnv) ctx() sdk.Context { return e.n.Ctx() }

func (e *epEnv) eth(name string) common.Address {
	if name == epModule {
		return erc20types.ModuleAddress
	}
	return ethAddr(e.keys[name])
}

func (e *epEnv) acc(name string) sdk.AccAddress {
	if name == epModule {
		return sdk.AccAddress(erc20types.ModuleAddress.Bytes())
	}
	return e.keys[name].Addr
}

func (e *epEnv) beginBlock() { e.n.BeginBlock(BlockIn{DtMs: 5000, Proposer: 0}) }
func (e *epEnv) endBlock()   { e.n.EndBlock(); e.n.Commit() }

// ethTx sends a real Ethereum transaction through DeliverTx; ok = included and not reverted.
func (e *epEnv) ethTx(from string, to *common.Address, data []byte, gas uint64) (bool, string) {
	bz, _, err := e.n.EthTxFor(e.keys[from], to, big.NewInt(0), gas, data)
	if err != nil {
		return false, "build: " + err.Error()
	}
	res := e.n.Deliver(bz)
	if res.Code != 0 {
		return false, epShort(res.Log)
	}
	txr, err := evmtypes.DecodeTxResponse(res.Data)
	if err != nil {
		return false, "decode: " + err.Error()
	}
	if txr.Failed() {
		return false, "vm: " + txr.VmError
	}
	return true, ""
}

func epShort(s string) string {
	if len(s) > 200 {
		return s[:200]
	}
	return s
}

// epFakeTokenCode assembles the creation code of the fakeTransferLog token: name()/symbol()
// return "FAKE", decimals() 0, balanceOf(a) = storage[a], totalSupply() = storage[2^255],
// mint(a, n) credits both, transfer(to, n) emits Transfer(caller, to, n) and returns true
// WITHOUT moving balances, everything else returns 32 zero bytes.
func epFakeTokenCode() []byte {
	a := newAsm()
	tsSlot := new(big.Int).Lsh(big.NewInt(1), 255)
	push4 := func(sel string) {
		b := ethcrypto.Keccak256([]byte(sel))[:4]
		a.op(0x63)
		a.op(b...)
	}
	ret32 := func() { a.push1(0x20); a.push1(0); a.op(0xf3) }
	a.push1(0)
	a.op(0x35) // CALLDATALOAD
	a.push1(0xe0)
	a.op(0x1c) // SHR -> selector
	for _, d := range [][2]string{{"name()", "str"}, {"symbol()", "str"}, {"decimals()", "zero"}, {"totalSupply()", "ts"},
		{"balanceOf(address)", "bal"}, {"transfer(address,uint256)", "xfer"}, {"mint(address,uint256)", "mint"}} {
		a.op(0x80) // DUP1
		push4(d[0])
		a.op(0x14) // EQ
		a.pushLabel(d[1])
		a.op(0x57) // JUMPI
	}
	a.label("zero")
	ret32()
	a.label("str")
	a.push1(0x20)
	a.push1(0)
	a.op(0x52) // MSTORE offset
	a.push1(4)
	a.push1(0x20)
	a.op(0x52) // length
	name := make([]byte, 32)
	copy(name, "FAKE")
	a.push32(new(big.Int).SetBytes(name))
	a.push1(0x40)
	a.op(0x52)
	a.push1(0x60)
	a.push1(0)
	a.op(0xf3)
	a.label("ts")
	a.push32(tsSlot)
	a.op(0x54) // SLOAD
	a.push1(0)
	a.op(0x52)
	ret32()
	a.label("bal")
	a.push1(4)
	a.op(0x35)
	a.op(0x54)
	a.push1(0)
	a.op(0x52)
	ret32()
	a.label("mint")
	a.push1(36)
	a.op(0x35) // n
	a.push1(4)
	a.op(0x35)
	a.op(0x54) // balance
	a.op(0x01) // ADD
	a.push1(4)
	a.op(0x35)
	a.op(0x55) // SSTORE(addr, bal+n)
	a.push1(36)
	a.op(0x35)
	a.push32(tsSlot)
	a.op(0x54)
	a.op(0x01)
	a.push32(tsSlot)
	a.op(0x55)
	a.push1(1)
	a.push1(0)
	a.op(0x52)
	ret32()
	a.label("xfer")
	a.push1(36)
	a.op(0x35)
	a.push1(0)
	a.op(0x52) // mem[0] = n
	a.push1(4)
	a.op(0x35) // topic2 = to
	a.op(0x33) // topic1 = CALLER
	a.push32(epTransferTopic.Big())
	a.push1(0x20)
	a.push1(0)
	a.op(0xa3) // LOG3
	a.push1(1)
	a.push1(0)
	a.op(0x52)
	ret32()
	runtime := a.assemble()
	// init: CODECOPY(0, 15, len); RETURN(0, len)
	n := len(runtime)
	ini := []byte{0x61, byte(n >> 8), byte(n), 0x61, 0x00, 0x0f, 0x60, 0x00, 0x39, 0x61, byte(n >> 8), byte(n), 0x60, 0x00, 0xf3}
	return append(ini, runtime...)
}

// Storage layout of the hand-assembled tokens: slot(address) = balance, slot(2^255) = total
// supply, slot(2^255+1) = the adversarial switch.
var (
	epSupplySlot = new(big.Int).Lsh(big.NewInt(1), 255)
	epArmedSlot  = new(big.Int).Add(epSupplySlot, big.NewInt(1))
	epArmSel     = ethcrypto.Keccak256([]byte("arm(uint256)"))[:4]
)

const epLie = 2 // by how much a "high" balanceOf overstates (LIE of the specification)

var epBalModes = map[string]bool{"true": true, "empty": true, "revert": true, "short": true, "zero": true, "high": true}
var epXferModes = map[string]bool{"honest": true, "noop": true, "less": true, "more": true, "elsewhere": true, "extra": true,
	"retFalse": true, "retEmpty": true, "retShort": true, "refuse": true}

// epAdvTokenCode assembles the creation code of the switchable adversarial token.
//
//	name()/symbol() "ADV", decimals() 0, mint(a, n) open (set-up), arm(x) open: switch := x
//	every other selector (approve, burn, allowance, transferFrom, ...) answers one zero word
//	not armed:  balanceOf / totalSupply / transfer are those of an honest token (transfer moves n
//	            from CALLER to `to`, reverts without cover, logs Transfer, answers true)
//	armed:      balanceOf(a) and totalSupply() answer in the manner `bal`:
//	              true  the stored value      empty  RETURN with no data      revert  REVERT
//	              short 16 bytes              zero   0                        high    stored + epLie
//	            transfer(to, n) first clears the switch if shot = once, then in the manner `xfer`:
//	              honest                        noop      moves nothing, no log, answers true
//	              less   moves n/2              more      moves 2n
//	              elsewhere  moves n to the thief instead of `to`
//	              extra  moves n to `to` and n more from the caller to the thief
//	              retFalse / retEmpty / retShort   moves n, answers false / nothing / 16 bytes
//	              refuse  moves nothing and answers false (the non-reverting way of failing)
//	            every leg is an ordinary move (needs cover, else the call reverts) and is logged
//	            truthfully as Transfer(caller, recipient of the leg, amount of the leg)
func epAdvTokenCode(bal, xfer, shot string, thief common.Address) ([]byte, error) {
	if !epBalModes[bal] || !epXferModes[xfer] || (shot != "always" && shot != "once") {
		return nil, fmt.Errorf("unknown adversarial token modes %q/%q/%q", bal, xfer, shot)
	}
	const (
		opADD, opMUL, opSUB, opDIV, opLT, opEQ, opISZERO   = 0x01, 0x02, 0x03, 0x04, 0x10, 0x14, 0x15
		opCALLER, opCALLDATALOAD, opMSTORE, opSLOAD, opSST = 0x33, 0x35, 0x52, 0x54, 0x55
		opJUMPI, opDUP1, opLOG3, opRETURN, opREVERT, opSHR = 0x57, 0x80, 0xa3, 0xf3, 0xfd, 0x1c
	)
	a := newAsm()
	push4 := func(b []byte) { a.op(0x63); a.op(b[:4]...) }
	ret := func(off, size byte) { a.push1(size); a.push1(off); a.op(opRETURN) }
	arg0 := func() { a.push1(4); a.op(opCALLDATALOAD) }  // first argument (an address or a number)
	arg1 := func() { a.push1(36); a.op(opCALLDATALOAD) } // second argument
	armed := func() { a.push32(epArmedSlot); a.op(opSLOAD) }
	// answer(load) emits the armed / honest answers of a read-only function whose true value `load` pushes
	answer := func(tag string, load func()) {
		if bal != "true" {
			armed()
			a.op(opISZERO)
			a.pushLabel(tag + "_true")
			a.op(opJUMPI)
			switch bal {
			case "empty":
				ret(0, 0)
			case "revert":
				a.push1(0)
				a.push1(0)
				a.op(opREVERT)
			case "short":
				load()
				a.push1(0)
				a.op(opMSTORE)
				ret(16, 16)
			case "zero":
				ret(0x40, 0x20) // untouched memory: one zero word
			case "high":
				a.push1(epLie)
				load()
				a.op(opADD)
				a.push1(0)
				a.op(opMSTORE)
				ret(0, 0x20)
			}
		}
		a.label(tag + "_true")
		load()
		a.push1(0)
		a.op(opMSTORE)
		ret(0, 0x20)
	}
	// leg(to, amt): an ordinary move from CALLER; every operand is re-read from storage, so legs
	// compose sequentially (self-transfers included)
	leg := func(to, amt func()) {
		amt()
		a.op(opCALLER, opSLOAD, opLT) // balance(caller) < amt
		a.pushLabel("fail")
		a.op(opJUMPI)
		amt()
		a.op(opCALLER, opSLOAD, opSUB) // balance(caller) - amt
		a.op(opCALLER, opSST)
		amt()
		to()
		a.op(opSLOAD, opADD)
		to()
		a.op(opSST)
		amt()
		a.push1(0)
		a.op(opMSTORE)
		to()
		a.op(opCALLER)
		a.push32(epTransferTopic.Big())
		a.push1(0x20)
		a.push1(0)
		a.op(opLOG3)
	}
	toThief := func() { a.push20(thief) }
	half := func() { a.push1(2); arg1(); a.op(opDIV) }
	double := func() { a.push1(2); arg1(); a.op(opMUL) }
	retTrue := func() { a.push1(1); a.push1(0); a.op(opMSTORE); ret(0, 0x20) }

	a.push1(0)
	a.op(opCALLDATALOAD)
	a.push1(0xe0)
	a.op(opSHR)
	for _, d := range [][2]string{{"name()", "str"}, {"symbol()", "str"}, {"totalSupply()", "ts"}, {"balanceOf(address)", "bal"},
		{"transfer(address,uint256)", "xfer"}, {"mint(address,uint256)", "mint"}, {"arm(uint256)", "arm"}} {
		a.op(opDUP1)
		push4(ethcrypto.Keccak256([]byte(d[0])))
		a.op(opEQ)
		a.pushLabel(d[1])
		a.op(opJUMPI)
	}
	a.label("zero") // decimals() and every function the token does not have
	ret(0x40, 0x20)
	a.label("fail")
	a.push1(0)
	a.push1(0)
	a.op(opREVERT)
	a.label("str")
	a.push1(0x20)
	a.push1(0)
	a.op(opMSTORE)
	a.push1(3)
	a.push1(0x20)
	a.op(opMSTORE)
	name := make([]byte, 32)
	copy(name, "ADV")
	a.push32(new(big.Int).SetBytes(name))
	a.push1(0x40)
	a.op(opMSTORE)
	ret(0, 0x60)
	a.label("ts")
	answer("ts", func() { a.push32(epSupplySlot); a.op(opSLOAD) })
	a.label("bal")
	answer("bal", func() { arg0(); a.op(opSLOAD) })
	a.label("mint")
	arg1()
	arg0()
	a.op(opSLOAD, opADD)
	arg0()
	a.op(opSST)
	arg1()
	a.push32(epSupplySlot)
	a.op(opSLOAD, opADD)
	a.push32(epSupplySlot)
	a.op(opSST)
	retTrue()
	a.label("arm")
	arg0()
	a.push32(epArmedSlot)
	a.op(opSST)
	retTrue()
	a.label("xfer")
	if xfer != "honest" {
		armed()
		a.op(opISZERO)
		a.pushLabel("xfer_honest")
		a.op(opJUMPI)
		if shot == "once" {
			a.push1(0)
			a.push32(epArmedSlot)
			a.op(opSST)
		}
		switch xfer {
		case "noop":
			retTrue()
		case "refuse":
			ret(0x40, 0x20)
		case "less":
			leg(arg0, half)
			retTrue()
		case "more":
			leg(arg0, double)
			retTrue()
		case "elsewhere":
			leg(toThief, arg1)
			retTrue()
		case "extra":
			leg(arg0, arg1)
			leg(toThief, arg1)
			retTrue()
		case "retFalse":
			leg(arg0, arg1)
			ret(0x40, 0x20)
		case "retEmpty":
			leg(arg0, arg1)
			ret(0, 0)
		case "retShort":
			leg(arg0, arg1)
			a.push1(1)
			a.push1(0)
			a.op(opMSTORE)
			ret(16, 16)
		}
	} else if shot == "once" {
		// an honest transfer still ends the armed phase of a once-token
		armed()
		a.op(opISZERO)
		a.pushLabel("xfer_honest")
		a.op(opJUMPI)
		a.push1(0)
		a.push32(epArmedSlot)
		a.op(opSST)
	}
	a.label("xfer_honest")
	leg(arg0, arg1)
	retTrue()
	runtime := a.assemble()
	n := len(runtime)
	ini := []byte{0x61, byte(n >> 8), byte(n), 0x61, 0x00, 0x0f, 0x60, 0x00, 0x39, 0x61, byte(n >> 8), byte(n), 0x60, 0x00, 0xf3}
	return append(ini, runtime...), nil
}

// epCreationCode returns the creation bytecode (with constructor arguments) of the token
// of the scenario's behaviour; the thief constant of the malicious artifacts is replaced.
func (e *epEnv) epCreationCode(initSupply *big.Int) ([]byte, error) {
	patch := func(c evmtypes.CompiledContract) ([]byte, error) {
		bin := []byte(c.Bin)
		if bytes.Count(bin, epHardThief.Bytes()) != 1 {
			return nil, fmt.Errorf("thief constant not found exactly once in %d bytes of creation code", len(bin))
		}
		bin = bytes.Replace(bin, epHardThief.Bytes(), e.eth(epThief).Bytes(), 1)
		args, err := c.ABI.Pack("", initSupply)
		if err != nil {
			return nil, err
		}
		return append(bin, args...), nil
	}
	switch e.cfg.Behaviour {
	case "honest", "selfDestructed":
		c := contracts.ERC20MinterBurnerDecimalsContract
		args, err := c.ABI.Pack("", "Honest Token", "HON", uint8(18))
		if err != nil {
			return nil, err
		}
		return append(append([]byte{}, c.Bin...), args...), nil
	case "delayedMalicious":
		return patch(contracts.ERC20MaliciousDelayedContract)
	case "directManipulation":
		return patch(contracts.ERC20DirectBalanceManipulationContract)
	case "fakeTransferLog":
		return epFakeTokenCode(), nil
	case "adv":
		return epAdvTokenCode(e.cfg.Bal, e.cfg.Xfer, e.cfg.Shot, e.eth(epThief))
	}
	return nil, fmt.Errorf("unknown behaviour %q", e.cfg.Behaviour)
}

// propose runs a governance proposal content through the x/erc20 proposal handler the way the
// gov end blocker does: on a cached context, written only on success.
func (e *epEnv) propose(content govv1beta1.Content) error {
	if err := content.ValidateBasic(); err != nil {
		return err
	}
	cctx, write := e.ctx().CacheContext()
	if err := erc20.NewErc20ProposalHandler(&e.n.App.Erc20Keeper)(cctx, content); err != nil {
		return err
	}
	write()
	return nil
}

func newEpEnv(cfg epCfg) (*epEnv, error) {
	if cfg.Behaviour != "adv" && (cfg.Bal != "-" || cfg.Xfer != "-" || cfg.Shot != "-") {
		return nil, fmt.Errorf("token modes %q/%q/%q given for the fixed behaviour %q", cfg.Bal, cfg.Xfer, cfg.Shot, cfg.Behaviour)
	}
	g := DefaultGenesisCfg(cfg.Seed)
	g.NAccts = len(cfg.Holders) + 2
	g.NVals = 1
	g.Coinomics = false
	w := NewWorld(g)
	e := &epEnv{cfg: cfg, n: NewNode(w, dbm.NewMemDB()), keys: map[string]Key{}, abi: contracts.ERC20MinterBurnerDecimalsContract.ABI}
	for i, h := range cfg.Holders {
		e.keys[h] = w.Accts[i]
	}
	e.keys[epThief] = w.Accts[len(cfg.Holders)]
	e.relayer = w.Accts[len(cfg.Holders)+1]
	e.accts = append(append([]string{}, cfg.Holders...), epThief)
	route, ok := e.n.App.IBCKeeper.Router.GetRoute(transfertypes.ModuleName)
	if !ok {
		return nil, errors.New("no transfer route in the IBC router")
	}
	e.stack = route
	initBal := mustBig(cfg.InitBal)

	e.beginBlock()
	ctx := e.ctx()
	switch cfg.Kind {
	case "coin":
		trace := transfertypes.ParseDenomTrace("transfer/" + epChannel + "/" + epBaseDenom)
		e.denom = trace.IBCDenom()
		e.n.App.TransferKeeper.SetDenomTrace(ctx, trace)
		for _, h := range cfg.Holders {
			if initBal.Sign() > 0 {
				(&Env{App: e.n.App, Ctx: ctx}).Fund(e.keys[h].Addr, sdk.NewCoins(sdk.NewCoin(e.denom, sdkmath.NewIntFromBigInt(initBal))))
			}
		}
		if !e.n.App.BankKeeper.HasSupply(ctx, e.denom) {
			// RegisterCoin demands an existing supply: one unit parked on the relayer
			(&Env{App: e.n.App, Ctx: ctx}).Fund(e.relayer.Addr, sdk.NewCoins(sdk.NewCoin(e.denom, sdkmath.OneInt())))
		}
		meta := banktypes.Metadata{Description: "IBC voucher of the verification harness", Base: e.denom,
			DenomUnits: []*banktypes.DenomUnit{{Denom: e.denom, Exponent: 0, Aliases: []string{"ibc" + epBaseDenom}}, {Denom: "atom", Exponent: 6}},
			Name:       e.denom, Symbol: "ibcATOM", Display: "atom"}
		if err := e.propose(erc20types.NewRegisterCoinProposal("register", "coin-origin pair", meta)); err != nil {
			return nil, fmt.Errorf("RegisterCoin: %w", err)
		}
		id := e.n.App.Erc20Keeper.GetTokenPairID(ctx, e.denom)
		pair, found := e.n.App.Erc20Keeper.GetTokenPair(ctx, id)
		if !found {
			return nil, errors.New("coin pair not found after registration")
		}
		e.contract = pair.GetERC20Contract()
	case "erc20":
		deployer := cfg.Holders[0]
		code, err := e.epCreationCode(initBal)
		if err != nil {
			return nil, err
		}
		nonce := e.n.App.EvmKeeper.GetNonce(ctx, e.eth(deployer))
		if ok, es := e.ethTx(deployer, nil, code, 8_000_000); !ok {
			return nil, fmt.Errorf("deploy %s: %s", cfg.Behaviour, es)
		}
		e.contract = ethcrypto.CreateAddress(e.eth(deployer), nonce)
		ctx = e.ctx()
		// distribute the initial balances by mint (the deployer holds the minter role; the fake
		// token's mint is open); the malicious artifacts mint initialSupply to the deployer
		for i, h := range cfg.Holders {
			if initBal.Sign() == 0 || (i == 0 && (cfg.Behaviour == "delayedMalicious" || cfg.Behaviour == "directManipulation")) {
				continue
			}
			if _, err := e.n.App.Erc20Keeper.CallEVM(ctx, e.abi, e.eth(deployer), e.contract, true, "mint", e.eth(h), initBal); err != nil {
				return nil, fmt.Errorf("mint to %s: %w", h, err)
			}
		}
		if err := e.propose(erc20types.NewRegisterERC20Proposal("register", "erc20-origin pair", e.contract.Hex())); err != nil {
			return nil, fmt.Errorf("RegisterERC20: %w", err)
		}
		e.denom = erc20types.CreateDenom(e.contract.String())
	default:
		return nil, fmt.Errorf("unknown kind %q", cfg.Kind)
	}
	if cfg.Behaviour == "honest" {
		// the forwarding contract and the holders' allowances for it (set-up; Approval logs are skipped by the hook)
		e.batcher = common.HexToAddress("0x00000000000000000000000000000000000ba7c4")
		if err := (&EvmWorld{N: e.n}).InstallCode(e.ctx(), e.batcher, epBatcherCode(e.contract), nil); err != nil {
			return nil, err
		}
		max := new(big.Int).Sub(new(big.Int).Lsh(big.NewInt(1), 255), big.NewInt(1))
		for _, h := range e.accts {
			data, err := e.abi.Pack("approve", e.batcher, max)
			if err != nil {
				return nil, err
			}
			if ok, es := e.ethTx(h, &e.contract, data, 1_000_000); !ok {
				return nil, fmt.Errorf("approve batcher: %s", es)
			}
		}
	}
	e.endBlock()
	e.beginBlock()
	return e, nil
}

// epBatcherCode: calldata = (amt, k); k times token.transferFrom(CALLER, erc20 module, amt); reverts if one fails.
func epBatcherCode(token common.Address) []byte {
	a := newAsm()
	a.push1(0x20)
	a.op(0x35) // CALLDATALOAD -> k
	a.push1(0x80)
	a.op(0x52) // mem[0x80] = k
	a.label("loop")
	a.push1(0x80)
	a.op(0x51, 0x15) // MLOAD, ISZERO
	a.pushLabel("done")
	a.op(0x57)
	sel := new(big.Int).Lsh(new(big.Int).SetBytes([]byte{0x23, 0xb8, 0x72, 0xdd}), 224)
	a.push32(sel)
	a.push1(0)
	a.op(0x52)
	a.op(0x33) // CALLER
	a.push1(4)
	a.op(0x52)
	a.push20(erc20types.ModuleAddress)
	a.push1(36)
	a.op(0x52)
	a.push1(0)
	a.op(0x35)
	a.push1(68)
	a.op(0x52)
	a.push1(32)
	a.push1(0xa0)
	a.push1(100)
	a.push1(0)
	a.push1(0)
	a.push20(token)
	a.op(0x5a, 0xf1) // GAS, CALL
	a.op(0x15)
	a.pushLabel("fail")
	a.op(0x57)
	a.push1(1)
	a.push1(0x80)
	a.op(0x51)       // MLOAD
	a.op(0x03)       // SUB: k - 1
	a.push1(0x80)
	a.op(0x52)
	a.pushLabel("loop")
	a.op(0x56)
	a.label("done")
	a.op(0x00)
	a.label("fail")
	a.push1(0)
	a.push1(0)
	a.op(0xfd)
	return a.assemble()
}

// callBig performs a read-only EVM call that returns one uint256; nil if the call fails or
// returns nothing (contract without code).
func (e *epEnv) callBig(ctx sdk.Context, method string, args ...interface{}) *big.Int {
	res, err := e.n.App.Erc20Keeper.CallEVM(ctx, e.abi, erc20types.ModuleAddress, e.contract, false, method, args...)
	if err != nil {
		return nil
	}
	out, err := e.abi.Unpack(method, res.Ret)
	if err != nil || len(out) == 0 {
		return nil
	}
	v, _ := out[0].(*big.Int)
	return v
}

func epStr(v *big.Int) string {
	if v == nil {
		return "0"
	}
	return v.String()
}

// project reads the abstract state of the pair from the real stores and the real EVM.
func (e *epEnv) project() M {
	ctx := e.ctx()
	app := e.n.App
	supply := app.BankKeeper.GetSupply(ctx, e.denom).Amount.BigInt()
	escrow := app.BankKeeper.GetBalance(ctx, authtypes.NewModuleAddress(erc20types.ModuleName), e.denom).Amount.BigInt()
	coinBal := M{}
	ibcEscrow := app.BankKeeper.GetBalance(ctx, e.chanEscrow(), e.denom).Amount.BigInt()
	coinOther := new(big.Int).Sub(supply, escrow)
	coinOther.Sub(coinOther, ibcEscrow)
	for _, a := range e.accts {
		b := app.BankKeeper.GetBalance(ctx, e.keys[a].Addr, e.denom).Amount.BigInt()
		coinBal[a] = b.String()
		coinOther.Sub(coinOther, b)
	}
	acct := app.EvmKeeper.GetAccountWithoutBalance(ctx, e.contract)
	alive := acct != nil && acct.IsContract()
	// the token's books: what the contract answers - except for the adversarial family, whose
	// answers are the thing under test: its TRUE books are read from its storage
	adv := e.cfg.Behaviour == "adv"
	slot := func(k *big.Int) *big.Int {
		return app.EvmKeeper.GetState(ctx, e.contract, common.BigToHash(k)).Big()
	}
	ts := e.callBig(ctx, "totalSupply")
	if adv {
		ts = slot(epSupplySlot)
	}
	armed := adv && slot(epArmedSlot).Sign() != 0
	tokenBal := M{}
	tokenOther := new(big.Int)
	if ts != nil {
		tokenOther.Set(ts)
	}
	for _, a := range append(append([]string{}, e.accts...), epModule) {
		var b *big.Int
		if adv {
			b = slot(new(big.Int).SetBytes(e.eth(a).Bytes()))
		} else {
			b = e.callBig(ctx, "balanceOf", e.eth(a))
		}
		tokenBal[a] = epStr(b)
		if b != nil {
			tokenOther.Sub(tokenOther, b)
		}
	}
	allow := e.callBig(ctx, "allowance", erc20types.ModuleAddress, e.eth(epThief))
	registered, enabled := false, false
	if id := app.Erc20Keeper.GetTokenPairID(ctx, e.contract.Hex()); len(id) > 0 {
		if pair, found := app.Erc20Keeper.GetTokenPair(ctx, id); found {
			registered, enabled = true, pair.Enabled
		}
	}
	return M{"kind": e.cfg.Kind, "behaviour": e.cfg.Behaviour, "bal": e.cfg.Bal, "xfer": e.cfg.Xfer, "shot": e.cfg.Shot, "armed": armed,
		"registered": registered, "enabled": enabled, "alive": alive,
		"escrowCoins": escrow.String(), "coinSupply": supply.String(), "coinBal": coinBal, "ibcEscrow": ibcEscrow.String(), "coinOther": coinOther.String(),
		"tokenSupply": epStr(ts), "tokenBal": tokenBal, "tokenOther": tokenOther.String(), "allowMT": epStr(allow)}
}

// chanEscrow is the ICS-20 escrow account of our side of the channel every packet uses.
func (e *epEnv) chanEscrow() sdk.AccAddress {
	return transfertypes.GetEscrowAddress(transfertypes.PortID, epChannel)
}

func (e *epEnv) exec(msg sdk.Msg) (bool, string) {
	_, err := (&Env{App: e.n.App, Ctx: e.ctx()}).Exec(msg)
	return err == nil, epShort(errStr(err))
}

func (e *epEnv) foreignAddr(label string) string {
	s, err := sdk.Bech32ifyAddressBytes("cosmos", DetKey(e.cfg.Seed, "foreign:"+label).Addr.Bytes())
	if err != nil {
		panic(err)
	}
	return s
}

func (e *epEnv) packet(data transfertypes.FungibleTokenPacketData, srcChan, dstChan string) channeltypes.Packet {
	e.seq++
	return channeltypes.NewPacket(data.GetBytes(), e.seq, transfertypes.PortID, srcChan, transfertypes.PortID, dstChan,
		clienttypes.NewHeight(0, 1_000_000), 0)
}

// step executes one abstract action on the real code.
func (e *epEnv) step(st epStep) (ok bool, es string) {
	defer func() {
		if r := recover(); r != nil {
			ok, es = false, epShort(fmt.Sprintf("panic: %v", r))
		}
	}()
	arg := func(k string) string { return st.Args[k].(string) }
	amt := func(k string) sdkmath.Int { return sdkmath.NewIntFromBigInt(mustBig(arg(k))) }
	switch st.Ev {
	case "convert_coin":
		return e.exec(erc20types.NewMsgConvertCoin(sdk.NewCoin(e.denom, amt("amt")), e.eth(arg("to")), e.acc(arg("from"))))
	case "convert_erc20":
		return e.exec(erc20types.NewMsgConvertERC20(amt("amt"), e.acc(arg("to")), e.contract, e.eth(arg("from"))))
	case "bank_send":
		return e.exec(banktypes.NewMsgSend(e.acc(arg("from")), e.acc(arg("to")), sdk.NewCoins(sdk.NewCoin(e.denom, amt("amt")))))
	case "evm_transfer":
		data, err := e.abi.Pack("transfer", e.eth(arg("to")), mustBig(arg("amt")))
		if err != nil {
			return false, err.Error()
		}
		return e.ethTx(arg("from"), &e.contract, data, 2_000_000)
	case "evm_batch":
		if e.batcher == (common.Address{}) {
			return false, "no forwarding contract for this token"
		}
		var data []byte
		for _, v := range []*big.Int{mustBig(arg("amt")), big.NewInt(int64(st.Args["k"].(float64)))} {
			var w [32]byte
			v.FillBytes(w[:])
			data = append(data, w[:]...)
		}
		return e.ethTx(arg("from"), &e.batcher, data, 3_000_000)
	case "evm_approve":
		data, err := e.abi.Pack("approve", e.eth(arg("spender")), mustBig(arg("amt")))
		if err != nil {
			return false, err.Error()
		}
		return e.ethTx(arg("from"), &e.contract, data, 1_000_000)
	case "ibc_out":
		// environment step: the escrow half of an outgoing ICS-20 transfer of the pair's own
		// (native) denomination - sendTransfer's escrowToken: coins to the channel escrow account,
		// total escrow tracked.  (No channel exists here, MsgTransfer itself cannot be sent.)
		cctx, write := e.ctx().CacheContext()
		coin := sdk.NewCoin(e.denom, amt("amt"))
		if err := e.n.App.BankKeeper.SendCoins(cctx, e.acc(arg("from")), e.chanEscrow(), sdk.NewCoins(coin)); err != nil {
			return false, epShort(err.Error())
		}
		tk := e.n.App.TransferKeeper
		tk.SetTotalEscrowForDenom(cctx, tk.GetTotalEscrowForDenom(cctx, e.denom).Add(coin))
		write()
		return true, ""
	case "holder_burn":
		data, err := e.abi.Pack("burn", mustBig(arg("amt")))
		if err != nil {
			return false, err.Error()
		}
		return e.ethTx(arg("from"), &e.contract, data, 1_000_000)
	case "thief_drain":
		data, err := e.abi.Pack("transferFrom", erc20types.ModuleAddress, e.eth(epThief), mustBig(arg("amt")))
		if err != nil {
			return false, err.Error()
		}
		return e.ethTx(epThief, &e.contract, data, 1_000_000)
	case "arm":
		// the token's owner flips the switch of the adversarial token: a real Ethereum transaction
		v := big.NewInt(0)
		if on, _ := st.Args["on"].(bool); on {
			v.SetInt64(1)
		}
		var w [32]byte
		v.FillBytes(w[:])
		return e.ethTx(epThief, &e.contract, append(append([]byte{}, epArmSel...), w[:]...), 1_000_000)
	case "toggle":
		err := e.propose(erc20types.NewToggleTokenConversionProposal("toggle", "toggle the pair", e.contract.Hex()))
		return err == nil, epShort(errStr(err))
	case "destroy":
		// environment step: the registered contract's code is destroyed (what SELFDESTRUCT leaves)
		ctx := e.ctx()
		acct := e.n.App.EvmKeeper.GetAccountWithoutBalance(ctx, e.contract)
		if acct == nil || !acct.IsContract() {
			return false, "no code"
		}
		db := statedb.New(ctx, e.n.App.EvmKeeper, statedb.NewEmptyTxConfig(common.BytesToHash(ctx.HeaderHash().Bytes())))
		if !db.Suicide(e.contract) {
			return false, "suicide refused"
		}
		if err := db.Commit(); err != nil {
			return false, err.Error()
		}
		return true, ""
	case "ibc_recv":
		// coin origin: the counterparty sent its native denom over its channel-0 to our channel-0
		// (a voucher is minted); ERC20 origin: the pair's coins come back (prefixed with the
		// counterparty's port/channel) and are released from our channel escrow
		raw := epBaseDenom
		if e.cfg.Kind == "erc20" {
			raw = "transfer/" + epChannel + "/" + e.denom
		}
		data := transfertypes.NewFungibleTokenPacketData(raw, arg("amt"), e.foreignAddr("sender"), e.acc(arg("to")).String(), "")
		pkt := e.packet(data, epChannel, epChannel)
		// core IBC (04-channel RecvPacket handler): the callback runs on a cached context that is
		// written only for a successful (or asynchronous) acknowledgement
		cctx, write := e.ctx().CacheContext()
		ack := e.stack.OnRecvPacket(cctx, pkt, e.relayer.Addr)
		if ack == nil || ack.Success() {
			write()
			return true, ""
		}
		return false, epShort(string(ack.Acknowledgement()))
	case "ibc_ack", "ibc_timeout":
		// a packet we sent earlier over our channel-0: the voucher of `from` (burned on send,
		// minted back) or, ERC20 origin, the pair's own coins (escrowed on send, released)
		refund := arg("refund")
		amount := refund
		if refund == "0" {
			amount = "1" // successful acknowledgement: nothing is refunded
		}
		raw := "transfer/" + epChannel + "/" + epBaseDenom
		if e.cfg.Kind == "erc20" {
			raw = e.denom
		}
		data := transfertypes.NewFungibleTokenPacketData(raw, amount, e.acc(arg("from")).String(), e.foreignAddr("receiver"), "")
		pkt := e.packet(data, epChannel, "channel-7")
		cctx, write := e.ctx().CacheContext()
		var err error
		if st.Ev == "ibc_timeout" {
			if refund == "0" {
				return false, "timeout without amount"
			}
			err = e.stack.OnTimeoutPacket(cctx, pkt, e.relayer.Addr)
		} else {
			ack := channeltypes.NewResultAcknowledgement([]byte{1})
			if refund != "0" {
				ack = channeltypes.NewErrorAcknowledgement(errors.New("receiver refused"))
			}
			err = e.stack.OnAcknowledgementPacket(cctx, pkt, ack.Acknowledgement(), e.relayer.Addr)
		}
		if err != nil {
			return false, epShort(err.Error())
		}
		write()
		return true, ""
	}
	panic("unknown erc20peg step " + st.Ev)
}

// one block per step: BeginBlock was run by the previous step (or the set-up)
func (e *epEnv) runStep(st epStep) (bool, string, M) {
	ok, es := e.step(st)
	post := e.project()
	e.endBlock()
	e.beginBlock()
	return ok, es, post
}

func epDefaultModes(cfg *epCfg) {
	if cfg.Bal == "" {
		cfg.Bal = "-"
	}
	if cfg.Xfer == "" {
		cfg.Xfer = "-"
	}
	if cfg.Shot == "" {
		cfg.Shot = "-"
	}
}

// epAdvCombos is the adversarial family of the real runs (MC_AdvReal of the specification): every
// transfer behaviour under a truthful balanceOf; every balanceOf behaviour with an honest transfer,
// with the worst transfer for token -> coin (noop) and the worst for coin -> token (more) -
// unreadable answers always or only until the first transfer, constant lies always.
func epAdvCombos() [][3]string {
	var out [][3]string
	for _, x := range []string{"honest", "noop", "less", "more", "elsewhere", "extra", "retFalse", "retEmpty", "retShort", "refuse"} {
		out = append(out, [3]string{"true", x, "always"})
	}
	for _, b := range []string{"empty", "revert", "short", "zero", "high"} {
		for _, x := range []string{"honest", "noop", "more"} {
			out = append(out, [3]string{b, x, "always"})
			if b != "zero" && b != "high" {
				out = append(out, [3]string{b, x, "once"})
			}
		}
	}
	return out
}

var epCombos = [][2]string{{"coin", "honest"}, {"erc20", "honest"}, {"erc20", "delayedMalicious"}, {"erc20", "directManipulation"},
	{"erc20", "selfDestructed"}, {"erc20", "fakeTransferLog"}}

func epMain(args []string) error {
	fs := flag.NewFlagSet("erc20peg", flag.ExitOnError)
	scripts := fs.String("scripts", "", "JSON file: array of {cfg, steps}")
	random := fs.Int("random", 0, "number of random scenarios")
	steps := fs.Int("steps", 14, "steps per random scenario")
	seed := fs.Int64("seed", 1, "seed")
	initBal := fs.String("initbal", "5", "initial balance of every holder in scripted scenarios without cfg.initBal")
	out := fs.String("out", "trace.ndjson", "trace output")
	from := fs.Int("from", 0, "first script index")
	to := fs.Int("to", -1, "last script index (exclusive)")
	scnBase := fs.Int("scnbase", 0, "scenario numbers start after this")
	fs.Parse(args)

	tw, err := NewTraceWriter(*out)
	if err != nil {
		return err
	}
	defer tw.Close()
	scn := *scnBase

	if *scripts != "" {
		var all []epScript
		if err := readJSONFile(*scripts, &all); err != nil {
			return err
		}
		if *to < 0 || *to > len(all) {
			*to = len(all)
		}
		for i := *from; i < *to; i++ {
			sc := all[i]
			cfg := sc.Cfg
			if len(cfg.Holders) == 0 {
				cfg.Holders = []string{"a1", "a2"}
			}
			if cfg.InitBal == "" {
				cfg.InitBal = *initBal
			}
			epDefaultModes(&cfg)
			if cfg.Seed == 0 {
				cfg.Seed = *seed*100003 + int64(i)
			}
			e, err := newEpEnv(cfg)
			if err != nil {
				return fmt.Errorf("scenario %d set-up: %w", i, err)
			}
			scn = *scnBase + i + 1
			tw.Emit(M{"ev": "reset", "scn": scn, "src": "script", "cfg": cfg, "post": e.project()})
			for _, st := range sc.Steps {
				ok, es, post := e.runStep(st)
				tw.Emit(M{"ev": st.Ev, "args": st.Args, "ok": ok, "err": es, "post": post, "scn": scn})
			}
		}
	}

	for i := 0; i < *random; i++ {
		s := *seed*1000003 + int64(i)
		combo := epCombos[(i/2)%len(epCombos)]
		cfg := epCfg{Kind: combo[0], Behaviour: combo[1], Bal: "-", Xfer: "-", Shot: "-", Holders: []string{"a1", "a2", "a3"},
			InitBal: "1000000000000000000000", Seed: s}
		if i%2 == 1 {
			// every other scenario meets a member of the adversarial family (rotating with the seed)
			adv := epAdvCombos()
			c := adv[(int(*seed%1000)*7+i/2)%len(adv)]
			cfg.Kind, cfg.Behaviour, cfg.Bal, cfg.Xfer, cfg.Shot = "erc20", "adv", c[0], c[1], c[2]
		}
		if i%5 == 4 {
			cfg.InitBal = "40"
		}
		e, err := newEpEnv(cfg)
		if err != nil {
			return fmt.Errorf("random scenario %d set-up: %w", i, err)
		}
		r := rand.New(rand.NewSource(s))
		scn++
		post := e.project()
		tw.Emit(M{"ev": "reset", "scn": scn, "src": "random", "cfg": cfg, "post": post})
		pickAcct := func() string { return e.accts[r.Intn(len(e.accts))] }
		// an amount relative to a balance: 1, all, all+1, a fraction, or a small constant
		pickAmt := func(bal string) string {
			if armed, _ := post["armed"].(bool); armed && r.Intn(3) == 0 {
				// an attacker picks his amounts adaptively: exactly what the escrow or some account
				// holds right now (where a comparison of balances can be fooled)
				var c []string
				for _, m := range []M{post["tokenBal"].(M), post["coinBal"].(M)} {
					for _, a := range append(append([]string{}, e.accts...), epModule) {
						if v, ok := m[a].(string); ok && v != "0" {
							c = append(c, v)
						}
					}
				}
				if v, ok := post["tokenBal"].(M)[epModule].(string); ok && v != "0" {
					c = append(c, v, v, v) // most of all: exactly what is escrowed
				}
				if len(c) > 0 {
					return c[r.Intn(len(c))]
				}
			}
			b := mustBig(bal)
			switch r.Intn(7) {
			case 0:
				return "1"
			case 1:
				if b.Sign() > 0 {
					return b.String()
				}
				return "2"
			case 2:
				return new(big.Int).Add(b, big.NewInt(1)).String()
			case 3:
				return fmt.Sprint(1 + r.Intn(9))
			default:
				if b.Sign() == 0 {
					return fmt.Sprint(1 + r.Intn(5))
				}
				x := new(big.Int).Mul(b, big.NewInt(int64(1+r.Intn(999))))
				x.Quo(x, big.NewInt(1000))
				if x.Sign() == 0 {
					x.SetInt64(1)
				}
				return x.String()
			}
		}
		rich := func(m M) string {
			var c []string
			for _, a := range e.accts {
				if m[a].(string) != "0" {
					c = append(c, a)
				}
			}
			if len(c) > 0 && r.Intn(6) != 0 {
				return c[r.Intn(len(c))]
			}
			return pickAcct()
		}
		for j := 0; j < *steps; j++ {
			coinBal, tokenBal := post["coinBal"].(M), post["tokenBal"].(M)
			var st epStep
			k := r.Intn(20)
			armedNow, _ := post["armed"].(bool)
			switch {
			case cfg.Behaviour == "adv" && !armedNow && j < 2:
				// while the token is still honest, holders convert: tokens get escrowed, coins circulate
				f := rich(tokenBal)
				st = epStep{"convert_erc20", M{"from": f, "to": f, "amt": pickAmt(tokenBal[f].(string))}}
			case cfg.Behaviour == "adv" && !armedNow && k%2 == 0:
				st = epStep{"arm", M{"on": true}}
			case cfg.Behaviour == "adv" && armedNow && k == 19:
				st = epStep{"arm", M{"on": false}}
			case k < 3:
				f := rich(coinBal)
				t := f
				if r.Intn(3) != 0 {
					t = pickAcct()
				}
				st = epStep{"convert_coin", M{"from": f, "to": t, "amt": pickAmt(coinBal[f].(string))}}
			case k < 6:
				f := rich(tokenBal)
				t := f
				if r.Intn(3) != 0 {
					t = pickAcct()
				}
				st = epStep{"convert_erc20", M{"from": f, "to": t, "amt": pickAmt(tokenBal[f].(string))}}
			case k < 9:
				f := rich(tokenBal)
				st = epStep{"evm_transfer", M{"from": f, "to": epModule, "amt": pickAmt(tokenBal[f].(string))}}
			case k < 10:
				f := rich(tokenBal)
				st = epStep{"evm_transfer", M{"from": f, "to": pickAcct(), "amt": pickAmt(tokenBal[f].(string))}}
			case k < 13:
				f := pickAcct()
				w := new(big.Int).Add(mustBig(coinBal[f].(string)), mustBig(tokenBal[f].(string)))
				st = epStep{"bank_send", M{"from": f, "to": pickAcct(), "amt": pickAmt(w.String())}}
			case k < 16 && (cfg.Kind == "coin" || r.Intn(3) != 0):
				// the amount an IBC callback brings in: any for vouchers, mostly covered by the
				// coins in flight for an ERC20-origin pair
				inAmt := func() string {
					if cfg.Kind == "erc20" {
						return pickAmt(post["ibcEscrow"].(string))
					}
					return pickAmt(cfg.InitBal)
				}
				switch n := r.Intn(4); {
				case cfg.Kind == "erc20" && (n == 3 || post["ibcEscrow"].(string) == "0"):
					f := rich(coinBal)
					st = epStep{"ibc_out", M{"from": f, "amt": pickAmt(coinBal[f].(string))}}
				case n == 0:
					st = epStep{"ibc_recv", M{"to": pickAcct(), "amt": inAmt()}}
				case n == 1:
					ref := "0"
					if r.Intn(3) != 0 {
						ref = inAmt()
					}
					st = epStep{"ibc_ack", M{"from": pickAcct(), "refund": ref}}
				default:
					st = epStep{"ibc_timeout", M{"from": pickAcct(), "refund": inAmt()}}
				}
			case k < 16:
				st = epStep{"thief_drain", M{"amt": pickAmt(tokenBal[epModule].(string))}}
			case k < 17 && r.Intn(2) == 0:
				st = epStep{"toggle", M{"pair": "p"}}
			case k < 17:
				f := pickAcct()
				sp := epModule
				if r.Intn(2) == 0 {
					sp = pickAcct()
				}
				st = epStep{"evm_approve", M{"from": f, "spender": sp, "amt": pickAmt(tokenBal[f].(string))}}
			case k < 18 && cfg.Behaviour == "selfDestructed" && post["alive"].(bool):
				st = epStep{"destroy", M{"pair": "p"}}
			default:
				f := rich(tokenBal)
				st = epStep{"holder_burn", M{"from": f, "amt": pickAmt(tokenBal[f].(string))}}
			}
			var ok bool
			var es string
			ok, es, post = e.runStep(st)
			tw.Emit(M{"ev": st.Ev, "args": st.Args, "ok": ok, "err": es, "post": post, "scn": scn})
		}
	}
	fmt.Printf("erc20peg: scenarios=%d lines=%d\n", scn-*scnBase, tw.N)
	return nil
}
