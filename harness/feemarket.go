package main

import (
	"encoding/json"
	"flag"
	"fmt"
	"math/big"
	"math/rand"
	"sort"
	"strconv"
	"time"

	sdkmath "cosmossdk.io/math"
	dbm "github.com/cometbft/cometbft-db"
	abci "github.com/cometbft/cometbft/abci/types"
	cmted25519 "github.com/cometbft/cometbft/crypto/ed25519"
	"github.com/cometbft/cometbft/libs/log"
	tmproto "github.com/cometbft/cometbft/proto/tendermint/types"
	tmtypes "github.com/cometbft/cometbft/types"
	"github.com/cosmos/cosmos-sdk/client"
	"github.com/cosmos/cosmos-sdk/crypto/keys/secp256k1"
	sdk "github.com/cosmos/cosmos-sdk/types"
	authtypes "github.com/cosmos/cosmos-sdk/x/auth/types"
	banktypes "github.com/cosmos/cosmos-sdk/x/bank/types"
	govtypes "github.com/cosmos/cosmos-sdk/x/gov/types"
	"github.com/cosmos/cosmos-sdk/x/upgrade"
	upgradetypes "github.com/cosmos/cosmos-sdk/x/upgrade/types"

	"github.com/haqq-network/haqq/app"
	evmante "github.com/haqq-network/haqq/app/ante/evm"
	fmupgrade "github.com/haqq-network/haqq/app/upgrades/v1.8.2"
	"github.com/haqq-network/haqq/utils"
	"github.com/haqq-network/haqq/x/feemarket"
	feemarkettypes "github.com/haqq-network/haqq/x/feemarket/types"
)

// Driver for specs/FeeMarket.tla (property C17).
//
// (a) pure-function mode ("calc" lines): the real keeper CalculateBaseFee on a context whose
//     fee market params / consensus params / block gas wanted / height are set as the case
//     demands.  One line per parameter row, with an ascending list of gas figures gs and the
//     list of outcomes, so that the trace spec can check the piecewise definition, the bounds
//     and monotonicity in g on real outputs.
//       {"ev":"calc","scn":n,"src":"grid|random|script","args":{base,maxGas,elasticity,denominator,
//        minGasPrice,noBaseFee,enableHeight,height,gs:[..]},"res":[{"out":"value|nil|panic","fee":".."},..]}
// (b) block-sequence mode: scripted blocks through the real feemarket BeginBlock, the real ante
//     GasWantedDecorator, the real feemarket EndBlock and a real store commit.
//       {"ev":"reset","scn":n,"src":..,"cfg":{baseFee,bgw,maxGas,params},"post":state}
//       {"ev":"begin_block|ante|end_block|commit|set_params|set_max_gas","args":..,"ok":..,"err":..,"post":state,"scn":n}
//     A block context is built the way baseapp.BeginBlock builds the deliver context: consensus
//     params read from the baseapp parameter store, block gas meter from GetMaximumBlockGas
//     (finite only if max gas > 0), reset after the begin blockers.  Gas used is consumed on that
//     block gas meter (out-of-gas panics recovered as baseapp.runTx does), EndBlock reads
//     GasConsumedToLimit from it.  Commit writes the branch and commits the root multistore,
//     which resets the transient store.
//     Node operations between two blocks (phase idle, everything committed):
//       restart        a new application object is opened on the same database (node start)
//       reinit         x/feemarket ExportGenesis -> JSON -> InitGenesis on a store that was reset to
//                      the module defaults
//       export_import  a new application object on the database (as `haqqd export` opens one) runs
//                      ExportAppStateAndValidators; a FRESH application on a new database runs InitChain
//                      with the exported fee market genesis, consensus parameters and height; the
//                      scenario continues on that application
//       upgrade        (after EndBlock, before Commit) a software-upgrade plan becomes due for the next
//                      height: the module's store is put into the layout of consensus version args.from
//                      (v3: the parameters live in the x/params subspace, not in the module store), the
//                      module version map says args.from and a plan with a registered handler is scheduled.
//                      The next begin_block runs the x/upgrade BeginBlocker (which runs the registered
//                      in-place migrations through the application's module manager) before the fee
//                      market's BeginBlock, as the application's begin-blocker order does.
//     args.commit = false is the ABCI order: InitChain's writes (persistent AND transient stores) stay
//     uncommitted until the first block commits (phase "imported"); true commits right after the
//     initialisation, as test set-ups do.

func init() { register("feemarket", feemarketMain) }

type fmParams struct {
	NoBaseFee        bool   `json:"noBaseFee"`
	EnableHeight     int64  `json:"enableHeight"`
	Elasticity       string `json:"elasticity"`
	Denominator      string `json:"denominator"`
	MinGasPrice      string `json:"minGasPrice"`      // 18-decimal fixed point, value x 10^18
	MinGasMultiplier string `json:"minGasMultiplier"` // 18-decimal fixed point, value x 10^18
}

type fmCfg struct {
	BaseFee string   `json:"baseFee"`
	Bgw     string   `json:"bgw"`
	MaxGas  string   `json:"maxGas"`
	Params  fmParams `json:"params"`
	Abci    bool     `json:"abci,omitempty"` // blocks through the application's ABCI interface (feemarket_abci.go)
}

type fmStep struct {
	Ev   string `json:"ev"`
	Args M      `json:"args"`
}

type fmScript struct {
	Cfg   fmCfg    `json:"cfg"`
	Steps []fmStep `json:"steps"`
}

type fmCalcCase struct {
	Base         string   `json:"base"`
	MaxGas       string   `json:"maxGas"`
	Elasticity   string   `json:"elasticity"`
	Denominator  string   `json:"denominator"`
	MinGasPrice  string   `json:"minGasPrice"`
	NoBaseFee    bool     `json:"noBaseFee"`
	EnableHeight int64    `json:"enableHeight"`
	Height       int64    `json:"height"`
	Gs           []string `json:"gs"`
}

type fmGrid struct {
	BaseMax        int64    `json:"BaseMax"`
	GMax           int64    `json:"GMax"`
	MaxGases       []string `json:"MaxGases"`
	ElasticityMax  int64    `json:"ElasticityMax"`
	DenominatorMax int64    `json:"DenominatorMax"`
	MinGasPrices   []string `json:"MinGasPrices"`
}

func fmDec18(s string) sdk.Dec { return sdk.NewDecFromBigIntWithPrec(mustBig(s), 18) }

func fmU32(s string) uint32 {
	v, err := strconv.ParseUint(s, 10, 32)
	if err != nil {
		panic("not a uint32: " + s)
	}
	return uint32(v)
}

func fmU64(s string) uint64 {
	v, err := strconv.ParseUint(s, 10, 64)
	if err != nil {
		panic("not a uint64: " + s)
	}
	return v
}

func fmI64(s string) int64 {
	v, err := strconv.ParseInt(s, 10, 64)
	if err != nil {
		panic("not an int64: " + s)
	}
	return v
}

func (p fmParams) real(baseFee string) feemarkettypes.Params {
	return feemarkettypes.Params{
		NoBaseFee:                p.NoBaseFee,
		BaseFeeChangeDenominator: fmU32(p.Denominator),
		ElasticityMultiplier:     fmU32(p.Elasticity),
		EnableHeight:             p.EnableHeight,
		BaseFee:                  sdkmath.NewIntFromBigInt(mustBig(baseFee)),
		MinGasPrice:              fmDec18(p.MinGasPrice),
		MinGasMultiplier:         fmDec18(p.MinGasMultiplier),
	}
}

func fmParamsOf(p feemarkettypes.Params) fmParams {
	dec := func(d sdk.Dec) string {
		if d.IsNil() {
			return "0"
		}
		return d.BigInt().String()
	}
	return fmParams{NoBaseFee: p.NoBaseFee, EnableHeight: p.EnableHeight,
		Elasticity: fmt.Sprint(p.ElasticityMultiplier), Denominator: fmt.Sprint(p.BaseFeeChangeDenominator),
		MinGasPrice: dec(p.MinGasPrice), MinGasMultiplier: dec(p.MinGasMultiplier)}
}

// fmEnv is one application whose genesis has been committed; blocks are run on branches of the
// root multistore.
type fmEnv struct {
	db        dbm.DB
	app       *app.Haqq
	dec       evmante.GasWantedDecorator
	txCfg     client.TxConfig
	ctx       sdk.Context // context of the running block (or a read-only view when idle)
	ms        sdk.CacheMultiStore
	phase     string
	height    int64
	blkMaxGas string
	// ABCI-level sequences (feemarket_abci.go)
	abci       bool
	hdr        tmproto.Header
	used       uint64 // gas used the DeliverTx responses of the running block report
	key, other Key
	evmChainID uint64
}

// fmGenesis is the genesis app.Setup builds (default module genesis, one bonded validator, one
// funded account) with deterministic keys; feemarketGenesis, if given, replaces the module default.
func fmGenesis(a *app.Haqq, feemarketGenesis json.RawMessage) []byte {
	val := tmtypes.NewValidator(cmted25519.GenPrivKeyFromSecret([]byte("hv-feemarket-validator")).PubKey(), 1)
	valSet := tmtypes.NewValidatorSet([]*tmtypes.Validator{val})
	priv := secp256k1.GenPrivKeyFromSecret([]byte("hv-feemarket-account"))
	acc := authtypes.NewBaseAccount(priv.PubKey().Address().Bytes(), priv.PubKey(), 0, 0)
	amt := sdk.TokensFromConsensusPower(app.PremintAmount, sdk.DefaultPowerReduction).Sub(sdk.DefaultPowerReduction)
	balance := banktypes.Balance{Address: acc.GetAddress().String(), Coins: sdk.NewCoins(sdk.NewCoin(utils.BaseDenom, amt))}
	gs := app.GenesisStateWithValSet(a, app.NewDefaultGenesisState(), valSet, []authtypes.GenesisAccount{acc}, balance)
	if feemarketGenesis != nil {
		gs[feemarkettypes.ModuleName] = feemarketGenesis
	}
	bz, err := json.Marshal(gs)
	if err != nil {
		panic(err)
	}
	return bz
}

func fmNewEnv() *fmEnv {
	db := dbm.NewMemDB()
	a := openApp(db)
	a.InitChain(abci.RequestInitChain{ChainId: ChainID, Time: GenesisTime, Validators: []abci.ValidatorUpdate{},
		ConsensusParams: app.DefaultConsensusParams, AppStateBytes: fmGenesis(a, nil)})
	a.Commit() // flush InitChain's deliver state into the root multistore
	f := &fmEnv{db: db, phase: "idle"}
	f.attach(a)
	f.view()
	return f
}

// attach makes a the application of the scenario.
func (f *fmEnv) attach(a *app.Haqq) {
	f.app = a
	f.dec = evmante.NewGasWantedDecorator(a.EvmKeeper, a.FeeMarketKeeper)
	f.txCfg = a.GetTxConfig() // builds a whole encoding config on every call
}

// reinit: the module's exported genesis, through its JSON form, initialises the module on a store
// that knows nothing (reset to the module defaults); on a fresh branch of the committed state.
func (f *fmEnv) reinit() {
	f.branch(f.height)
	k := f.app.FeeMarketKeeper
	cdc := f.app.AppCodec()
	bz := cdc.MustMarshalJSON(feemarket.ExportGenesis(f.ctx, k))
	if err := k.SetParams(f.ctx, feemarkettypes.DefaultParams()); err != nil {
		panic(err)
	}
	k.SetBlockGasWanted(f.ctx, 0)
	var gs feemarkettypes.GenesisState
	cdc.MustUnmarshalJSON(bz, &gs)
	feemarket.InitGenesis(f.ctx, k, gs)
}

// exportImport: export as `haqqd export` does (a new application object on the node's database),
// InitChain of a fresh application on a new database from the exported document.
func (f *fmEnv) exportImport(commit bool) {
	exported, err := openApp(f.db).ExportAppStateAndValidators(false, nil, []string{feemarkettypes.ModuleName})
	if err != nil {
		panic(err)
	}
	var appState map[string]json.RawMessage
	if err := json.Unmarshal(exported.AppState, &appState); err != nil {
		panic(err)
	}
	db := dbm.NewMemDB()
	a := openApp(db)
	a.InitChain(abci.RequestInitChain{ChainId: ChainID, Time: GenesisTime, Validators: []abci.ValidatorUpdate{},
		ConsensusParams: exported.ConsensusParams, AppStateBytes: fmGenesis(a, appState[feemarkettypes.ModuleName]),
		InitialHeight: exported.Height})
	if commit {
		a.Commit()
	} else {
		// the deliver state InitChain wrote is the one the first block runs on: make it visible to
		// the block branches without committing (the transient store is not reset)
		a.BaseApp.NewContext(false, tmproto.Header{}).MultiStore().(sdk.CacheMultiStore).Write()
	}
	f.db = db
	f.attach(a)
}

func (f *fmEnv) header(h int64) tmproto.Header {
	return tmproto.Header{ChainID: ChainID, Height: h, Time: GenesisTime.Add(time.Duration(h) * 5 * time.Second)}
}

// branch opens a fresh branch of the committed state with the context baseapp would build.
func (f *fmEnv) branch(h int64) {
	f.ms = f.app.CommitMultiStore().CacheMultiStore()
	ctx := sdk.NewContext(f.ms, f.header(h), false, log.NewNopLogger())
	f.ctx = ctx.WithBlockGasMeter(f.blockGasMeter(ctx)).WithConsensusParams(f.app.GetConsensusParams(ctx))
}

// ctxMaxGas: the consensus max gas the running block's context carries
func (f *fmEnv) ctxMaxGas() string { return fmt.Sprint(f.ctx.ConsensusParams().Block.MaxGas) }

// view: read-only context on the committed state (between blocks)
func (f *fmEnv) view() { f.branch(f.height) }

// blockGasMeter is baseapp.getBlockGasMeter
func (f *fmEnv) blockGasMeter(ctx sdk.Context) sdk.GasMeter {
	if maxGas := f.app.GetMaximumBlockGas(ctx); maxGas > 0 {
		return sdk.NewGasMeter(maxGas)
	}
	return sdk.NewInfiniteGasMeter()
}

func (f *fmEnv) commit() {
	f.ms.Write()
	f.app.CommitMultiStore().Commit()
}

func (f *fmEnv) setMaxGas(maxGas string) {
	cp := f.app.GetConsensusParams(f.ctx)
	cp.Block.MaxGas = fmI64(maxGas)
	f.app.StoreConsensusParams(f.ctx, cp)
}

// reset writes the scenario's initial state as a genesis-like block 0 and commits it.
func (f *fmEnv) reset(c fmCfg) {
	f.height = 0
	f.branch(0)
	k := f.app.FeeMarketKeeper
	if err := k.SetParams(f.ctx, c.Params.real(c.BaseFee)); err != nil {
		panic(err)
	}
	k.SetBlockGasWanted(f.ctx, fmU64(c.Bgw))
	f.setMaxGas(c.MaxGas)
	// no upgrade of an earlier scenario is pending or remembered as done
	f.app.UpgradeKeeper.ClearUpgradePlan(f.ctx)
	f.ctx.KVStore(f.app.GetKey(upgradetypes.StoreKey)).Delete(append([]byte{upgradetypes.DoneByte}, []byte(fmupgrade.UpgradeName)...))
	f.app.UpgradeKeeper.SetModuleVersionMap(f.ctx, map[string]uint64{feemarkettypes.ModuleName: feemarket.AppModuleBasic{}.ConsensusVersion()})
	f.commit()
	f.phase = "idle"
	f.view()
	f.blkMaxGas = f.ctxMaxGas()
}

// project reads the abstract state from the real stores.
func (f *fmEnv) project() M {
	k := f.app.FeeMarketKeeper
	p := k.GetParams(f.ctx)
	maxGas := "none"
	if cp := f.app.GetConsensusParams(f.ctx); cp != nil && cp.Block != nil {
		maxGas = fmt.Sprint(cp.Block.MaxGas)
	}
	return M{
		"baseFee":   bigStr(p.BaseFee),
		"bgw":       fmt.Sprint(k.GetBlockGasWanted(f.ctx)),
		"tgw":       fmt.Sprint(k.GetTransientGasWanted(f.ctx)),
		"height":    f.height,
		"phase":     f.phase,
		"maxGas":    maxGas,
		"blkMaxGas": f.blkMaxGas,
		"params":    fmParamsOf(p),
	}
}

func fmRecover(fn func()) (err string) {
	defer func() {
		if r := recover(); r != nil {
			err = fmt.Sprintf("panic: %v", r)
		}
	}()
	fn()
	return ""
}

func fmArgStr(a M, k string) string {
	switch v := a[k].(type) {
	case string:
		return v
	case float64:
		return strconv.FormatInt(int64(v), 10)
	}
	panic(fmt.Sprintf("missing argument %s in %v", k, a))
}

// step executes one abstract action on the real code; returns ok, err and whether the
// scenario must stop (a panicking BeginBlock halts the chain).
func (f *fmEnv) step(st *fmStep) (ok bool, errs string, halt bool) {
	if f.abci {
		return f.stepAbci(st)
	}
	k := &f.app.FeeMarketKeeper
	switch st.Ev {
	case "begin_block":
		h := int64(st.Args["height"].(float64))
		f.height = h
		f.branch(h)
		f.blkMaxGas = f.ctxMaxGas()
		f.phase = "open"
		e := fmRecover(func() {
			// the application's begin-blocker order: x/upgrade (a due plan runs the in-place store
			// migrations) before x/feemarket
			req := abci.RequestBeginBlock{Header: f.header(h)}
			upgrade.BeginBlocker(&f.app.UpgradeKeeper, f.ctx, req)
			k.BeginBlock(f.ctx, req)
		})
		// baseapp resets the block gas meter after the begin blockers
		f.ctx = f.ctx.WithBlockGasMeter(f.blockGasMeter(f.ctx))
		return e == "", e, e != ""
	case "ante":
		gas := fmU64(fmArgStr(st.Args, "gas"))
		st.Args = M{"gas": fmArgStr(st.Args, "gas"), "kind": "decorator"} // keeper level: the decorator alone
		b := f.txCfg.NewTxBuilder()
		b.SetGasLimit(gas)
		tx := b.GetTx()
		// baseapp.runTx: the ante handler runs on a branch that is written only on success
		cctx, write := f.ctx.CacheContext()
		var err error
		e := fmRecover(func() {
			_, err = f.dec.AnteHandle(cctx, tx, false, func(c sdk.Context, _ sdk.Tx, _ bool) (sdk.Context, error) { return c, nil })
		})
		if e != "" {
			return false, e, false
		}
		if err == nil {
			write()
		}
		return err == nil, errStr(err), false
	case "end_block":
		scripted := fmArgStr(st.Args, "used")
		if _, has := st.Args["scripted"]; has {
			scripted = fmArgStr(st.Args, "scripted")
		}
		// baseapp.runTx consumes each transaction's gas on the block gas meter and recovers the
		// out-of-gas panic; the meter then reports its limit
		fmRecover(func() { f.ctx.BlockGasMeter().ConsumeGas(fmU64(scripted), "scripted block gas") })
		st.Args = M{"used": fmt.Sprint(f.ctx.BlockGasMeter().GasConsumedToLimit()), "scripted": scripted}
		e := fmRecover(func() { k.EndBlock(f.ctx, abci.RequestEndBlock{Height: f.height}) })
		f.phase = "ended"
		return e == "", e, false
	case "commit":
		f.commit()
		f.phase = "idle"
		f.view()
		return true, "", false
	case "set_params":
		var p fmParams
		pm := st.Args["params"].(M)
		p.NoBaseFee = pm["noBaseFee"].(bool)
		p.EnableHeight = int64(pm["enableHeight"].(float64))
		p.Elasticity, p.Denominator = fmArgStr(pm, "elasticity"), fmArgStr(pm, "denominator")
		p.MinGasPrice, p.MinGasMultiplier = fmArgStr(pm, "minGasPrice"), fmArgStr(pm, "minGasMultiplier")
		msg := &feemarkettypes.MsgUpdateParams{
			Authority: authtypes.NewModuleAddress(govtypes.ModuleName).String(),
			Params:    p.real(fmArgStr(st.Args, "baseFee")),
		}
		env := &Env{App: f.app, Ctx: f.ctx}
		_, err := env.Exec(msg)
		return err == nil, errStr(err), false
	case "set_max_gas":
		f.setMaxGas(fmArgStr(st.Args, "maxGas"))
		return true, "", false
	case "upgrade":
		var err error
		e := fmRecover(func() { err = fmScheduleUpgrade(f.app, f.ctx, uint64(st.Args["from"].(float64)), f.height+1) })
		if e != "" {
			return false, e, false
		}
		return err == nil, errStr(err), false
	case "restart":
		e := fmRecover(func() { f.attach(openApp(f.db)) })
		f.view()
		return e == "", e, e != ""
	case "reinit", "export_import":
		commit := st.Args["commit"].(bool)
		e := fmRecover(func() {
			if st.Ev == "reinit" {
				f.reinit()
				if commit {
					f.commit()
				} else {
					f.ms.Write()
				}
			} else {
				f.exportImport(commit)
			}
		})
		if e != "" {
			f.view()
			return false, e, true
		}
		f.phase = "imported"
		if commit {
			f.phase = "idle"
		}
		f.view()
		return true, "", false
	}
	panic("unknown feemarket step " + st.Ev)
}

// fmScheduleUpgrade: the chain as it is right before a software upgrade that migrates x/feemarket from
// consensus version `from`: the store in that version's layout, the version map, a due plan.
func fmScheduleUpgrade(a *app.Haqq, ctx sdk.Context, from uint64, height int64) error {
	if from != 3 {
		return fmt.Errorf("no store layout known for x/feemarket consensus version %d", from)
	}
	// v3: the parameters (the base fee is one of them) are managed by x/params
	p := a.FeeMarketKeeper.GetParams(ctx)
	ss := a.GetSubspace(feemarkettypes.ModuleName)
	ss.SetParamSet(ctx, &p)
	ctx.KVStore(a.GetKey(feemarkettypes.StoreKey)).Delete(feemarkettypes.ParamsKey)
	a.UpgradeKeeper.SetModuleVersionMap(ctx, map[string]uint64{feemarkettypes.ModuleName: from})
	return a.UpgradeKeeper.ScheduleUpgrade(ctx, upgradetypes.Plan{Name: fmupgrade.UpgradeName, Height: height})
}

// calc evaluates the real CalculateBaseFee for one parameter row and every g of the row.
func (f *fmEnv) calc(c fmCalcCase) []M {
	f.branch(c.Height) // discarded
	k := f.app.FeeMarketKeeper
	p := fmParams{NoBaseFee: c.NoBaseFee, EnableHeight: c.EnableHeight, Elasticity: c.Elasticity,
		Denominator: c.Denominator, MinGasPrice: c.MinGasPrice, MinGasMultiplier: "500000000000000000"}
	if err := k.SetParams(f.ctx, p.real(c.Base)); err != nil {
		panic(err)
	}
	ctx := f.ctx.WithBlockHeight(c.Height).WithConsensusParams(&tmproto.ConsensusParams{
		Block: &tmproto.BlockParams{MaxGas: fmI64(c.MaxGas), MaxBytes: 200000}})
	res := make([]M, 0, len(c.Gs))
	for _, g := range c.Gs {
		k.SetBlockGasWanted(ctx, fmU64(g))
		var fee *big.Int
		e := fmRecover(func() { fee = k.CalculateBaseFee(ctx) })
		switch {
		case e != "":
			res = append(res, M{"out": "panic", "fee": "0"})
		case fee == nil:
			res = append(res, M{"out": "nil", "fee": "0"})
		default:
			res = append(res, M{"out": "value", "fee": fee.String()})
		}
	}
	return res
}

// ---------------------------------------------------------------------------------------------
// random inputs

var (
	fmMaxU64 = new(big.Int).SetUint64(^uint64(0))
	fmOne18  = new(big.Int).Exp(big.NewInt(10), big.NewInt(18), nil)
)

func fmRandBits(r *rand.Rand, bits int) *big.Int {
	x := new(big.Int)
	for i := 0; i < bits; i += 32 {
		x.Lsh(x, 32).Or(x, big.NewInt(int64(r.Uint32())))
	}
	return x.Rsh(x, uint(r.Intn(bits)))
}

func fmPick(r *rand.Rand, xs ...string) string { return xs[r.Intn(len(xs))] }

func fmRandMaxGas(r *rand.Rand) string {
	switch r.Intn(12) {
	case 0, 1, 2:
		return "-1"
	case 3, 4:
		return "30000000"
	case 5:
		return "40000000"
	case 6:
		return fmt.Sprint(1 + r.Intn(100))
	case 7:
		return "9223372036854775807"
	case 8:
		return fmt.Sprint(1 + r.Int63())
	case 9:
		if r.Intn(3) == 0 {
			return "0"
		}
		return "1000000"
	default:
		return fmt.Sprint(1000 + r.Intn(100000000))
	}
}

func fmRandElasticity(r *rand.Rand) string {
	switch r.Intn(16) {
	case 0:
		return "1"
	case 1:
		return "3"
	case 2:
		return "4"
	case 3:
		return fmt.Sprint(1 + r.Intn(1000))
	case 4:
		return fmPick(r, "4294967295", fmt.Sprint(r.Uint32()|1))
	case 5:
		if r.Intn(4) == 0 {
			return "0"
		}
		return "2"
	default:
		return "2"
	}
}

func fmRandDenominator(r *rand.Rand, allowZero bool) string {
	switch r.Intn(12) {
	case 0:
		return "1"
	case 1:
		return "2"
	case 2:
		return "50"
	case 3:
		return fmt.Sprint(1 + r.Intn(1000))
	case 4:
		return fmPick(r, "4294967295", fmt.Sprint(r.Uint32()|1))
	case 5:
		if allowZero && r.Intn(4) == 0 {
			return "0"
		}
		return "8"
	default:
		return "8"
	}
}

func fmRandBase(r *rand.Rand) *big.Int {
	switch r.Intn(10) {
	case 0:
		return big.NewInt(0)
	case 1:
		return big.NewInt(int64(r.Intn(40)))
	case 2:
		return big.NewInt(1000000000)
	case 3:
		return new(big.Int).Mul(big.NewInt(1000000000), big.NewInt(int64(1+r.Intn(100000))))
	case 4, 5:
		return fmRandBits(r, 64)
	case 6, 7:
		return fmRandBits(r, 128)
	case 8:
		return new(big.Int).Exp(big.NewInt(10), big.NewInt(int64(r.Intn(30))), nil)
	default:
		return big.NewInt(r.Int63n(1000000))
	}
}

// min gas price (18-decimal string) drawn relative to the base fee
func fmRandMinGasPrice(r *rand.Rand, base *big.Int) string {
	sc := func(x *big.Int) *big.Int { return new(big.Int).Mul(x, fmOne18) }
	switch r.Intn(10) {
	case 0, 1, 2:
		return "0"
	case 3:
		return sc(base).String()
	case 4:
		return sc(new(big.Int).Quo(base, big.NewInt(2))).String()
	case 5:
		return sc(new(big.Int).Add(new(big.Int).Mul(base, big.NewInt(2)), big.NewInt(1))).String()
	case 6: // fractional, just below the base fee
		x := sc(base)
		x.Sub(x, big.NewInt(1+r.Int63n(999999999999999999)))
		if x.Sign() < 0 {
			return "500000000000000000"
		}
		return x.String()
	case 7: // fractional, below
		x := sc(new(big.Int).Quo(new(big.Int).Mul(base, big.NewInt(int64(r.Intn(100)))), big.NewInt(100)))
		return x.Add(x, big.NewInt(r.Int63n(1000000000000000000))).String()
	case 8:
		return sc(big.NewInt(1000000000)).String()
	default:
		x := new(big.Int).Sub(base, big.NewInt(int64(r.Intn(3))))
		return sc(x.Abs(x)).String()
	}
}

func fmRandMultiplier(r *rand.Rand) string {
	switch r.Intn(8) {
	case 0:
		return "0"
	case 1:
		return "1000000000000000000"
	case 2:
		return fmt.Sprint(r.Int63n(1000000000000000001))
	case 3:
		return fmPick(r, "1", "999999999999999999", "333333333333333333", "100000000000000000")
	default:
		return "500000000000000000"
	}
}

// target as the inputs define it (used only to *choose* interesting g, never as an oracle)
func fmTargetOf(maxGas, el string) *big.Int {
	limit := new(big.Int).Set(fmMaxU64)
	if mg := mustBig(maxGas); mg.Sign() >= 0 {
		limit = mg
	}
	e := mustBig(el)
	if e.Sign() == 0 {
		return big.NewInt(0)
	}
	return limit.Quo(limit, e)
}

func fmRandCalcCase(r *rand.Rand) fmCalcCase {
	base := fmRandBase(r)
	c := fmCalcCase{Base: base.String(), MaxGas: fmRandMaxGas(r), Elasticity: fmRandElasticity(r),
		Denominator: fmRandDenominator(r, true), MinGasPrice: fmRandMinGasPrice(r, base), Height: 10}
	switch r.Intn(25) {
	case 0:
		c.NoBaseFee = true
	case 1:
		c.EnableHeight = 10
	case 2:
		c.EnableHeight = 11
	case 3:
		c.EnableHeight = 9
	}
	t := fmTargetOf(c.MaxGas, c.Elasticity)
	set := map[string]*big.Int{}
	add := func(x *big.Int) {
		if x.Sign() >= 0 && x.Cmp(fmMaxU64) <= 0 {
			set[x.String()] = new(big.Int).Set(x)
		}
	}
	for d := int64(-2); d <= 2; d++ {
		add(new(big.Int).Add(t, big.NewInt(d)))
	}
	add(big.NewInt(0))
	add(big.NewInt(1))
	add(fmMaxU64)
	add(new(big.Int).Mul(t, mustBig(c.Elasticity)))
	for i := 0; i < 4; i++ {
		var g *big.Int
		switch r.Intn(4) {
		case 0:
			g = new(big.Int).SetUint64(r.Uint64())
		case 1: // below the target
			g = new(big.Int).Quo(new(big.Int).Mul(t, big.NewInt(int64(r.Intn(1000)))), big.NewInt(1000))
		case 2: // between target and limit
			g = new(big.Int).Add(t, new(big.Int).Quo(new(big.Int).Mul(t, big.NewInt(int64(r.Intn(1000)))), big.NewInt(1000)))
		default: // a little above the target: the max(1, ..) region
			g = new(big.Int).Add(t, big.NewInt(1+int64(r.Intn(20))))
		}
		add(g)
		add(new(big.Int).Add(g, big.NewInt(1)))
	}
	gs := make([]*big.Int, 0, len(set))
	for _, g := range set {
		gs = append(gs, g)
	}
	sort.Slice(gs, func(i, j int) bool { return gs[i].Cmp(gs[j]) < 0 })
	for _, g := range gs {
		c.Gs = append(c.Gs, g.String())
	}
	return c
}

func fmRandParams(r *rand.Rand, base *big.Int) fmParams {
	p := fmParams{Elasticity: fmRandElasticity(r), Denominator: fmRandDenominator(r, false),
		MinGasPrice: fmRandMinGasPrice(r, base), MinGasMultiplier: fmRandMultiplier(r)}
	if r.Intn(20) == 0 {
		p.NoBaseFee = true
	}
	if r.Intn(5) == 0 {
		p.EnableHeight = int64(1 + r.Intn(4))
	}
	return p
}

// randomScenario runs one seeded random block sequence; steps are generated while running
// (gas relative to the current limits) and logged with their arguments.
func (f *fmEnv) randomScenario(r *rand.Rand, blocks int, nodeOps int, emit func(st fmStep) bool) {
	upgraded := false
	for b := 1; b <= blocks; b++ {
		if !emit(fmStep{"begin_block", M{"height": float64(b)}}) {
			return
		}
		p := f.app.FeeMarketKeeper.GetParams(f.ctx)
		t := fmTargetOf(f.blkMaxGas, fmt.Sprint(p.ElasticityMultiplier))
		limit := new(big.Int).Set(fmMaxU64)
		if mg := mustBig(f.blkMaxGas); mg.Sign() > 0 {
			limit = mg
		}
		sum := new(big.Int)
		ntx := r.Intn(5)
		exact := r.Intn(6) == 0 // aim at g = T
		for i := 0; i < ntx; i++ {
			var g *big.Int
			switch {
			case exact && i == 0:
				g = new(big.Int).Set(t)
			case limit.Cmp(fmMaxU64) < 0:
				g = new(big.Int).Quo(new(big.Int).Mul(limit, big.NewInt(int64(r.Intn(1100)))), big.NewInt(1000))
			default:
				switch r.Intn(8) {
				case 0:
					g = new(big.Int).Lsh(big.NewInt(1+r.Int63n(7)), 60) // sums beyond MaxInt64
				case 1:
					g = new(big.Int).Quo(t, big.NewInt(1+int64(r.Intn(4))))
				default:
					g = big.NewInt(21000 + r.Int63n(60000000))
				}
			}
			if g.Cmp(fmMaxU64) > 0 {
				g = new(big.Int).Set(fmMaxU64)
			}
			if !emit(fmStep{"ante", M{"gas": g.String()}}) {
				return
			}
			sum.Add(sum, g)
		}
		if r.Intn(8) == 0 {
			np := fmRandParams(r, p.BaseFee.BigInt())
			base := p.BaseFee.String()
			if r.Intn(3) == 0 {
				base = fmRandBase(r).String()
			}
			if !emit(fmStep{"set_params", M{"baseFee": base, "params": M{"noBaseFee": np.NoBaseFee, "enableHeight": float64(np.EnableHeight),
				"elasticity": np.Elasticity, "denominator": np.Denominator, "minGasPrice": np.MinGasPrice, "minGasMultiplier": np.MinGasMultiplier}}}) {
				return
			}
		}
		if r.Intn(12) == 0 {
			if !emit(fmStep{"set_max_gas", M{"maxGas": fmRandMaxGas(r)}}) {
				return
			}
		}
		var used *big.Int
		switch r.Intn(6) {
		case 0:
			used = big.NewInt(0)
		case 1:
			used = new(big.Int).Set(sum)
		case 2:
			used = new(big.Int).Set(t)
		case 3:
			used = new(big.Int).Add(sum, big.NewInt(r.Int63n(1000000)))
		default:
			used = new(big.Int).Quo(new(big.Int).Mul(sum, big.NewInt(int64(r.Intn(1001)))), big.NewInt(1000))
		}
		if used.Cmp(fmMaxU64) > 0 {
			used = new(big.Int).Set(fmMaxU64)
		}
		if !emit(fmStep{"end_block", M{"used": used.String()}}) {
			return
		}
		// a software upgrade becomes due for the next block (once per sequence: a plan name completes once)
		if !upgraded && b < blocks && r.Intn(1000) < nodeOps/2 {
			upgraded = true
			if !emit(fmStep{"upgrade", M{"from": float64(3)}}) {
				return
			}
		}
		if !emit(fmStep{"commit", M{"height": float64(b)}}) {
			return
		}
		// node operations between blocks
		if b < blocks && r.Intn(1000) < nodeOps {
			var st fmStep
			switch r.Intn(8) {
			case 0, 1, 2:
				st = fmStep{"restart", M{"height": float64(b)}}
			case 3, 4, 5:
				st = fmStep{"reinit", M{"commit": r.Intn(3) == 0}}
			default:
				st = fmStep{"export_import", M{"commit": r.Intn(3) == 0}}
			}
			if !emit(st) {
				return
			}
		}
	}
}

// ---------------------------------------------------------------------------------------------

func feemarketMain(args []string) error {
	fs := flag.NewFlagSet("feemarket", flag.ExitOnError)
	scripts := fs.String("scripts", "", "JSON file: array of block-sequence scripts {cfg, steps}")
	calcs := fs.String("calc", "", "JSON file: array of calc cases")
	grid := fs.String("grid", "", "JSON file: the enumerated grid of specs/FeeMarket_calc*.cfg")
	gridMod := fs.Int("grid-mod", 1, "validate every row r of the grid with r % mod == rem")
	gridRem := fs.Int("grid-rem", 0, "see --grid-mod")
	random := fs.Int("random", 0, "number of random block sequences")
	blocks := fs.Int("blocks", 8, "blocks per random sequence")
	nodeOps := fs.Int("node-ops", 250, "random sequences: per mille of block boundaries with a node operation (restart, reinit, export_import)")
	nabci := fs.Int("abci", 0, "number of random block sequences at the ABCI level (real transactions of every kind through DeliverTx)")
	randCalc := fs.Int("random-calc", 0, "number of random calc rows")
	seed := fs.Int64("seed", 1, "seed")
	out := fs.String("out", "trace.ndjson", "trace output")
	fs.Parse(args)

	tw, err := NewTraceWriter(*out)
	if err != nil {
		return err
	}
	defer tw.Close()
	scn := 0
	ncalc, nevals := 0, 0

	// (a) pure function
	var pure *fmEnv
	doCalc := func(src string, c fmCalcCase) {
		if pure == nil {
			pure = fmNewEnv()
		}
		scn++
		ncalc++
		nevals += len(c.Gs)
		tw.Emit(M{"ev": "calc", "scn": scn, "src": src, "args": c, "res": pure.calc(c)})
	}
	if *grid != "" {
		var g fmGrid
		if err := readJSONFile(*grid, &g); err != nil {
			return err
		}
		gs := []string{}
		for x := int64(0); x <= g.GMax; x++ {
			gs = append(gs, fmt.Sprint(x))
		}
		row := 0
		for b := int64(0); b <= g.BaseMax; b++ {
			for _, mg := range g.MaxGases {
				for el := int64(1); el <= g.ElasticityMax; el++ {
					for d := int64(1); d <= g.DenominatorMax; d++ {
						for _, m := range g.MinGasPrices {
							row++
							if row%*gridMod != *gridRem {
								continue
							}
							doCalc("grid", fmCalcCase{Base: fmt.Sprint(b), MaxGas: mg, Elasticity: fmt.Sprint(el),
								Denominator: fmt.Sprint(d), MinGasPrice: m, Height: 5, Gs: gs})
						}
					}
				}
			}
		}
	}
	if *calcs != "" {
		var all []fmCalcCase
		if err := readJSONFile(*calcs, &all); err != nil {
			return err
		}
		for _, c := range all {
			doCalc("script", c)
		}
	}
	if *randCalc > 0 {
		r := rand.New(rand.NewSource(*seed*7919 + 17))
		for i := 0; i < *randCalc; i++ {
			doCalc("random", fmRandCalcCase(r))
		}
	}

	// (b) block sequences
	// one application serves all sequences: reset overwrites everything the fee market reads
	// (params, block gas wanted, consensus max gas; the transient store is empty after a commit),
	// and a violating scenario must reproduce alone on a fresh application before it counts
	nseq := 0
	var seq *fmEnv
	runSeq := func(src string, cfg fmCfg, drive func(f *fmEnv, emit func(st fmStep) bool)) {
		var f *fmEnv
		if cfg.Abci {
			f = fmNewAbciEnv(cfg) // a fresh application, initialised from the sequence's genesis
		} else {
			if seq == nil {
				seq = fmNewEnv()
			}
			f = seq
			if f.phase != "idle" { // a halted or unfinished scenario left a block open: drop its branch
				f.phase = "idle"
			}
			f.reset(cfg)
		}
		scn++
		nseq++
		tw.Emit(M{"ev": "reset", "scn": scn, "src": src, "cfg": cfg, "post": f.project()})
		drive(f, func(st fmStep) bool {
			ok, e, halt := f.step(&st)
			tw.Emit(M{"ev": st.Ev, "args": st.Args, "ok": ok, "err": e, "post": f.project(), "scn": scn})
			return !halt
		})
	}
	if *scripts != "" {
		var all []fmScript
		if err := readJSONFile(*scripts, &all); err != nil {
			return err
		}
		for _, sc := range all {
			steps := sc.Steps
			runSeq("script", sc.Cfg, func(f *fmEnv, emit func(st fmStep) bool) {
				for _, st := range steps {
					if !emit(st) {
						return
					}
				}
			})
		}
	}
	for i := 0; i < *random; i++ {
		r := rand.New(rand.NewSource(*seed*1000003 + int64(i)))
		base := fmRandBase(r)
		cfg := fmCfg{BaseFee: base.String(), Bgw: "0", MaxGas: fmRandMaxGas(r), Params: fmRandParams(r, base)}
		if r.Intn(3) == 0 {
			cfg.Bgw = fmt.Sprint(r.Int63n(60000000))
		}
		runSeq("random", cfg, func(f *fmEnv, emit func(st fmStep) bool) { f.randomScenario(r, *blocks, *nodeOps, emit) })
	}
	for i := 0; i < *nabci; i++ {
		r := rand.New(rand.NewSource(*seed*1000033 + int64(i)))
		runSeq("random-abci", fmaRandCfg(r), func(f *fmEnv, emit func(st fmStep) bool) { f.randomAbci(r, *blocks, *nodeOps, emit) })
	}
	fmt.Printf("feemarket: scenarios=%d lines=%d calc_rows=%d calc_evaluations=%d sequences=%d\n", scn, tw.N, ncalc, nevals, nseq)
	return nil
}
