package main

// Mutation matrix of property C03 (specs/SigNonce.tla, PART 2): builders of valid signed
// transactions for every route and the single-field mutations applied WITHOUT signing again.
// Transactions are assembled and taken apart at the protobuf level (TxRaw = body bytes,
// auth-info bytes, signatures), so that a mutation changes exactly the bytes it names.

import (
	"bytes"
	"fmt"
	"math/big"

	sdkmath "cosmossdk.io/math"
	"github.com/cosmos/cosmos-sdk/codec"
	codectypes "github.com/cosmos/cosmos-sdk/codec/types"
	cryptotypes "github.com/cosmos/cosmos-sdk/crypto/types"
	sdk "github.com/cosmos/cosmos-sdk/types"
	txtypes "github.com/cosmos/cosmos-sdk/types/tx"
	"github.com/cosmos/cosmos-sdk/types/tx/signing"
	"github.com/cosmos/cosmos-sdk/x/auth/migrations/legacytx"
	authsigning "github.com/cosmos/cosmos-sdk/x/auth/signing"
	authtx "github.com/cosmos/cosmos-sdk/x/auth/tx"
	banktypes "github.com/cosmos/cosmos-sdk/x/bank/types"
	"github.com/cosmos/gogoproto/proto"
	"github.com/ethereum/go-ethereum/common"
	ethtypes "github.com/ethereum/go-ethereum/core/types"
	ethcrypto "github.com/ethereum/go-ethereum/crypto"
	"github.com/ethereum/go-ethereum/signer/core/apitypes"

	"github.com/haqq-network/haqq/ethereum/eip712"
	utiltx "github.com/haqq-network/haqq/testutil/tx"
	haqqtypes "github.com/haqq-network/haqq/types"
	"github.com/haqq-network/haqq/utils"
	evmtypes "github.com/haqq-network/haqq/x/evm/types"
)

// ---------------------------------------------------------------------------------------
// Cosmos-SDK transactions, however signed

type snSdkOpts struct {
	Route      string // cosmos-direct | cosmos-amino-json | eip712 (legacy Web3Tx extension) | eip712-direct
	Pub        Key    // whose public key the signer info carries
	Sign       Key    // whose key signs
	ChainID    string
	AccNum     uint64
	Seq        uint64
	Gas        uint64
	Fee        sdk.Coins
	Memo       string
	Timeout    uint64
	TypedChain uint64 // EIP-712 domain chain id
}

func snTypedChainOf(chainID string, def uint64) uint64 {
	if c, err := haqqtypes.ParseChainID(chainID); err == nil {
		return c.Uint64()
	}
	return def
}

func snSignMode(route string) signing.SignMode {
	if route == "cosmos-amino-json" || route == "eip712" {
		return signing.SignMode_SIGN_MODE_LEGACY_AMINO_JSON
	}
	return signing.SignMode_SIGN_MODE_DIRECT
}

var snProtoCodec = codec.NewProtoCodec(encCfg.InterfaceRegistry)

// snSignSdk builds and signs a Cosmos transaction the way a client of the route does.
func snSignSdk(o snSdkOpts, msgs ...sdk.Msg) ([]byte, error) {
	b := txConfig.NewTxBuilder()
	if err := b.SetMsgs(msgs...); err != nil {
		return nil, err
	}
	b.SetGasLimit(o.Gas)
	b.SetFeeAmount(o.Fee)
	b.SetMemo(o.Memo)
	b.SetTimeoutHeight(o.Timeout)
	mode := snSignMode(o.Route)
	pub := o.Pub.Priv.PubKey()
	sig := signing.SignatureV2{PubKey: pub, Data: &signing.SingleSignatureData{SignMode: mode}, Sequence: o.Seq}
	if err := b.SetSignatures(sig); err != nil {
		return nil, err
	}
	if o.Route == "eip712" {
		// legacy EIP-712: typed data over the amino sign doc, signature inside the Web3Tx extension,
		// Cosmos signature left empty (testutil/tx/eip712.go)
		fee := legacytx.NewStdFee(o.Gas, o.Fee) //nolint:staticcheck
		data := legacytx.StdSignBytes(o.ChainID, o.AccNum, o.Seq, o.Timeout, fee, msgs, o.Memo, nil)
		td, err := eip712.LegacyWrapTxToTypedData(snProtoCodec, o.TypedChain, msgs[0], data, &eip712.FeeDelegationOptions{FeePayer: o.Pub.Addr})
		if err != nil {
			return nil, err
		}
		hash, _, err := apitypes.TypedDataAndHash(td)
		if err != nil {
			return nil, err
		}
		ec, err := o.Sign.Priv.ToECDSA()
		if err != nil {
			return nil, err
		}
		s, err := ethcrypto.Sign(hash, ec)
		if err != nil {
			return nil, err
		}
		s[ethcrypto.RecoveryIDOffset] += 27
		opt, err := codectypes.NewAnyWithValue(&haqqtypes.ExtensionOptionsWeb3Tx{FeePayer: o.Pub.Addr.String(), TypedDataChainID: o.TypedChain, FeePayerSig: s})
		if err != nil {
			return nil, err
		}
		b.(authtx.ExtensionOptionsTxBuilder).SetExtensionOptions(opt)
		return txConfig.TxEncoder()(b.GetTx())
	}
	sd := authsigning.SignerData{ChainID: o.ChainID, AccountNumber: o.AccNum, Sequence: o.Seq, Address: o.Pub.Addr.String(), PubKey: pub}
	signBytes, err := txConfig.SignModeHandler().GetSignBytes(mode, sd, b.GetTx())
	if err != nil {
		return nil, err
	}
	if o.Route == "eip712-direct" {
		// EIP-712 typed data derived from the DIRECT sign doc, verified by the ethsecp256k1 public key
		// (a chain id outside the haqq_<eip155>-<epoch> format has no typed-data form: such a foreign
		// signature is then the plain one over the sign doc)
		if eb, err := eip712.GetEIP712BytesForMsg(signBytes); err == nil {
			signBytes = eb
		} else if haqqtypes.IsValidChainID(o.ChainID) {
			return nil, err
		}
	}
	s, err := o.Sign.Priv.Sign(signBytes)
	if err != nil {
		return nil, err
	}
	sig.Data = &signing.SingleSignatureData{SignMode: mode, Signature: s}
	if err := b.SetSignatures(sig); err != nil {
		return nil, err
	}
	return txConfig.TxEncoder()(b.GetTx())
}

// snParts is a transaction taken apart at the TxRaw level.
type snParts struct {
	Body      *txtypes.TxBody
	Auth      *txtypes.AuthInfo
	Sigs      [][]byte
	bodyBz    []byte
	authBz    []byte
	BodyDirty bool
	AuthDirty bool
}

func snSplit(bz []byte) (*snParts, error) {
	var raw txtypes.TxRaw
	if err := raw.Unmarshal(bz); err != nil {
		return nil, err
	}
	p := &snParts{Body: &txtypes.TxBody{}, Auth: &txtypes.AuthInfo{}, Sigs: raw.Signatures, bodyBz: raw.BodyBytes, authBz: raw.AuthInfoBytes}
	if err := p.Body.Unmarshal(raw.BodyBytes); err != nil {
		return nil, err
	}
	if err := p.Auth.Unmarshal(raw.AuthInfoBytes); err != nil {
		return nil, err
	}
	// taking apart and putting together must be the identity, otherwise every mutation would
	// also be a re-encoding
	b2, err := p.Body.Marshal()
	if err != nil {
		return nil, err
	}
	a2, err := p.Auth.Marshal()
	if err != nil {
		return nil, err
	}
	if !bytes.Equal(b2, raw.BodyBytes) || !bytes.Equal(a2, raw.AuthInfoBytes) {
		return nil, fmt.Errorf("re-encoding of body / auth info is not the identity")
	}
	return p, nil
}

func (p *snParts) Bytes() ([]byte, error) {
	var err error
	if p.BodyDirty {
		if p.bodyBz, err = p.Body.Marshal(); err != nil {
			return nil, err
		}
	}
	if p.AuthDirty {
		if p.authBz, err = p.Auth.Marshal(); err != nil {
			return nil, err
		}
	}
	raw := txtypes.TxRaw{BodyBytes: p.bodyBz, AuthInfoBytes: p.authBz, Signatures: p.Sigs}
	return raw.Marshal()
}

func snAny(m codecMsg) *codectypes.Any {
	a, err := codectypes.NewAnyWithValue(m)
	if err != nil {
		panic(err)
	}
	return a
}

type codecMsg = proto.Message

func snFlip(b []byte) []byte {
	out := append([]byte{}, b...)
	if len(out) == 0 {
		return []byte{1}
	}
	out[len(out)/2] ^= 0x04
	return out
}

var snCurveN = ethcrypto.S256().Params().N

// snMalleate turns [R||S(||V)] into its high-s twin [R||N-S(||V^1)]
func snMalleate(sig []byte) []byte {
	out := append([]byte{}, sig...)
	if len(out) < 64 {
		return snFlip(out)
	}
	s := new(big.Int).SetBytes(out[32:64])
	s.Sub(snCurveN, s)
	s.FillBytes(out[32:64])
	if len(out) == 65 {
		out[64] ^= 1
	}
	return out
}

// snSdkCtx is what re-signing variants need.
type snSdkCtx struct {
	O    snSdkOpts
	Msgs []sdk.Msg
}

func snCoinsPlus(c sdk.Coins, f func(sdkmath.Int) sdkmath.Int) sdk.Coins {
	out := sdk.Coins{}
	for _, x := range c {
		out = append(out, sdk.Coin{Denom: x.Denom, Amount: f(x.Amount)})
	}
	return out
}

func snIntMut(mut string) (func(sdkmath.Int) sdkmath.Int, error) {
	switch mut {
	case "+1":
		return func(i sdkmath.Int) sdkmath.Int { return i.AddRaw(1) }, nil
	case "-1":
		return func(i sdkmath.Int) sdkmath.Int { return i.SubRaw(1) }, nil
	case "x2":
		return func(i sdkmath.Int) sdkmath.Int { return i.MulRaw(2) }, nil
	case "zero":
		return func(i sdkmath.Int) sdkmath.Int { return sdkmath.ZeroInt() }, nil
	}
	return nil, fmt.Errorf("unknown integer mutation %q", mut)
}

func (d *snEnv) signerInfoOf(name string, mode signing.SignMode) *txtypes.SignerInfo {
	k := d.key(name)
	return &txtypes.SignerInfo{PublicKey: snAny(k.Priv.PubKey().(codecMsg)), Sequence: d.seqOf(name),
		ModeInfo: &txtypes.ModeInfo{Sum: &txtypes.ModeInfo_Single_{Single: &txtypes.ModeInfo_Single{Mode: mode}}}}
}

// snSdkMutate applies one mutation to signed Cosmos transaction bytes.
func snSdkMutate(d *snEnv, bz []byte, c snCase, sc *snSdkCtx) ([]byte, error) {
	p, err := snSplit(bz)
	if err != nil {
		return nil, err
	}
	editSend := func(f func(m *banktypes.MsgSend)) error {
		var m banktypes.MsgSend
		if err := m.Unmarshal(p.Body.Messages[0].Value); err != nil {
			return err
		}
		f(&m)
		v, err := m.Marshal()
		if err != nil {
			return err
		}
		p.Body.Messages[0] = &codectypes.Any{TypeUrl: p.Body.Messages[0].TypeUrl, Value: v}
		p.BodyDirty = true
		return nil
	}
	editWeb3 := func(f func(w *haqqtypes.ExtensionOptionsWeb3Tx)) error {
		if len(p.Body.ExtensionOptions) != 1 {
			return fmt.Errorf("no Web3Tx extension")
		}
		var w haqqtypes.ExtensionOptionsWeb3Tx
		if err := w.Unmarshal(p.Body.ExtensionOptions[0].Value); err != nil {
			return err
		}
		f(&w)
		v, err := w.Marshal()
		if err != nil {
			return err
		}
		p.Body.ExtensionOptions[0] = &codectypes.Any{TypeUrl: p.Body.ExtensionOptions[0].TypeUrl, Value: v}
		p.BodyDirty = true
		return nil
	}
	resign := func(f func(o *snSdkOpts)) ([]byte, error) {
		if sc == nil {
			return nil, fmt.Errorf("re-signing variant without context")
		}
		o := sc.O
		f(&o)
		return snSignSdk(o, sc.Msgs...)
	}
	dynfee := snAny(&haqqtypes.ExtensionOptionDynamicFeeTx{MaxPriorityPrice: sdkmath.NewInt(1)})
	switch c.Field {
	case "msgAmount":
		f, err := snIntMut(c.Mut)
		if err != nil {
			return nil, err
		}
		err = editSend(func(m *banktypes.MsgSend) { m.Amount = snCoinsPlus(m.Amount, f) })
		if err != nil {
			return nil, err
		}
	case "msgTo":
		if err := editSend(func(m *banktypes.MsgSend) { m.ToAddress = d.key("x").Addr.String() }); err != nil {
			return nil, err
		}
	case "msgFrom":
		if err := editSend(func(m *banktypes.MsgSend) { m.FromAddress = d.key("v").Addr.String() }); err != nil {
			return nil, err
		}
	case "msgs":
		switch c.Mut {
		case "append":
			var m banktypes.MsgSend
			if err := m.Unmarshal(p.Body.Messages[0].Value); err != nil {
				return nil, err
			}
			m.ToAddress = d.key("x").Addr.String()
			p.Body.Messages = append(p.Body.Messages, snAny(&m))
		case "drop":
			p.Body.Messages = nil
		case "duplicate":
			p.Body.Messages = append(p.Body.Messages, p.Body.Messages[0])
		default:
			return nil, fmt.Errorf("unknown mutation")
		}
		p.BodyDirty = true
	case "memo":
		if c.Mut == "change" {
			p.Body.Memo += "!"
		} else {
			p.Body.Memo = ""
		}
		p.BodyDirty = true
	case "timeoutHeight":
		p.Body.TimeoutHeight = uint64(d.n.Header.Height) + 100
		p.BodyDirty = true
	case "extensionOptions":
		if c.Mut == "add-dynfee" {
			p.Body.ExtensionOptions = append(p.Body.ExtensionOptions, dynfee)
		} else {
			p.Body.ExtensionOptions = append(p.Body.ExtensionOptions, snAny(&haqqtypes.ExtensionOptionsWeb3Tx{
				FeePayer: d.key("s1").Addr.String(), TypedDataChainID: 11235, FeePayerSig: bytes.Repeat([]byte{7}, 65)}))
		}
		p.BodyDirty = true
	case "nonCriticalExtensionOptions":
		p.Body.NonCriticalExtensionOptions = append(p.Body.NonCriticalExtensionOptions, dynfee)
		p.BodyDirty = true
	case "feeAmount":
		f, err := snIntMut(c.Mut)
		if err != nil {
			return nil, err
		}
		p.Auth.Fee.Amount = snCoinsPlus(p.Auth.Fee.Amount, f)
		p.AuthDirty = true
	case "gasLimit":
		if c.Mut == "+1" {
			p.Auth.Fee.GasLimit++
		} else {
			p.Auth.Fee.GasLimit--
		}
		p.AuthDirty = true
	case "feePayer":
		who := map[string]string{"victim": "v", "self": "s1"}[c.Mut]
		p.Auth.Fee.Payer = d.key(who).Addr.String()
		p.AuthDirty = true
	case "feeGranter":
		who := map[string]string{"victim": "v", "granter": "g"}[c.Mut]
		p.Auth.Fee.Granter = d.key(who).Addr.String()
		p.AuthDirty = true
	case "tip":
		p.Auth.Tip = &txtypes.Tip{Amount: sdk.NewCoins(coin("1")), Tipper: d.key("s1").Addr.String()}
		p.AuthDirty = true
	case "sequence":
		if c.Mut == "+1" {
			p.Auth.SignerInfos[0].Sequence++
		} else {
			p.Auth.SignerInfos[0].Sequence--
		}
		p.AuthDirty = true
	case "signMode":
		cur := p.Auth.SignerInfos[0].ModeInfo.GetSingle().Mode
		nm := signing.SignMode_SIGN_MODE_DIRECT
		if cur == signing.SignMode_SIGN_MODE_DIRECT {
			nm = signing.SignMode_SIGN_MODE_LEGACY_AMINO_JSON
		}
		p.Auth.SignerInfos[0].ModeInfo = &txtypes.ModeInfo{Sum: &txtypes.ModeInfo_Single_{Single: &txtypes.ModeInfo_Single{Mode: nm}}}
		p.AuthDirty = true
	case "pubKey":
		switch c.Mut {
		case "attacker":
			p.Auth.SignerInfos[0].PublicKey = snAny(d.key("x").Priv.PubKey().(codecMsg))
		case "victim":
			p.Auth.SignerInfos[0].PublicKey = snAny(d.key("v").Priv.PubKey().(codecMsg))
		case "drop":
			p.Auth.SignerInfos[0].PublicKey = nil
		}
		p.AuthDirty = true
	case "signerInfos":
		p.Auth.SignerInfos = append(p.Auth.SignerInfos, d.signerInfoOf("v", p.Auth.SignerInfos[0].ModeInfo.GetSingle().Mode))
		p.AuthDirty = true
	case "signature":
		switch c.Mut {
		case "flip":
			p.Sigs[0] = snFlip(p.Sigs[0])
		case "empty":
			p.Sigs[0] = []byte{}
		case "truncate":
			p.Sigs[0] = p.Sigs[0][:32]
		case "toggle-v":
			if len(p.Sigs[0]) == 65 {
				p.Sigs[0] = p.Sigs[0][:64]
			} else {
				p.Sigs[0] = append(append([]byte{}, p.Sigs[0]...), 0)
			}
		case "malleate":
			p.Sigs[0] = snMalleate(p.Sigs[0])
		case "nonempty":
			p.Sigs[0] = bytes.Repeat([]byte{9}, 65)
		case "other-signer":
			other, err := resign(func(o *snSdkOpts) { o.Sign = d.key("x") })
			if err != nil {
				return nil, err
			}
			q, err := snSplit(other)
			if err != nil {
				return nil, err
			}
			p.Sigs[0] = q.Sigs[0]
		default:
			return nil, fmt.Errorf("unknown mutation")
		}
	case "signatures":
		if c.Mut == "add" {
			p.Sigs = append(p.Sigs, bytes.Repeat([]byte{5}, 65))
		} else {
			p.Sigs = nil
		}
	case "signedFor":
		switch c.Mut {
		case "typed-1", "typed-11236":
			return resign(func(o *snSdkOpts) { o.TypedChain = map[string]uint64{"typed-1": 1, "typed-11236": 11236}[c.Mut] })
		}
		return resign(func(o *snSdkOpts) { o.ChainID = c.Mut; o.TypedChain = snTypedChainOf(c.Mut, o.TypedChain) })
	case "accountNumber":
		return resign(func(o *snSdkOpts) { o.AccNum++ })
	case "typedDataChainID":
		var x uint64
		fmt.Sscan(c.Mut, &x)
		if err := editWeb3(func(w *haqqtypes.ExtensionOptionsWeb3Tx) { w.TypedDataChainID = x }); err != nil {
			return nil, err
		}
	case "web3FeePayer":
		to := map[string]string{"victim": d.key("v").Addr.String(), "attacker": d.key("x").Addr.String(), "empty": ""}[c.Mut]
		if err := editWeb3(func(w *haqqtypes.ExtensionOptionsWeb3Tx) { w.FeePayer = to }); err != nil {
			return nil, err
		}
	case "web3FeePayerSig":
		var other []byte
		if c.Mut == "other-signer" {
			ob, err := resign(func(o *snSdkOpts) { o.Sign = d.key("x") })
			if err != nil {
				return nil, err
			}
			q, err := snSplit(ob)
			if err != nil {
				return nil, err
			}
			var w haqqtypes.ExtensionOptionsWeb3Tx
			if err := w.Unmarshal(q.Body.ExtensionOptions[0].Value); err != nil {
				return nil, err
			}
			other = w.FeePayerSig
		}
		err := editWeb3(func(w *haqqtypes.ExtensionOptionsWeb3Tx) {
			switch c.Mut {
			case "flip":
				w.FeePayerSig = snFlip(w.FeePayerSig)
			case "empty":
				w.FeePayerSig = nil
			case "truncate":
				w.FeePayerSig = w.FeePayerSig[:64]
			case "v-27":
				w.FeePayerSig = append([]byte{}, w.FeePayerSig...)
				w.FeePayerSig[64] -= 27
			case "other-signer":
				w.FeePayerSig = other
			}
		})
		if err != nil {
			return nil, err
		}
	default:
		return nil, fmt.Errorf("unknown field %q", c.Field)
	}
	return p.Bytes()
}

// ---------------------------------------------------------------------------------------
// Ethereum transactions

// snEnvelope is the Cosmos envelope of Ethereum messages, every field a knob.
type snEnvelope struct {
	Msgs        []*evmtypes.MsgEthereumTx
	Fee         sdk.Coins
	Gas         uint64
	Payer       string
	Granter     string
	Memo        string
	Timeout     uint64
	Sigs        [][]byte
	SignerInfos []*txtypes.SignerInfo
	ExtOpts     []*codectypes.Any
	NonCrit     []*codectypes.Any
}

// snDefaultEnvelope is the envelope the JSON-RPC server builds (MsgEthereumTx.BuildTx): From
// empty, fee and gas the sums over the messages, the single ExtensionOptionsEthereumTx.
func snDefaultEnvelope(msgs []*evmtypes.MsgEthereumTx) *snEnvelope {
	e := &snEnvelope{Msgs: msgs, Fee: sdk.Coins{}, ExtOpts: []*codectypes.Any{snAny(&evmtypes.ExtensionOptionsEthereumTx{})}}
	for _, m := range msgs {
		m.From = ""
		e.Gas += m.GetGas()
		e.Fee = e.Fee.Add(sdk.NewCoin(utils.BaseDenom, sdkmath.NewIntFromBigInt(m.GetFee())))
	}
	return e
}

func (e *snEnvelope) Bytes() ([]byte, error) {
	body := &txtypes.TxBody{Memo: e.Memo, TimeoutHeight: e.Timeout, ExtensionOptions: e.ExtOpts, NonCriticalExtensionOptions: e.NonCrit}
	for _, m := range e.Msgs {
		body.Messages = append(body.Messages, snAny(m))
	}
	auth := &txtypes.AuthInfo{SignerInfos: e.SignerInfos, Fee: &txtypes.Fee{Amount: e.Fee, GasLimit: e.Gas, Payer: e.Payer, Granter: e.Granter}}
	bb, err := body.Marshal()
	if err != nil {
		return nil, err
	}
	ab, err := auth.Marshal()
	if err != nil {
		return nil, err
	}
	raw := txtypes.TxRaw{BodyBytes: bb, AuthInfoBytes: ab, Signatures: e.Sigs}
	return raw.Marshal()
}

func snCloneEth(m *evmtypes.MsgEthereumTx) *evmtypes.MsgEthereumTx {
	bz, err := m.Marshal()
	if err != nil {
		panic(err)
	}
	var out evmtypes.MsgEthereumTx
	if err := out.Unmarshal(bz); err != nil {
		panic(err)
	}
	if err := out.UnpackInterfaces(encCfg.InterfaceRegistry); err != nil {
		panic(err)
	}
	return &out
}

// pointers to the fields of the three transaction types
type snEthFields struct {
	legacy   bool
	nonce    *uint64
	gas      *uint64
	to       *string
	amount   **sdkmath.Int
	data     *[]byte
	v, r, s  *[]byte
	gasPrice **sdkmath.Int
	tipCap   **sdkmath.Int
	feeCap   **sdkmath.Int
	chainID  **sdkmath.Int
	accesses *evmtypes.AccessList
}

func snFieldsOf(td evmtypes.TxData) (snEthFields, error) {
	switch t := td.(type) {
	case *evmtypes.LegacyTx:
		return snEthFields{legacy: true, nonce: &t.Nonce, gas: &t.GasLimit, to: &t.To, amount: &t.Amount, data: &t.Data,
			v: &t.V, r: &t.R, s: &t.S, gasPrice: &t.GasPrice}, nil
	case *evmtypes.AccessListTx:
		return snEthFields{nonce: &t.Nonce, gas: &t.GasLimit, to: &t.To, amount: &t.Amount, data: &t.Data,
			v: &t.V, r: &t.R, s: &t.S, gasPrice: &t.GasPrice, chainID: &t.ChainID, accesses: &t.Accesses}, nil
	case *evmtypes.DynamicFeeTx:
		return snEthFields{nonce: &t.Nonce, gas: &t.GasLimit, to: &t.To, amount: &t.Amount, data: &t.Data,
			v: &t.V, r: &t.R, s: &t.S, tipCap: &t.GasTipCap, feeCap: &t.GasFeeCap, chainID: &t.ChainID, accesses: &t.Accesses}, nil
	}
	return snEthFields{}, fmt.Errorf("unknown tx data %T", td)
}

func snMutIntPtr(p **sdkmath.Int, mut string) error {
	if p == nil || *p == nil {
		return fmt.Errorf("field absent in this transaction type")
	}
	f, err := snIntMut(mut)
	if err != nil {
		return err
	}
	n := f(**p)
	*p = &n
	return nil
}

const snChainEIP155 = 11235

// snEthMutate changes one field of the signed payload or of the signature of msg (in place)
// and recomputes the derived hash, as a forger would.
func snEthMutate(d *snEnv, msg *evmtypes.MsgEthereumTx, route, field, mut string) error {
	td, err := evmtypes.UnpackTxData(msg.Data)
	if err != nil {
		return err
	}
	f, err := snFieldsOf(td)
	if err != nil {
		return err
	}
	getV := func() *big.Int { return new(big.Int).SetBytes(*f.v) }
	setV := func(v *big.Int) { *f.v = v.Bytes() }
	flipV := func() {
		v := getV()
		if f.legacy {
			if new(big.Int).Mod(new(big.Int).Sub(v, big.NewInt(35)), big.NewInt(2)).Sign() == 0 {
				v.Add(v, big.NewInt(1))
			} else {
				v.Sub(v, big.NewInt(1))
			}
		} else {
			v = big.NewInt(1 - v.Int64())
		}
		setV(v)
	}
	switch field {
	case "nonce":
		switch mut {
		case "+1":
			*f.nonce++
		case "-1":
			*f.nonce--
		case "big":
			*f.nonce += 1 << 32
		}
	case "gasPrice":
		err = snMutIntPtr(f.gasPrice, mut)
	case "tipCap":
		err = snMutIntPtr(f.tipCap, mut)
	case "feeCap":
		err = snMutIntPtr(f.feeCap, mut)
	case "gas":
		switch mut {
		case "+1":
			*f.gas++
		case "-1":
			*f.gas--
		case "x2":
			*f.gas *= 2
		}
	case "to":
		switch mut {
		case "attacker":
			*f.to = ethAddr(d.key("x")).Hex()
		case "victim":
			*f.to = ethAddr(d.key("v")).Hex()
		case "create":
			*f.to = ""
		}
	case "value":
		err = snMutIntPtr(f.amount, mut)
	case "data":
		switch mut {
		case "append":
			*f.data = append(append([]byte{}, *f.data...), 0xff)
		case "flip":
			*f.data = snFlip(*f.data)
		case "drop":
			*f.data = nil
		}
	case "accessList":
		if f.accesses == nil {
			return fmt.Errorf("no access list in this type")
		}
		switch mut {
		case "add":
			*f.accesses = append(append(evmtypes.AccessList{}, *f.accesses...), evmtypes.AccessTuple{Address: ethAddr(d.key("x")).Hex(), StorageKeys: []string{}})
		case "drop":
			*f.accesses = nil
		case "change":
			al := append(evmtypes.AccessList{}, *f.accesses...)
			al[0] = evmtypes.AccessTuple{Address: al[0].Address, StorageKeys: []string{common.BigToHash(big.NewInt(2)).Hex()}}
			*f.accesses = al
		}
	case "chainId":
		var x int64
		fmt.Sscan(mut, &x)
		if f.legacy {
			// the chain id of a legacy transaction lives in v = 35 + 2*chainId + parity
			v := getV()
			v.Add(v, big.NewInt(2*(x-snChainEIP155)))
			setV(v)
		} else {
			n := sdkmath.NewInt(x)
			*f.chainID = &n
		}
	case "v":
		switch mut {
		case "flip":
			flipV()
		case "+27":
			setV(new(big.Int).Add(getV(), big.NewInt(27)))
		case "big":
			*f.v = bytes.Repeat([]byte{0xff}, 9)
		}
	case "r", "s":
		p := f.r
		if field == "s" {
			p = f.s
		}
		switch mut {
		case "flip":
			*p = snFlip(*p)
		case "zero":
			*p = nil
		case "malleate":
			s := new(big.Int).SetBytes(*f.s)
			*f.s = new(big.Int).Sub(snCurveN, s).Bytes()
			flipV()
		}
	case "vrs":
		// the attacker's signature over a different payload, pasted in
		other := snCloneEth(msg)
		td2, _ := evmtypes.UnpackTxData(other.Data)
		f2, _ := snFieldsOf(td2)
		if err := snMutIntPtr(f2.amount, "+1"); err != nil {
			return err
		}
		if other.Data, err = evmtypes.PackTxData(td2); err != nil {
			return err
		}
		x := d.key("x")
		other.From = ethAddr(x).Hex()
		if err := other.Sign(ethtypes.LatestSignerForChainID(big.NewInt(snChainEIP155)), utiltx.NewSigner(x.Priv)); err != nil {
			return err
		}
		td3, _ := evmtypes.UnpackTxData(other.Data)
		f3, _ := snFieldsOf(td3)
		*f.v, *f.r, *f.s = *f3.v, *f3.r, *f3.s
	default:
		return fmt.Errorf("unknown eth field %q", field)
	}
	if err != nil {
		return err
	}
	if msg.Data, err = evmtypes.PackTxData(td); err != nil {
		return err
	}
	func() {
		defer func() { recover() }() // a payload go-ethereum cannot even hash keeps its old hash
		msg.Hash = msg.AsTransaction().Hash().Hex()
	}()
	return nil
}

// snEthUnprotected signs a legacy transaction the pre-EIP-155 way (v = 27/28, no chain id).
func snEthUnprotected(k Key, o EthTxOpts) (*evmtypes.MsgEthereumTx, error) {
	msg := evmtypes.NewTx(&evmtypes.EvmTxArgs{Nonce: o.Nonce, To: o.To, Amount: o.Value, GasLimit: o.Gas, Input: o.Data, GasPrice: o.GasPrice})
	msg.From = ethAddr(k).Hex()
	if err := msg.Sign(ethtypes.HomesteadSigner{}, utiltx.NewSigner(k.Priv)); err != nil {
		return nil, err
	}
	return msg, nil
}

// snEthCase returns the bytes of the mutated transaction of an Ethereum case.
func snEthCase(d *snEnv, base *evmtypes.MsgEthereumTx, c snCase, k Key, o EthTxOpts) ([]byte, error) {
	m := snCloneEth(base)
	switch c.Field {
	case "signedFor":
		var err error
		if c.Mut == "unprotected" {
			m, err = snEthUnprotected(k, o)
		} else {
			var x int64
			fmt.Sscanf(c.Mut, "chain-%d", &x)
			o2 := o
			o2.ChainID = big.NewInt(x)
			m, err = BuildEthMsg(k, o2)
		}
		if err != nil {
			return nil, err
		}
		return snDefaultEnvelope([]*evmtypes.MsgEthereumTx{m}).Bytes()
	case "msgs":
		return snDefaultEnvelope([]*evmtypes.MsgEthereumTx{m, snCloneEth(base)}).Bytes()
	}
	e := snDefaultEnvelope([]*evmtypes.MsgEthereumTx{m})
	web3 := snAny(&haqqtypes.ExtensionOptionsWeb3Tx{FeePayer: k.Addr.String(), TypedDataChainID: snChainEIP155, FeePayerSig: bytes.Repeat([]byte{7}, 65)})
	dynfee := snAny(&haqqtypes.ExtensionOptionDynamicFeeTx{MaxPriorityPrice: sdkmath.NewInt(1)})
	switch c.Field {
	case "From":
		m.From = ethAddr(d.key(map[string]string{"victim": "v", "self": "s1"}[c.Mut])).Hex()
	case "Hash":
		switch c.Mut {
		case "zero":
			m.Hash = common.Hash{}.Hex()
		case "other":
			m.Hash = common.BigToHash(big.NewInt(12345)).Hex()
		case "empty":
			m.Hash = ""
		}
	case "Size":
		m.Size_ = 1
	case "envFeeAmount":
		if c.Mut == "zero" {
			e.Fee = sdk.Coins{}
		} else {
			f, err := snIntMut(c.Mut)
			if err != nil {
				return nil, err
			}
			e.Fee = snCoinsPlus(e.Fee, f)
		}
	case "envGasLimit":
		if c.Mut == "+1" {
			e.Gas++
		} else {
			e.Gas = 0
		}
	case "envFeePayer":
		e.Payer = d.key("v").Addr.String()
	case "envFeeGranter":
		e.Granter = d.key("g").Addr.String()
	case "envMemo":
		e.Memo = "m"
	case "envTimeoutHeight":
		e.Timeout = uint64(d.n.Header.Height) + 100
	case "envSignatures":
		e.Sigs = [][]byte{bytes.Repeat([]byte{5}, 65)}
	case "envSignerInfos":
		e.SignerInfos = []*txtypes.SignerInfo{d.signerInfoOf("v", signing.SignMode_SIGN_MODE_DIRECT)}
	case "envExtensionOptions":
		switch c.Mut {
		case "drop":
			e.ExtOpts = nil
		case "dup":
			e.ExtOpts = append(e.ExtOpts, e.ExtOpts[0])
		case "to-web3":
			e.ExtOpts = []*codectypes.Any{web3}
		case "to-dynfee":
			e.ExtOpts = []*codectypes.Any{dynfee}
		}
	case "envNonCriticalExtensionOptions":
		e.NonCrit = []*codectypes.Any{dynfee}
	default:
		if err := snEthMutate(d, m, c.Route, c.Field, c.Mut); err != nil {
			return nil, err
		}
		// fee and gas of the envelope follow the (mutated) payload
		e = snDefaultEnvelope([]*evmtypes.MsgEthereumTx{m})
	}
	return e.Bytes()
}

// ---------------------------------------------------------------------------------------
// one case of the matrix

func (d *snEnv) runCase(c snCase, rep, idx int) error {
	const signer = "s1"
	// signer and victim advance in lock-step, so that "the victim's sequence differs" is never
	// the reason why a transaction naming the victim is rejected
	for d.seqOf("v") < d.seqOf(signer) {
		if err := d.filler("v"); err != nil {
			return err
		}
	}
	for d.seqOf(signer) < d.seqOf("v") {
		if err := d.filler(signer); err != nil {
			return err
		}
	}
	k, rcpt := d.key(signer), d.key("r")
	nonce := d.seqOf(signer)
	amount := big.NewInt(1000 + d.rnd.Int63n(1_000_000))
	if rep > 0 && d.rnd.Intn(3) == 0 {
		amount.Mul(amount, big.NewInt(1_000_000_000_000))
	}
	// repetitions vary the contents (payload bytes, memo, gas) as well
	data, memo, extraGas := []byte{0xde, 0xad, 0xbe, 0xef}, "m", uint64(0)
	if rep > 0 {
		data = make([]byte, 1+d.rnd.Intn(12))
		d.rnd.Read(data)
		data[0] |= 1
		memo = fmt.Sprintf("memo-%d-%d", rep, d.rnd.Intn(1000))
		extraGas = uint64(d.rnd.Intn(5000))
	}
	tx := &snTxRec{ID: fmt.Sprintf("m%d:%d:%s", rep, idx, c.Route), Signer: signer, Rcpt: "r", Amount: amount.String(),
		Nonce: nonce, NM: 1, Route: c.Route, Q: "good"}
	var orig, mutated []byte
	var err error
	if snIsEth(c.Route) {
		o := d.ethOptsF(c.Route, nonce, rcpt, amount, 40000+extraGas, data, d.n.App.EvmKeeper.ChainID(), c.Field)
		if o.Type != 0 {
			o.Access = ethtypes.AccessList{{Address: ethAddr(rcpt), StorageKeys: []common.Hash{common.BigToHash(big.NewInt(1))}}}
		}
		base, err := BuildEthMsg(k, o)
		if err != nil {
			return err
		}
		if orig, err = snDefaultEnvelope([]*evmtypes.MsgEthereumTx{snCloneEth(base)}).Bytes(); err != nil {
			return err
		}
		if mutated, err = snEthCase(d, base, c, k, o); err != nil {
			return err
		}
	} else {
		msgs := []sdk.Msg{banktypes.NewMsgSend(k.Addr, rcpt.Addr, sdk.NewCoins(sdk.NewCoin(utils.BaseDenom, sdkmath.NewIntFromBigInt(amount))))}
		o := snSdkOpts{Route: c.Route, Pub: k, Sign: k, ChainID: ChainID, AccNum: d.accNum(signer), Seq: nonce, Gas: 200000 + extraGas,
			Fee: d.fee(200000+extraGas, c.Field), Memo: memo, TypedChain: d.n.App.EvmKeeper.ChainID().Uint64()}
		if orig, err = snSignSdk(o, msgs...); err != nil {
			return err
		}
		if mutated, err = snSdkMutate(d, orig, c, &snSdkCtx{O: o, Msgs: msgs}); err != nil {
			return err
		}
	}
	if bytes.Equal(orig, mutated) {
		return fmt.Errorf("the mutation did not change the bytes")
	}
	mt := *tx
	mt.Q = "mut"
	d.submit("check", "mut", &mt, c, mutated)
	d.submit("deliver", "mut", &mt, c, mutated)
	d.submit("deliver", "orig", tx, c, orig)
	d.commit()
	return nil
}

var _ cryptotypes.PubKey

// ---------------------------------------------------------------------------------------
// Ethereum batches: one envelope, 2-3 messages, exactly one of them not authorised

// runBatchCase executes a case {route, "batch", "<offence>@<pos>/<size>:<mix>"}: route is the
// type of the offending message, mix "same" = every message signed by s1, "diff" = the offending
// one by v and the rest by s1.  The batch is internally consistent (nonces continue as if the
// offending message counted), so that only the one flaw stands in the way.  Afterwards the
// repaired batch (the offending message replaced by a valid one) is delivered: non-vacuity.
func (d *snEnv) runBatchCase(c snCase, rep, idx int) error {
	var off, mix string
	var pos, size int
	{
		var rest string
		at := -1
		for i := range c.Mut {
			if c.Mut[i] == '@' {
				at = i
			}
		}
		if at < 0 {
			return fmt.Errorf("bad batch case %q", c.Mut)
		}
		off, rest = c.Mut[:at], c.Mut[at+1:]
		if n, err := fmt.Sscanf(rest, "%d/%d:%s", &pos, &size, &mix); n < 2 {
			return fmt.Errorf("bad batch case %q: %v", c.Mut, err)
		}
	}
	if off == "revert" || off == "oog" || off == "create" {
		return d.runVmCase(c, off, pos, size, rep, idx)
	}
	offender, other := "s1", "v"
	if mix == "diff" {
		offender, other = "v", "s1"
	}
	senderAt := func(i int) string {
		if mix == "diff" && i != pos {
			return "s1"
		}
		return offender
	}
	rcpt := d.key("r")
	chain := d.n.App.EvmKeeper.ChainID()
	amountAt := func(i int) *big.Int { return big.NewInt(int64(1000*(i+1)) + d.rnd.Int63n(900)) }
	typeAt := func(i int) string {
		if i == pos || (idx+i)%2 == 0 {
			return c.Route
		}
		return "eth-dynamicfee"
	}
	none := snCase{Route: c.Route, Field: c.Field, Mut: c.Mut}

	// "replay": the very message that is executed now, alone, comes back inside the batch
	var executed *evmtypes.MsgEthereumTx
	if off == "replay" {
		k := d.key(offender)
		amt := amountAt(0)
		m, err := BuildEthMsg(k, d.ethOpts(c.Route, d.seqOf(offender), rcpt, amt, 21000, nil, chain))
		if err != nil {
			return err
		}
		executed = snCloneEth(m)
		bz, err := snDefaultEnvelope([]*evmtypes.MsgEthereumTx{m}).Bytes()
		if err != nil {
			return err
		}
		wt := &snTxRec{ID: fmt.Sprintf("b%d:%d:warm", rep, idx), Signer: offender, Rcpt: "r", Amount: amt.String(),
			Nonce: d.seqOf(offender), NM: 1, Route: c.Route, Q: "good"}
		if d.submit("deliver", "orig", wt, none, bz) != 0 {
			return fmt.Errorf("warm-up transaction rejected")
		}
		// committed, so that the CheckTx state has seen it too
		d.commit()
	}

	amounts := make([]*big.Int, size+1)
	for i := 1; i <= size; i++ {
		amounts[i] = amountAt(i)
	}
	// a stale nonce needs a sequence number that was used before
	if off == "stale" && d.seqOf(offender) == 0 {
		if err := d.filler(offender); err != nil {
			return err
		}
		d.commit()
	}
	build := func(repaired bool) ([]byte, []snPart, error) {
		next := map[string]uint64{"s1": d.seqOf("s1"), "v": d.seqOf("v")}
		var msgs []*evmtypes.MsgEthereumTx
		var parts []snPart
		fromOverride := -1
		for i := 1; i <= size; i++ {
			who := senderAt(i)
			k := d.key(who)
			o := d.ethOpts(typeAt(i), next[who], rcpt, amounts[i], 21000, nil, chain)
			var m *evmtypes.MsgEthereumTx
			var err error
			if repaired || i != pos {
				m, err = BuildEthMsg(k, o)
				next[who]++
			} else {
				switch off {
				case "unprotected":
					m, err = snEthUnprotected(k, o)
					next[who]++
				case "foreign":
					o.ChainID = big.NewInt(snForeignEth[(idx+rep)%len(snForeignEth)])
					m, err = BuildEthMsg(k, o)
					next[who]++
				case "badsig":
					if m, err = BuildEthMsg(k, o); err == nil {
						err = snEthMutate(d, m, typeAt(i), []string{"r", "s"}[idx%2], "flip")
					}
					next[who]++
				case "from-other":
					m, err = BuildEthMsg(k, o)
					fromOverride = i - 1
					next[who]++
				case "gap":
					o.Nonce = next[who] + 1
					m, err = BuildEthMsg(k, o)
					next[who] += 2
				case "stale":
					if next[who] == 0 {
						return nil, nil, fmt.Errorf("no stale nonce available")
					}
					o.Nonce = next[who] - 1
					m, err = BuildEthMsg(k, o)
				case "replay":
					m = snCloneEth(executed)
					o.Nonce = d.seqOf(who) - 1
				default:
					err = fmt.Errorf("unknown offence %q", off)
				}
			}
			if err != nil {
				return nil, nil, err
			}
			msgs = append(msgs, m)
			parts = append(parts, snPart{ID: m.Hash, Signer: who, Nonce: o.Nonce, Amount: amounts[i].String()})
		}
		e := snDefaultEnvelope(msgs)
		if fromOverride >= 0 {
			msgs[fromOverride].From = ethAddr(d.key(other)).Hex()
		}
		bz, err := e.Bytes()
		return bz, parts, err
	}
	mutated, mparts, err := build(false)
	if err != nil {
		return err
	}
	repaired, rparts, err := build(true)
	if err != nil {
		return err
	}
	if bytes.Equal(mutated, repaired) {
		return fmt.Errorf("the batch carries no flaw")
	}
	id := fmt.Sprintf("b%d:%d:%s", rep, idx, c.Route)
	mt := &snTxRec{ID: id, Signer: mparts[0].Signer, Rcpt: "r", Amount: mparts[0].Amount, Nonce: mparts[0].Nonce, NM: size,
		Route: c.Route, Q: "mut", Qpos: pos, Parts: mparts}
	rt := &snTxRec{ID: id + ":repaired", Signer: rparts[0].Signer, Rcpt: "r", Amount: rparts[0].Amount, Nonce: rparts[0].Nonce, NM: size,
		Route: c.Route, Q: "good", Parts: rparts}
	d.submit("check", "mut", mt, c, mutated)
	d.submit("deliver", "mut", mt, c, mutated)
	d.submit("deliver", "orig", rt, c, repaired)
	d.commit()
	return nil
}

// runVmCase: a batch of one sender (s1) in which every message is authorised, but the one at
// `pos` fails inside the virtual machine (kind revert / oog) or is a contract creation.  The
// batch goes through CheckTx and DeliverTx; after a commit every message is wrapped again alone
// and delivered: each is a replay of an already included transaction.
func (d *snEnv) runVmCase(c snCase, kind string, pos, size, rep, idx int) error {
	const signer = "s1"
	k, rcpt := d.key(signer), d.key("r")
	chain := d.n.App.EvmKeeper.ChainID()
	next := d.seqOf(signer)
	var msgs []*evmtypes.MsgEthereumTx
	var parts []snPart
	for i := 1; i <= size; i++ {
		route := c.Route
		if i != pos && (idx+i)%2 == 1 {
			route = "eth-dynamicfee"
		}
		amount := big.NewInt(int64(1000*i) + d.rnd.Int63n(900))
		o := d.ethOpts(route, next, rcpt, amount, 21000, nil, chain)
		if i == pos {
			o.Value = big.NewInt(0)
			amount = big.NewInt(0)
			switch kind {
			case "revert":
				o.To, o.Gas = &d.reverter, 100000
			case "oog":
				o.To, o.Gas = &d.burner, 60000
			case "create":
				o.To, o.Gas, o.Data = nil, 300000, counterInitCode(2+idx%3)
			}
		}
		m, err := BuildEthMsg(k, o)
		if err != nil {
			return err
		}
		msgs = append(msgs, m)
		parts = append(parts, snPart{ID: m.Hash, Signer: signer, Nonce: next, Amount: amount.String()})
		next++
	}
	singles := make([][]byte, size)
	for i, m := range msgs {
		bz, err := snDefaultEnvelope([]*evmtypes.MsgEthereumTx{snCloneEth(m)}).Bytes()
		if err != nil {
			return err
		}
		singles[i] = bz
	}
	batch, err := snDefaultEnvelope(msgs).Bytes()
	if err != nil {
		return err
	}
	id := fmt.Sprintf("w%d:%d:%s", rep, idx, c.Route)
	bt := &snTxRec{ID: id, Signer: signer, Rcpt: "r", Amount: parts[0].Amount, Nonce: parts[0].Nonce, NM: size, Route: c.Route,
		Q: "good", Qpos: pos, Parts: parts}
	d.submit("check", "mut", bt, c, batch)
	d.submit("deliver", "mut", bt, c, batch)
	d.commit()
	for i := range singles {
		rt := &snTxRec{ID: fmt.Sprintf("%s#%d", id, i+1), Signer: signer, Rcpt: "r", Amount: parts[i].Amount, Nonce: parts[i].Nonce,
			NM: 1, Route: c.Route, Q: "good", Qpos: i + 1, Parts: parts[i : i+1]}
		d.submit("deliver", "replay", rt, c, singles[i])
	}
	d.commit()
	return nil
}
