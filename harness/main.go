// Command hv is the conformance harness of /verif: it executes scripts (TLC-generated
// behaviours) and seeded random drivers against the real haqq code and records
// ndjson traces that the TLA+ trace specifications validate.
//
// It is compiled inside the haqq module through `go build -overlay` (see bin/setup),
// so it always links against /repo's current working tree.
package main

import (
	"fmt"
	"os"
)

type command func(args []string) error

var commands = map[string]command{}

func register(name string, c command) { commands[name] = c }

func main() {
	if len(os.Args) < 2 {
		fmt.Fprintln(os.Stderr, "usage: hv <driver> [flags]")
		os.Exit(2)
	}
	c, ok := commands[os.Args[1]]
	if !ok {
		fmt.Fprintf(os.Stderr, "hv: unknown driver %q\n", os.Args[1])
		os.Exit(2)
	}
	if err := c(os.Args[2:]); err != nil {
		fmt.Fprintf(os.Stderr, "hv %s: %v\n", os.Args[1], err)
		os.Exit(2)
	}
}
