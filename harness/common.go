package main

import (
	"bufio"
	"crypto/sha256"
	"encoding/binary"
	"encoding/json"
	"fmt"
	"math/big"
	"math/rand"
	"os"
	"time"

	sdkmath "cosmossdk.io/math"
	sdk "github.com/cosmos/cosmos-sdk/types"

	"github.com/haqq-network/haqq/app"
	"github.com/haqq-network/haqq/crypto/ethsecp256k1"
	"github.com/haqq-network/haqq/testutil"
	"github.com/haqq-network/haqq/utils"
)

const ChainID = utils.MainNetChainID + "-1"

// GenesisTime is the scripted start of every scenario (never wall-clock).
var GenesisTime = time.Date(2024, 3, 1, 12, 0, 0, 0, time.UTC)

// M is a JSON object.
type M = map[string]any

// TraceWriter writes one JSON object per line.
type TraceWriter struct {
	f *os.File
	w *bufio.Writer
	N int
}

func NewTraceWriter(path string) (*TraceWriter, error) {
	f, err := os.Create(path)
	if err != nil {
		return nil, err
	}
	return &TraceWriter{f: f, w: bufio.NewWriterSize(f, 1<<20)}, nil
}

func (t *TraceWriter) Emit(v any) {
	bz, err := json.Marshal(v)
	if err != nil {
		panic(err)
	}
	t.w.Write(bz)
	t.w.WriteByte('\n')
	t.N++
}

func (t *TraceWriter) Close() error {
	if err := t.w.Flush(); err != nil {
		return err
	}
	return t.f.Close()
}

// Key is a deterministic account.
type Key struct {
	Priv *ethsecp256k1.PrivKey
	Addr sdk.AccAddress
}

// DetKey derives a key from (seed, label): identical across runs with the same seed.
func DetKey(seed int64, label string) Key {
	var b [8]byte
	binary.BigEndian.PutUint64(b[:], uint64(seed))
	h := sha256.Sum256(append(b[:], []byte("hv-key:"+label)...))
	priv := &ethsecp256k1.PrivKey{Key: h[:]}
	return Key{Priv: priv, Addr: sdk.AccAddress(priv.PubKey().Address().Bytes())}
}

// Env is one freshly initialised in-process application with a deliver-state context.
type Env struct {
	App  *app.Haqq
	Ctx  sdk.Context
	Seed int64
	Rand *rand.Rand
}

// NewEnv builds a fresh app (InitChain with a single validator) and a context on its
// deliver state at height 1 and the scripted genesis time.
func NewEnv(seed int64) *Env {
	a, _ := app.Setup(false, nil, ChainID)
	cons := DetKey(seed, "proposer")
	header := testutil.NewHeader(1, GenesisTime, ChainID, sdk.ConsAddress(cons.Addr), nil, nil)
	ctx := a.BaseApp.NewContext(false, header)
	return &Env{App: a, Ctx: ctx, Seed: seed, Rand: rand.New(rand.NewSource(seed))}
}

// Exec runs one message the way baseapp.runMsgs does: ValidateBasic, the registered
// handler of the message service router on a cached multistore, written only on success.
func (e *Env) Exec(msg sdk.Msg) (res *sdk.Result, err error) {
	if err = msg.ValidateBasic(); err != nil {
		return nil, err
	}
	h := e.App.MsgServiceRouter().Handler(msg)
	if h == nil {
		return nil, fmt.Errorf("no handler for %T", msg)
	}
	cctx, write := e.Ctx.CacheContext()
	defer func() {
		if r := recover(); r != nil {
			res, err = nil, fmt.Errorf("panic: %v", r)
		}
	}()
	res, err = h(cctx, msg)
	if err == nil {
		write()
	}
	return res, err
}

// Fund mints coins to addr through the repository's own test helper.
func (e *Env) Fund(addr sdk.AccAddress, coins sdk.Coins) {
	if coins.IsZero() {
		return
	}
	if err := testutil.FundAccount(e.Ctx, e.App.BankKeeper, addr, coins); err != nil {
		panic(err)
	}
}

func errStr(err error) string {
	if err == nil {
		return ""
	}
	return err.Error()
}

func bigStr(i sdkmath.Int) string {
	if i.IsNil() {
		return "0"
	}
	return i.String()
}

func mustBig(s string) *big.Int {
	b, ok := new(big.Int).SetString(s, 10)
	if !ok {
		panic("bad integer " + s)
	}
	return b
}

func readJSONFile(path string, v any) error {
	bz, err := os.ReadFile(path)
	if err != nil {
		return err
	}
	return json.Unmarshal(bz, v)
}
