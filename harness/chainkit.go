package main

// chainkit: a real haqq application driven through ABCI (InitChain / BeginBlock / DeliverTx /
// EndBlock / Commit) on a database the harness owns, with a deterministic genesis, several
// validators with real consensus keys, restart on the same database, and transaction builders
// for signed Cosmos and Ethereum transactions.  Shared by the Chain, SigNonce, EvmFees and
// EvmCosmos drivers.

import (
	tmversion "github.com/cometbft/cometbft/version"
	tmtypes "github.com/cometbft/cometbft/types"
	"bytes"
	"crypto/sha256"
	"encoding/hex"
	"encoding/json"
	"fmt"
	"math/big"
	"sort"
	"strings"
	"time"

	sdkmath "cosmossdk.io/math"
	dbm "github.com/cometbft/cometbft-db"
	abci "github.com/cometbft/cometbft/abci/types"
	"github.com/cometbft/cometbft/libs/log"
	tmproto "github.com/cometbft/cometbft/proto/tendermint/types"
	"github.com/cosmos/cosmos-sdk/baseapp"
	"github.com/cosmos/cosmos-sdk/client"
	clienttx "github.com/cosmos/cosmos-sdk/client/tx"
	codectypes "github.com/cosmos/cosmos-sdk/codec/types"
	cryptocodec "github.com/cosmos/cosmos-sdk/crypto/codec"
	"github.com/cosmos/cosmos-sdk/crypto/keys/ed25519"
	cryptotypes "github.com/cosmos/cosmos-sdk/crypto/types"
	simtestutil "github.com/cosmos/cosmos-sdk/testutil/sims"
	sdk "github.com/cosmos/cosmos-sdk/types"
	"github.com/cosmos/cosmos-sdk/types/tx/signing"
	authsigning "github.com/cosmos/cosmos-sdk/x/auth/signing"
	authtx "github.com/cosmos/cosmos-sdk/x/auth/tx"
	authtypes "github.com/cosmos/cosmos-sdk/x/auth/types"
	banktypes "github.com/cosmos/cosmos-sdk/x/bank/types"
	govtypesv1 "github.com/cosmos/cosmos-sdk/x/gov/types/v1"
	slashingtypes "github.com/cosmos/cosmos-sdk/x/slashing/types"
	stakingtypes "github.com/cosmos/cosmos-sdk/x/staking/types"
	"github.com/ethereum/go-ethereum/common"
	ethtypes "github.com/ethereum/go-ethereum/core/types"
	ethcrypto "github.com/ethereum/go-ethereum/crypto"

	"github.com/haqq-network/haqq/app"
	v176 "github.com/haqq-network/haqq/app/upgrades/v1.7.6"
	"github.com/haqq-network/haqq/encoding"
	utiltx "github.com/haqq-network/haqq/testutil/tx"
	haqqtypes "github.com/haqq-network/haqq/types"
	"github.com/haqq-network/haqq/utils"
	coinomicstypes "github.com/haqq-network/haqq/x/coinomics/types"
	evmtypes "github.com/haqq-network/haqq/x/evm/types"
	epochstypes "github.com/haqq-network/haqq/x/epochs/types"
	feemarkettypes "github.com/haqq-network/haqq/x/feemarket/types"
)

// ValKey is a validator: operator account key + consensus key.
type ValKey struct {
	Oper Key
	Cons *ed25519.PrivKey
}

func (v ValKey) ConsAddr() sdk.ConsAddress { return sdk.ConsAddress(v.Cons.PubKey().Address()) }
func (v ValKey) ValAddr() sdk.ValAddress   { return sdk.ValAddress(v.Oper.Addr) }

func detBytes(seed int64, label string) []byte {
	h := sha256.Sum256([]byte(fmt.Sprintf("hv:%d:%s", seed, label)))
	return h[:]
}

// GenesisCfg describes the deterministic genesis of a scenario.
type GenesisCfg struct {
	Seed        int64  `json:"seed"`
	NAccts      int    `json:"naccts"`
	NVals       int    `json:"nvals"`
	AcctBalance string `json:"acctBalance"` // aISLM per account
	ValStake    string `json:"valStake"`    // self-delegation per validator
	BaseFee     string `json:"baseFee"`
	MinGasPrice string `json:"minGasPrice"` // decimal
	MaxGas      int64  `json:"maxGas"`
	NoBaseFee   bool   `json:"noBaseFee"`
	Coinomics   bool   `json:"coinomics"`
	VotingSecs  int64  `json:"votingSecs"`
	// NoPrecompiles starts the chain with only one active EVM extension (as a chain before the v1.8.0 upgrade)
	NoPrecompiles bool `json:"noPrecompiles"`
	// Loopback: block 1 opens an ICS-20 channel transfer/channel-0 <-> transfer/channel-1 over the localhost connection
	Loopback bool `json:"loopback"`
	// GenesisTime (RFC 3339) replaces the default scripted start of the scenario
	GenesisTime string `json:"genesisTime"`
	// HistoricalEntries of x/staking (0: the default); a small value prunes the header history BLOCKHASH is served from
	HistoricalEntries uint32 `json:"historicalEntries"`
	// FutureEpoch (RFC 3339): a further registered epoch that has not started and whose start lies in the chain's future
	FutureEpoch string `json:"futureEpoch"`
}

func DefaultGenesisCfg(seed int64) GenesisCfg {
	return GenesisCfg{Seed: seed, NAccts: 6, NVals: 3, AcctBalance: "1000000000000000000000000",
		ValStake: "1000000000000000000000", BaseFee: "1000000000", MinGasPrice: "0", MaxGas: 40_000_000,
		Coinomics: true, VotingSecs: 20}
}

// World is what a genesis defines outside the app: keys.
type World struct {
	Cfg   GenesisCfg
	Accts []Key
	Vals  []ValKey
	Names map[string]string // bech32 / hex address -> symbolic name
}

func NewWorld(cfg GenesisCfg) *World {
	w := &World{Cfg: cfg, Names: map[string]string{}}
	for i := 0; i < cfg.NAccts; i++ {
		k := DetKey(cfg.Seed, fmt.Sprintf("acct%d", i+1))
		w.Accts = append(w.Accts, k)
		w.Names[k.Addr.String()] = fmt.Sprintf("a%d", i+1)
	}
	for i := 0; i < cfg.NVals; i++ {
		k := DetKey(cfg.Seed, fmt.Sprintf("val%d", i+1))
		cons := ed25519.GenPrivKeyFromSecret(detBytes(cfg.Seed, fmt.Sprintf("cons%d", i+1)))
		w.Vals = append(w.Vals, ValKey{Oper: k, Cons: cons})
		w.Names[k.Addr.String()] = fmt.Sprintf("v%d", i+1)
	}
	// the v1.7.6 upgrade handler processes the accounts whose address hash is on its list (mainnet accounts nobody
	// here holds a key of): the scenario account "w176" is put on the list so that histories can run that handler
	// on an account with delegations (key of the list: upper-case hex SHA-256 of the lower-case 0x address)
	wk := DetKey(cfg.Seed, "w176")
	wh := sha256.Sum256([]byte(strings.ToLower(common.BytesToAddress(wk.Addr.Bytes()).Hex())))
	v176.WhiteListedAccounts[strings.ToUpper(hex.EncodeToString(wh[:]))] = true
	return w
}

func (w *World) Acct(name string) Key {
	var i int
	if _, err := fmt.Sscanf(name, "a%d", &i); err == nil && i >= 1 && i <= len(w.Accts) {
		return w.Accts[i-1]
	}
	if _, err := fmt.Sscanf(name, "v%d", &i); err == nil && i >= 1 && i <= len(w.Vals) {
		return w.Vals[i-1].Oper
	}
	// any other label is a fresh deterministic key (unfunded)
	return DetKey(w.Cfg.Seed, name)
}

func ethAddr(k Key) common.Address { return common.BytesToAddress(k.Addr.Bytes()) }

var encCfg = encoding.MakeConfig(app.ModuleBasics)

// GenesisState builds the app state JSON for the world.
func (w *World) GenesisState() (map[string]json.RawMessage, []abci.ValidatorUpdate) {
	cdc := encCfg.Codec
	gs := app.NewDefaultGenesisState()
	cfg := w.Cfg

	var genAccs []authtypes.GenesisAccount
	var balances []banktypes.Balance
	supply := sdk.NewCoins()
	acctBal, _ := sdkmath.NewIntFromString(cfg.AcctBalance)
	emptyHash := common.BytesToHash(ethcrypto.Keccak256(nil)).String()
	addAcc := func(k Key, amt sdkmath.Int) {
		genAccs = append(genAccs, &haqqtypes.EthAccount{
			BaseAccount: authtypes.NewBaseAccount(k.Addr, nil, 0, 0), CodeHash: emptyHash})
		// a second denomination in every account (multi-denomination deposits, fees that are refused, ...)
		c := sdk.NewCoins(sdk.NewCoin(utils.BaseDenom, amt), sdk.NewCoin("utest", sdkmath.NewInt(1_000_000_000)))
		balances = append(balances, banktypes.Balance{Address: k.Addr.String(), Coins: c})
		supply = supply.Add(c...)
	}
	for _, k := range w.Accts {
		addAcc(k, acctBal)
	}
	stake, _ := sdkmath.NewIntFromString(cfg.ValStake)
	var validators []stakingtypes.Validator
	var delegations []stakingtypes.Delegation
	var signInfos []slashingtypes.SigningInfo
	var updates []abci.ValidatorUpdate
	bonded := sdkmath.ZeroInt()
	for _, v := range w.Vals {
		addAcc(v.Oper, acctBal)
		pkAny, err := codectypes.NewAnyWithValue(v.Cons.PubKey())
		if err != nil {
			panic(err)
		}
		validators = append(validators, stakingtypes.Validator{
			OperatorAddress: v.ValAddr().String(), ConsensusPubkey: pkAny, Status: stakingtypes.Bonded,
			Tokens: stake, DelegatorShares: sdkmath.LegacyNewDecFromInt(stake),
			Description:       stakingtypes.Description{Moniker: w.Names[v.Oper.Addr.String()]},
			UnbondingTime:     time.Unix(0, 0).UTC(),
			Commission:        stakingtypes.NewCommission(sdkmath.LegacyNewDecWithPrec(5, 2), sdkmath.LegacyNewDecWithPrec(20, 2), sdkmath.LegacyNewDecWithPrec(1, 2)),
			MinSelfDelegation: sdkmath.OneInt(),
		})
		delegations = append(delegations, stakingtypes.NewDelegation(v.Oper.Addr, v.ValAddr(), sdkmath.LegacyNewDecFromInt(stake)))
		signInfos = append(signInfos, slashingtypes.SigningInfo{Address: v.ConsAddr().String(),
			ValidatorSigningInfo: slashingtypes.ValidatorSigningInfo{Address: v.ConsAddr().String()}})
		bonded = bonded.Add(stake)
		tmPk, err := cryptocodec.ToTmProtoPublicKey(v.Cons.PubKey())
		if err != nil {
			panic(err)
		}
		updates = append(updates, abci.ValidatorUpdate{PubKey: tmPk, Power: stake.Quo(sdk.DefaultPowerReduction).Int64()})
	}
	balances = append(balances, banktypes.Balance{
		Address: authtypes.NewModuleAddress(stakingtypes.BondedPoolName).String(),
		Coins:   sdk.NewCoins(sdk.NewCoin(utils.BaseDenom, bonded))})
	supply = supply.Add(sdk.NewCoin(utils.BaseDenom, bonded))

	gs[authtypes.ModuleName] = cdc.MustMarshalJSON(authtypes.NewGenesisState(authtypes.DefaultParams(), genAccs))
	gs[banktypes.ModuleName] = cdc.MustMarshalJSON(banktypes.NewGenesisState(banktypes.DefaultGenesisState().Params, balances, supply, []banktypes.Metadata{}, []banktypes.SendEnabled{}))

	sp := stakingtypes.DefaultParams()
	if cfg.HistoricalEntries > 0 {
		sp.HistoricalEntries = cfg.HistoricalEntries
	}
	sp.BondDenom = utils.BaseDenom
	sp.UnbondingTime = 60 * time.Second
	sp.MaxValidators = 5
	gs[stakingtypes.ModuleName] = cdc.MustMarshalJSON(stakingtypes.NewGenesisState(sp, validators, delegations))

	sl := slashingtypes.DefaultGenesisState()
	sl.Params.SignedBlocksWindow = 6
	sl.Params.MinSignedPerWindow = sdkmath.LegacyNewDecWithPrec(5, 1)
	sl.Params.DowntimeJailDuration = 10 * time.Second
	sl.SigningInfos = signInfos
	gs[slashingtypes.ModuleName] = cdc.MustMarshalJSON(sl)

	if cfg.FutureEpoch != "" {
		if st, err := time.Parse(time.RFC3339, cfg.FutureEpoch); err == nil {
			var eg epochstypes.GenesisState
			cdc.MustUnmarshalJSON(gs[epochstypes.ModuleName], &eg)
			eg.Epochs = append(eg.Epochs, epochstypes.EpochInfo{Identifier: "later", StartTime: st.UTC(), Duration: time.Hour,
				CurrentEpoch: 0, CurrentEpochStartHeight: 0, CurrentEpochStartTime: time.Time{}, EpochCountingStarted: false})
			gs[epochstypes.ModuleName] = cdc.MustMarshalJSON(&eg)
		}
	}

	fm := feemarkettypes.DefaultGenesisState()
	fm.Params.NoBaseFee = cfg.NoBaseFee
	bf, _ := sdkmath.NewIntFromString(cfg.BaseFee)
	fm.Params.BaseFee = bf
	fm.Params.MinGasPrice = sdkmath.LegacyMustNewDecFromStr(cfg.MinGasPrice)
	fm.Params.MinGasMultiplier = sdkmath.LegacyNewDecWithPrec(5, 1)
	gs[feemarkettypes.ModuleName] = cdc.MustMarshalJSON(fm)

	if cfg.NoPrecompiles {
		var eg evmtypes.GenesisState
		cdc.MustUnmarshalJSON(gs[evmtypes.ModuleName], &eg)
		eg.Params.ActivePrecompiles = evmtypes.AvailableEVMExtensions[:1] // only the first extension (as on a chain before the upgrade)
		gs[evmtypes.ModuleName] = cdc.MustMarshalJSON(&eg)
	}

	var gov govtypesv1.GenesisState
	cdc.MustUnmarshalJSON(gs["gov"], &gov)
	vp := time.Duration(cfg.VotingSecs) * time.Second
	gov.Params.VotingPeriod = &vp
	gov.Params.MaxDepositPeriod = &vp
	gov.Params.MinDeposit = sdk.NewCoins(sdk.NewCoin(utils.BaseDenom, sdkmath.NewInt(1000)))
	gs["gov"] = cdc.MustMarshalJSON(&gov)

	var co coinomicstypes.GenesisState
	cdc.MustUnmarshalJSON(gs[coinomicstypes.ModuleName], &co)
	co.Params.EnableCoinomics = cfg.Coinomics
	gs[coinomicstypes.ModuleName] = cdc.MustMarshalJSON(&co)

	// crisis / mint-like modules whose default denom is "stake"
	for _, mod := range []string{"crisis"} {
		if raw, ok := gs[mod]; ok {
			gs[mod] = json.RawMessage(bytes.ReplaceAll(raw, []byte(`"stake"`), []byte(`"`+utils.BaseDenom+`"`)))
		}
	}
	return gs, updates
}

// Node is one replica: an app object on a database.
type Node struct {
	W        *World
	DB       dbm.DB
	App      *app.Haqq
	Height   int64 // last committed height
	Time     time.Time
	LastHash []byte
	Header   tmproto.Header // header of the block in progress
	opened   int
	LastReq  abci.RequestBeginBlock
	Probe   *common.Address // environment-reading contract (deploy_probe)
	Agent   *common.Address // contract through which accounts reach the staking precompile (deploy_agent)
	Sprayer  *common.Address // contract that pays 1 unit to eight fresh low addresses (scenario state)
	BetweenBlocks bool
	imported *Node // a chain started from this node's exported genesis (C19), if any
}

// NodeLocal are node-local settings (app.toml / flags) that must never influence committed state.
var NodeLocal = map[string]interface{}{}

func openApp(db dbm.DB) *app.Haqq {
	opts := simtestutil.AppOptionsMap{"home": app.DefaultNodeHome}
	for k, v := range NodeLocal {
		opts[k] = v
	}
	return app.NewHaqq(log.NewNopLogger(), db, nil, true, map[int64]bool{}, app.DefaultNodeHome, 0,
		encoding.MakeConfig(app.ModuleBasics), opts, baseapp.SetChainID(ChainID))
}

// ConsensusParams used by every scenario.
func (w *World) ConsensusParams() *tmproto.ConsensusParams {
	cp := *app.DefaultConsensusParams
	blk := *cp.Block
	blk.MaxGas = w.Cfg.MaxGas
	cp.Block = &blk
	return &cp
}

// NewNode creates the app on db and runs InitChain with the world's genesis.
func NewNode(w *World, db dbm.DB) *Node {
	n := &Node{W: w, DB: db, App: openApp(db), Time: GenesisTime}
	gs, vals := w.GenesisState()
	stateBytes, err := json.Marshal(gs)
	if err != nil {
		panic(err)
	}
	_ = vals
	n.App.InitChain(abci.RequestInitChain{ChainId: ChainID, Time: GenesisTime, Validators: []abci.ValidatorUpdate{},
		ConsensusParams: w.ConsensusParams(), AppStateBytes: stateBytes, InitialHeight: 1})
	return n
}

// Restart closes nothing (MemDB) but throws the app object away and constructs a new one on
// the same database, exactly as a node start does.
func (n *Node) Restart() abci.ResponseInfo {
	n.App = openApp(n.DB)
	n.opened++
	return n.App.Info(abci.RequestInfo{})
}

// BlockIn is the consensus input of one block.
type BlockIn struct {
	DtMs     int64    `json:"dtMs"`     // time since previous block
	Proposer int      `json:"proposer"` // validator index
	Absent   []int    `json:"absent"`   // validators that did not sign the last block
	Evidence []int    `json:"evidence"` // validators double-signing (evidence of height-1)
	Txs      []string `json:"txs"`      // hex tx bytes
}

func (n *Node) BeginBlock(b BlockIn) abci.ResponseBeginBlock {
	n.Time = n.Time.Add(time.Duration(b.DtMs) * time.Millisecond)
	h := n.Height + 1
	prop := n.W.Vals[b.Proposer%len(n.W.Vals)]
	n.Header = tmproto.Header{ChainID: ChainID, Height: h, Time: n.Time, ProposerAddress: prop.ConsAddr(),
		AppHash: n.LastHash}
	absent := map[int]bool{}
	for _, i := range b.Absent {
		absent[i] = true
	}
	var votes []abci.VoteInfo
	ctx := n.App.BaseApp.NewContext(true, tmproto.Header{Height: n.Height})
	// consensus needs a validator with power to produce the block at all: the scripted faults (absence, double
	// signing) never reach the last validator that is still bonded and unharmed in this block
	unharmed := 0
	for _, v := range n.W.Vals {
		if val, found := n.App.StakingKeeper.GetValidatorByConsAddr(ctx, v.ConsAddr()); found && val.IsBonded() && val.ConsensusPower(sdk.DefaultPowerReduction) >= 1 {
			unharmed++
		}
	}
	harmed := map[int]bool{}
	mayHarm := func(i int) bool {
		i = i % len(n.W.Vals)
		if harmed[i] {
			return true
		}
		val, found := n.App.StakingKeeper.GetValidatorByConsAddr(ctx, n.W.Vals[i].ConsAddr())
		if !found || !val.IsBonded() || val.ConsensusPower(sdk.DefaultPowerReduction) < 1 {
			return true
		}
		if unharmed <= 1 {
			return false
		}
		unharmed--
		harmed[i] = true
		return true
	}
	for _, i := range b.Evidence {
		if !mayHarm(i) {
			harmed[-1-i%len(n.W.Vals)] = true
		}
	}
	for i := range absent {
		if !mayHarm(i) {
			delete(absent, i)
		}
	}
	if n.Height >= 1 {
		for i, v := range n.W.Vals {
			val, found := n.App.StakingKeeper.GetValidatorByConsAddr(ctx, v.ConsAddr())
			if !found || !val.IsBonded() {
				continue
			}
			votes = append(votes, abci.VoteInfo{Validator: abci.Validator{Address: v.ConsAddr(),
				Power: val.ConsensusPower(sdk.DefaultPowerReduction)}, SignedLastBlock: !absent[i]})
		}
	}
	var byz []abci.Misbehavior
	for _, i := range b.Evidence {
		v := n.W.Vals[i%len(n.W.Vals)]
		val, found := n.App.StakingKeeper.GetValidatorByConsAddr(ctx, v.ConsAddr())
		// (consensus only reports misbehaviour of validators that had voting power)
		if !found || val.ConsensusPower(sdk.DefaultPowerReduction) < 1 || harmed[-1-i%len(n.W.Vals)] {
			continue
		}
		byz = append(byz, abci.Misbehavior{Type: abci.MisbehaviorType_DUPLICATE_VOTE,
			Validator: abci.Validator{Address: v.ConsAddr(), Power: val.ConsensusPower(sdk.DefaultPowerReduction)},
			Height:    n.Height, Time: n.Time.Add(-time.Second), TotalVotingPower: 0})
	}
	// a complete header, so that its hash (what BLOCKHASH answers, from the context for the current block and from
	// x/staking's historical info for earlier ones) is defined as on a real chain
	vh := sha256.Sum256([]byte("hv-validators"))
	n.Header.Version.Block = tmversion.BlockProtocol
	n.Header.ValidatorsHash = vh[:]
	n.Header.NextValidatorsHash = vh[:]
	var hash []byte
	if hdr, err := tmtypes.HeaderFromProto(&n.Header); err == nil {
		hash = hdr.Hash()
	}
	n.LastReq = abci.RequestBeginBlock{Hash: hash, Header: n.Header, LastCommitInfo: abci.CommitInfo{Votes: votes}, ByzantineValidators: byz}
	res := n.App.BeginBlock(n.LastReq)
	if n.W.Cfg.Loopback && h == 1 {
		OpenLoopbackChannel(n)
	}
	return res
}

// BeginBlockWith starts the block with a request built by another replica of the same chain
// (same consensus input), e.g. for a chain that was just initialised from an exported genesis.
func (n *Node) BeginBlockWith(req abci.RequestBeginBlock) abci.ResponseBeginBlock {
	n.Time = req.Header.Time
	n.Header = req.Header
	n.LastReq = req
	return n.App.BeginBlock(req)
}

// Ctx is a context on the deliver state of the block in progress.
func (n *Node) Ctx() sdk.Context {
	// (between blocks - transactions built for the mempool - there is no deliver state: the check state)
	return n.App.BaseApp.NewContext(n.BetweenBlocks, n.Header)
}

func (n *Node) Deliver(tx []byte) abci.ResponseDeliverTx {
	return n.App.DeliverTx(abci.RequestDeliverTx{Tx: tx})
}

func (n *Node) EndBlock() abci.ResponseEndBlock {
	return n.App.EndBlock(abci.RequestEndBlock{Height: n.Header.Height})
}

func (n *Node) Commit() []byte {
	res := n.App.Commit()
	n.Height = n.Header.Height
	n.LastHash = res.Data
	return res.Data
}

// ---------------------------------------------------------------------------------------
// result digests

func hexs(b []byte) string { return hex.EncodeToString(b) }

func digest(parts ...[]byte) string {
	h := sha256.New()
	for _, p := range parts {
		var l [8]byte
		big.NewInt(int64(len(p))).FillBytes(l[:])
		h.Write(l[:])
		h.Write(p)
	}
	return hexs(h.Sum(nil))[:24]
}

func eventsDigest(evs []abci.Event) string {
	h := sha256.New()
	for _, e := range evs {
		h.Write([]byte(e.Type))
		h.Write([]byte{0})
		for _, a := range e.Attributes {
			h.Write([]byte(a.Key))
			h.Write([]byte{1})
			h.Write([]byte(a.Value))
			h.Write([]byte{2})
		}
	}
	return hexs(h.Sum(nil))[:24]
}

// TxResult is the deterministic part of a DeliverTx response.
func TxResult(r abci.ResponseDeliverTx) M {
	return M{"code": int(r.Code), "codespace": r.Codespace, "gasUsed": fmt.Sprint(r.GasUsed),
		"gasWanted": fmt.Sprint(r.GasWanted), "data": digest(r.Data), "events": eventsDigest(r.Events)}
}

func ValUpdates(us []abci.ValidatorUpdate) []any {
	out := []any{}
	for _, u := range us {
		bz, _ := u.PubKey.Marshal()
		out = append(out, M{"pk": hexs(bz)[:16], "power": fmt.Sprint(u.Power)})
	}
	return out
}

// ---------------------------------------------------------------------------------------
// transaction builders

var txConfig client.TxConfig = encCfg.TxConfig

// CosmosTxOpts are the knobs of a signed Cosmos transaction.
type CosmosTxOpts struct {
	Gas      uint64
	Fee      sdk.Coins
	Memo     string
	ChainID  string
	AccNum   uint64
	Seq      uint64
	SignMode signing.SignMode
	Timeout  uint64
	Granter  sdk.AccAddress
	Payer    sdk.AccAddress
}

// BuildCosmosTx signs msgs with priv (single signer).
func BuildCosmosTx(priv cryptotypes.PrivKey, o CosmosTxOpts, msgs ...sdk.Msg) (authsigning.Tx, []byte, error) {
	b := txConfig.NewTxBuilder()
	if err := b.SetMsgs(msgs...); err != nil {
		return nil, nil, err
	}
	b.SetGasLimit(o.Gas)
	b.SetFeeAmount(o.Fee)
	b.SetMemo(o.Memo)
	b.SetTimeoutHeight(o.Timeout)
	if o.Granter != nil {
		b.SetFeeGranter(o.Granter)
	}
	if o.Payer != nil {
		b.SetFeePayer(o.Payer)
	}
	mode := o.SignMode
	if mode == signing.SignMode_SIGN_MODE_UNSPECIFIED {
		mode = signing.SignMode_SIGN_MODE_DIRECT
	}
	sig := signing.SignatureV2{PubKey: priv.PubKey(), Data: &signing.SingleSignatureData{SignMode: mode}, Sequence: o.Seq}
	if err := b.SetSignatures(sig); err != nil {
		return nil, nil, err
	}
	sd := authsigning.SignerData{ChainID: o.ChainID, AccountNumber: o.AccNum, Sequence: o.Seq,
		Address: sdk.AccAddress(priv.PubKey().Address()).String(), PubKey: priv.PubKey()}
	sig, err := clienttx.SignWithPrivKey(mode, sd, b, priv, txConfig, o.Seq)
	if err != nil {
		return nil, nil, err
	}
	if err := b.SetSignatures(sig); err != nil {
		return nil, nil, err
	}
	bz, err := txConfig.TxEncoder()(b.GetTx())
	return b.GetTx(), bz, err
}

// CosmosTxFor fills account number and sequence from the node's deliver state.
func (n *Node) CosmosTxFor(k Key, gas uint64, gasPrice *big.Int, msgs ...sdk.Msg) ([]byte, error) {
	ctx := n.Ctx()
	acc := n.App.AccountKeeper.GetAccount(ctx, k.Addr)
	if acc == nil {
		return nil, fmt.Errorf("no account %s", k.Addr)
	}
	fee := sdk.NewCoins(sdk.NewCoin(utils.BaseDenom, sdkmath.NewIntFromBigInt(new(big.Int).Mul(gasPrice, new(big.Int).SetUint64(gas)))))
	_, bz, err := BuildCosmosTx(k.Priv, CosmosTxOpts{Gas: gas, Fee: fee, ChainID: ChainID, AccNum: acc.GetAccountNumber(),
		Seq: acc.GetSequence()}, msgs...)
	return bz, err
}

// EthTxOpts describes an Ethereum transaction.
type EthTxOpts struct {
	Type     int // 0 legacy, 1 access list, 2 dynamic fee
	Nonce    uint64
	To       *common.Address
	Value    *big.Int
	Gas      uint64
	GasPrice *big.Int // legacy / access list
	FeeCap   *big.Int
	TipCap   *big.Int
	Data     []byte
	Access   ethtypes.AccessList
	ChainID  *big.Int
	// a legacy transaction signed without chain id (pre-EIP-155)
	Unprotected bool
}

// BuildEthMsg creates and signs a MsgEthereumTx.
func BuildEthMsg(k Key, o EthTxOpts) (*evmtypes.MsgEthereumTx, error) {
	args := &evmtypes.EvmTxArgs{Nonce: o.Nonce, To: o.To, Amount: o.Value, GasLimit: o.Gas, Input: o.Data, ChainID: o.ChainID}
	switch o.Type {
	case 0:
		args.GasPrice = o.GasPrice
	case 1:
		args.GasPrice = o.GasPrice
		al := o.Access
		if al == nil {
			al = ethtypes.AccessList{}
		}
		args.Accesses = &al
	case 2:
		args.GasFeeCap = o.FeeCap
		args.GasTipCap = o.TipCap
		al := o.Access
		if al == nil {
			al = ethtypes.AccessList{}
		}
		args.Accesses = &al
	}
	msg := evmtypes.NewTx(args)
	msg.From = ethAddr(k).Hex()
	signer := ethtypes.LatestSignerForChainID(o.ChainID)
	if o.Unprotected {
		signer = ethtypes.HomesteadSigner{}
	}
	if err := msg.Sign(signer, utiltx.NewSigner(k.Priv)); err != nil {
		return nil, err
	}
	return msg, nil
}

// WrapEthMsgs builds the Cosmos envelope of Ethereum messages as the JSON-RPC server does.
func WrapEthMsgs(msgs ...*evmtypes.MsgEthereumTx) ([]byte, error) {
	b := txConfig.NewTxBuilder()
	fee := sdk.Coins{}
	gas := uint64(0)
	sdkMsgs := make([]sdk.Msg, 0, len(msgs))
	for _, m := range msgs {
		m.From = ""
		gas += m.GetGas()
		fee = fee.Add(sdk.NewCoin(utils.BaseDenom, sdkmath.NewIntFromBigInt(m.GetFee())))
		sdkMsgs = append(sdkMsgs, m)
	}
	if err := b.SetMsgs(sdkMsgs...); err != nil {
		return nil, err
	}
	opt, err := codectypes.NewAnyWithValue(&evmtypes.ExtensionOptionsEthereumTx{})
	if err != nil {
		return nil, err
	}
	b.(authtx.ExtensionOptionsTxBuilder).SetExtensionOptions(opt)
	b.SetGasLimit(gas)
	b.SetFeeAmount(fee)
	return txConfig.TxEncoder()(b.GetTx())
}

// EthTxFor builds a dynamic-fee transaction with nonce and fee cap from the deliver state.
func (n *Node) EthTxFor(k Key, to *common.Address, value *big.Int, gas uint64, data []byte) ([]byte, *evmtypes.MsgEthereumTx, error) {
	ctx := n.Ctx()
	nonce := n.App.EvmKeeper.GetNonce(ctx, ethAddr(k))
	base := n.App.FeeMarketKeeper.GetBaseFee(ctx)
	if base == nil {
		base = big.NewInt(0)
	}
	cap := new(big.Int).Add(new(big.Int).Mul(base, big.NewInt(2)), big.NewInt(1_000_000_000))
	msg, err := BuildEthMsg(k, EthTxOpts{Type: 2, Nonce: nonce, To: to, Value: value, Gas: gas, FeeCap: cap,
		TipCap: big.NewInt(1), Data: data, ChainID: n.App.EvmKeeper.ChainID()})
	if err != nil {
		return nil, nil, err
	}
	bz, err := WrapEthMsgs(msg)
	return bz, msg, err
}

// sortedKeys returns the sorted keys of a map[string]T.
func sortedKeys[T any](m map[string]T) []string {
	ks := make([]string, 0, len(m))
	for k := range m {
		ks = append(ks, k)
	}
	sort.Strings(ks)
	return ks
}
