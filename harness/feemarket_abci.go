package main

import (
	"encoding/json"
	"fmt"
	"math/big"
	"math/rand"
	"time"

	sdkmath "cosmossdk.io/math"
	dbm "github.com/cometbft/cometbft-db"
	abci "github.com/cometbft/cometbft/abci/types"
	cmted25519 "github.com/cometbft/cometbft/crypto/ed25519"
	tmproto "github.com/cometbft/cometbft/proto/tendermint/types"
	tmtypes "github.com/cometbft/cometbft/types"
	clienttx "github.com/cosmos/cosmos-sdk/client/tx"
	"github.com/cosmos/cosmos-sdk/codec"
	codectypes "github.com/cosmos/cosmos-sdk/codec/types"
	"github.com/cosmos/cosmos-sdk/crypto/keys/secp256k1"
	sdk "github.com/cosmos/cosmos-sdk/types"
	"github.com/cosmos/cosmos-sdk/types/tx/signing"
	"github.com/cosmos/cosmos-sdk/x/auth/migrations/legacytx"
	authsigning "github.com/cosmos/cosmos-sdk/x/auth/signing"
	authtx "github.com/cosmos/cosmos-sdk/x/auth/tx"
	authtypes "github.com/cosmos/cosmos-sdk/x/auth/types"
	banktypes "github.com/cosmos/cosmos-sdk/x/bank/types"
	"github.com/ethereum/go-ethereum/common"
	ethcrypto "github.com/ethereum/go-ethereum/crypto"
	"github.com/ethereum/go-ethereum/signer/core/apitypes"

	"github.com/haqq-network/haqq/app"
	"github.com/haqq-network/haqq/ethereum/eip712"
	utiltx "github.com/haqq-network/haqq/testutil/tx"
	haqqtypes "github.com/haqq-network/haqq/types"
	"github.com/haqq-network/haqq/utils"
	feemarkettypes "github.com/haqq-network/haqq/x/feemarket/types"
)

// Block sequences of specs/FeeMarket.tla at the level of the application's ABCI interface
// (cfg.abci = true): a fresh application per sequence, InitChain with the sequence's fee market
// genesis and consensus parameters, then per block the real BeginBlock (all begin blockers in the
// application's order: x/upgrade before x/feemarket), DeliverTx of real signed transactions of every
// kind the ante handler routes (the "ante" event with args.kind), the real EndBlock and Commit.
//   kind cosmos         bank MsgSend, SIGN_MODE_DIRECT
//        cosmos-dynfee  the same with ExtensionOptionDynamicFeeTx
//        eip712-legacy  the same signed as EIP-712 typed data, ExtensionOptionsWeb3Tx (legacy EIP-712 chain)
//        eth            MsgEthereumTx value transfer in the Ethereum envelope
// "ok" of a transaction = it passed the ante handler (the sender's sequence advanced: the ante handler's
// writes are kept even when a message fails afterwards).  The gas used of a block is observed: the sum of
// the gas used every DeliverTx reports (capped at the transaction's own limit: what baseapp consumes on the
// block gas meter), capped at the limit of a finite block meter.  Events, state record and projection are those of the keeper-level sequences.

var fmaValKey = cmted25519.GenPrivKeyFromSecret([]byte("hv-feemarket-validator"))

func fmaGenesis(a *app.Haqq, feemarketGenesis json.RawMessage, funded ...Key) []byte {
	val := tmtypes.NewValidator(fmaValKey.PubKey(), 1)
	valSet := tmtypes.NewValidatorSet([]*tmtypes.Validator{val})
	priv := secp256k1.GenPrivKeyFromSecret([]byte("hv-feemarket-account"))
	acc := authtypes.NewBaseAccount(priv.PubKey().Address().Bytes(), priv.PubKey(), 0, 0)
	amt := sdk.TokensFromConsensusPower(app.PremintAmount, sdk.DefaultPowerReduction).Sub(sdk.DefaultPowerReduction)
	accs := []authtypes.GenesisAccount{acc}
	bals := []banktypes.Balance{{Address: acc.GetAddress().String(), Coins: sdk.NewCoins(sdk.NewCoin(utils.BaseDenom, amt))}}
	huge, _ := new(big.Int).SetString("1000000000000000000000000000000000000000000000000000000000000", 10)
	for _, k := range funded {
		accs = append(accs, &haqqtypes.EthAccount{BaseAccount: authtypes.NewBaseAccount(k.Addr, nil, 0, 0),
			CodeHash: common.BytesToHash(ethcrypto.Keccak256(nil)).Hex()})
		bals = append(bals, banktypes.Balance{Address: k.Addr.String(), Coins: sdk.NewCoins(sdk.NewCoin(utils.BaseDenom, sdkmath.NewIntFromBigInt(huge)))})
	}
	gs := app.GenesisStateWithValSet(a, app.NewDefaultGenesisState(), valSet, accs, bals...)
	gs[feemarkettypes.ModuleName] = feemarketGenesis
	bz, err := json.Marshal(gs)
	if err != nil {
		panic(err)
	}
	return bz
}

func fmNewAbciEnv(c fmCfg) *fmEnv {
	db := dbm.NewMemDB()
	a := openApp(db)
	f := &fmEnv{db: db, abci: true, phase: "imported", key: DetKey(17, "c17-sender"), other: DetKey(17, "c17-other")}
	gen := feemarkettypes.GenesisState{Params: c.Params.real(c.BaseFee), BlockGas: fmU64(c.Bgw)}
	cp := *app.DefaultConsensusParams
	blk := *cp.Block
	blk.MaxGas = fmI64(c.MaxGas)
	cp.Block = &blk
	a.InitChain(abci.RequestInitChain{ChainId: ChainID, Time: GenesisTime, Validators: []abci.ValidatorUpdate{},
		ConsensusParams: &cp, AppStateBytes: fmaGenesis(a, a.AppCodec().MustMarshalJSON(&gen), f.key, f.other), InitialHeight: 1})
	f.attach(a)
	f.hdr = tmproto.Header{ChainID: ChainID, Height: 0, Time: GenesisTime}
	f.ctx = a.BaseApp.NewContext(false, f.hdr) // InitChain's deliver state, uncommitted: the ABCI order
	f.blkMaxGas = c.MaxGas
	pc, err := haqqtypes.ParseChainID(ChainID)
	if err != nil {
		panic(err)
	}
	f.evmChainID = pc.Uint64()
	return f
}

func (f *fmEnv) abciMaxGas() string {
	if cp := f.app.GetConsensusParams(f.ctx); cp != nil && cp.Block != nil {
		return fmt.Sprint(cp.Block.MaxGas)
	}
	return "none"
}

func (f *fmEnv) abciSeq() uint64 {
	acc := f.app.AccountKeeper.GetAccount(f.ctx, f.key.Addr)
	if acc == nil {
		return 0
	}
	return acc.GetSequence()
}

func fmaClip(s string) string {
	if len(s) > 160 {
		return s[:160]
	}
	return s
}

func (f *fmEnv) stepAbci(st *fmStep) (ok bool, errs string, halt bool) {
	a := f.app
	switch st.Ev {
	case "begin_block":
		h := int64(st.Args["height"].(float64))
		f.height = h
		f.hdr = tmproto.Header{ChainID: ChainID, Height: h, Time: GenesisTime.Add(time.Duration(h) * 5 * time.Second),
			ProposerAddress: fmaValKey.PubKey().Address()}
		e := fmRecover(func() { a.BeginBlock(abci.RequestBeginBlock{Header: f.hdr}) })
		f.ctx = a.BaseApp.NewContext(false, f.hdr)
		f.blkMaxGas = f.abciMaxGas()
		f.phase = "open"
		f.used = 0
		return e == "", e, e != ""
	case "ante":
		gasS, kind := fmArgStr(st.Args, "gas"), fmArgStr(st.Args, "kind")
		st.Args = M{"gas": gasS, "kind": kind}
		seq0 := f.abciSeq()
		var bz []byte
		var err error
		if e := fmRecover(func() { bz, err = f.abciTx(kind, fmU64(gasS)) }); e != "" {
			return false, "build: " + e, false
		}
		if err != nil {
			return false, "build: " + err.Error(), false
		}
		var res abci.ResponseDeliverTx
		if e := fmRecover(func() { res = a.DeliverTx(abci.RequestDeliverTx{Tx: bz}) }); e != "" {
			return false, e, false
		}
		// baseapp.runTx consumes GasConsumedToLimit of the transaction's meter on the block gas meter
		if u := res.GasUsed; u > 0 {
			if res.GasWanted > 0 && u > res.GasWanted {
				u = res.GasWanted
			}
			f.used += uint64(u)
		}
		if res.Code != 0 {
			errs = fmt.Sprintf("%s/%d: %s", res.Codespace, res.Code, fmaClip(res.Log))
		}
		return f.abciSeq() != seq0, errs, false
	case "end_block":
		used := f.used
		if mg := mustBig(f.blkMaxGas); mg.Sign() > 0 && mg.IsUint64() && used > mg.Uint64() {
			used = mg.Uint64() // GasConsumedToLimit of the finite block gas meter
		}
		st.Args = M{"used": fmt.Sprint(used), "scripted": "observed"}
		e := fmRecover(func() { a.EndBlock(abci.RequestEndBlock{Height: f.height}) })
		f.phase = "ended"
		return e == "", e, false
	case "upgrade":
		var err error
		e := fmRecover(func() { err = fmScheduleUpgrade(a, f.ctx, uint64(st.Args["from"].(float64)), f.height+1) })
		if e != "" {
			return false, e, false
		}
		return err == nil, errStr(err), false
	case "commit":
		a.Commit()
		f.phase = "idle"
		f.ctx = a.BaseApp.NewContext(true, f.hdr) // the check state: a fresh branch of what was committed
		return true, "", false
	case "restart":
		e := fmRecover(func() { f.attach(openApp(f.db)) })
		f.ctx = f.app.BaseApp.NewContext(true, f.hdr)
		return e == "", e, e != ""
	}
	panic("feemarket step " + st.Ev + " is not available at the ABCI level")
}

var fmaEip712Codec = func() codec.ProtoCodecMarshaler {
	registry := codectypes.NewInterfaceRegistry()
	haqqtypes.RegisterInterfaces(registry)
	return codec.NewProtoCodec(registry)
}()

// abciTx builds one signed transaction of the kind, declaring `gas`, paying twice the price the
// fee checks ask for.
func (f *fmEnv) abciTx(kind string, gas uint64) ([]byte, error) {
	a := f.app
	p := a.FeeMarketKeeper.GetParams(f.ctx)
	price := big.NewInt(1)
	if !p.BaseFee.IsNil() && p.BaseFee.BigInt().Cmp(price) > 0 {
		price = p.BaseFee.BigInt()
	}
	if !p.MinGasPrice.IsNil() {
		if m := p.MinGasPrice.Ceil().TruncateInt().BigInt(); m.Cmp(price) > 0 {
			price = m
		}
	}
	price = new(big.Int).Mul(price, big.NewInt(2))
	fee := sdk.NewCoins(sdk.NewCoin(utils.BaseDenom, sdkmath.NewIntFromBigInt(new(big.Int).Mul(price, new(big.Int).SetUint64(gas)))))
	acc := a.AccountKeeper.GetAccount(f.ctx, f.key.Addr)
	if acc == nil {
		return nil, fmt.Errorf("no account")
	}
	accNum, seq := acc.GetAccountNumber(), acc.GetSequence()
	msg := banktypes.NewMsgSend(f.key.Addr, f.other.Addr, sdk.NewCoins(sdk.NewInt64Coin(utils.BaseDenom, 1)))

	if kind == "eth" {
		to := common.BytesToAddress(f.other.Addr.Bytes())
		m, err := BuildEthMsg(f.key, EthTxOpts{Type: 0, Nonce: a.EvmKeeper.GetNonce(f.ctx, ethAddr(f.key)), To: &to,
			Value: big.NewInt(1), Gas: gas, GasPrice: price, ChainID: a.EvmKeeper.ChainID()})
		if err != nil {
			return nil, err
		}
		return WrapEthMsgs(m)
	}

	builder := txConfig.NewTxBuilder().(authtx.ExtensionOptionsTxBuilder)
	if err := builder.SetMsgs(msg); err != nil {
		return nil, err
	}
	builder.SetGasLimit(gas)
	builder.SetFeeAmount(fee)
	switch kind {
	case "cosmos", "cosmos-dynfee":
		if kind == "cosmos-dynfee" {
			opt, err := codectypes.NewAnyWithValue(&haqqtypes.ExtensionOptionDynamicFeeTx{MaxPriorityPrice: sdkmath.NewInt(1)})
			if err != nil {
				return nil, err
			}
			builder.SetExtensionOptions(opt)
		}
		sig := signing.SignatureV2{PubKey: f.key.Priv.PubKey(), Data: &signing.SingleSignatureData{SignMode: signing.SignMode_SIGN_MODE_DIRECT}, Sequence: seq}
		if err := builder.SetSignatures(sig); err != nil {
			return nil, err
		}
		sd := authsigning.SignerData{ChainID: ChainID, AccountNumber: accNum, Sequence: seq, Address: f.key.Addr.String(), PubKey: f.key.Priv.PubKey()}
		sig, err := clienttx.SignWithPrivKey(signing.SignMode_SIGN_MODE_DIRECT, sd, builder, f.key.Priv, txConfig, seq)
		if err != nil {
			return nil, err
		}
		if err := builder.SetSignatures(sig); err != nil {
			return nil, err
		}
	case "eip712-legacy":
		// the signature over the typed data lives in the extension option, the cosmos signature is empty
		stdFee := legacytx.NewStdFee(gas, fee) //nolint:staticcheck
		data := legacytx.StdSignBytes(ChainID, accNum, seq, 0, stdFee, []sdk.Msg{msg}, "", nil)
		typed, err := eip712.LegacyWrapTxToTypedData(fmaEip712Codec, f.evmChainID, msg, data, &eip712.FeeDelegationOptions{FeePayer: f.key.Addr})
		if err != nil {
			return nil, err
		}
		hash, _, err := apitypes.TypedDataAndHash(typed)
		if err != nil {
			return nil, err
		}
		sig, _, err := utiltx.NewSigner(f.key.Priv).SignByAddress(f.key.Addr, hash)
		if err != nil {
			return nil, err
		}
		sig[ethcrypto.RecoveryIDOffset] += 27
		opt, err := codectypes.NewAnyWithValue(&haqqtypes.ExtensionOptionsWeb3Tx{FeePayer: f.key.Addr.String(), TypedDataChainID: f.evmChainID, FeePayerSig: sig})
		if err != nil {
			return nil, err
		}
		builder.SetExtensionOptions(opt)
		if err := builder.SetSignatures(signing.SignatureV2{PubKey: f.key.Priv.PubKey(),
			Data: &signing.SingleSignatureData{SignMode: signing.SignMode_SIGN_MODE_LEGACY_AMINO_JSON}, Sequence: seq}); err != nil {
			return nil, err
		}
	default:
		return nil, fmt.Errorf("unknown kind of transaction %q", kind)
	}
	return txConfig.TxEncoder()(builder.GetTx())
}

var fmaKinds = []string{"cosmos", "cosmos-dynfee", "eip712-legacy", "eth"}

func fmaRandCfg(r *rand.Rand) fmCfg {
	base := fmPick(r, "1000000000", "1000000000", "7", "1000", fmt.Sprint(1+r.Int63n(1000000000000)))
	p := fmParams{Elasticity: fmPick(r, "2", "2", "3", "4", "1"), Denominator: fmPick(r, "8", "8", "2", "50"),
		MinGasPrice: fmPick(r, "0", "0", "1000000000000000000", "2500000000000000000"), MinGasMultiplier: fmRandMultiplier(r)}
	if r.Intn(6) == 0 {
		p.EnableHeight = int64(1 + r.Intn(3))
	}
	cfg := fmCfg{Abci: true, BaseFee: base, Bgw: "0", MaxGas: fmPick(r, "1000000", "1000000", "2000000", "600000", "10000000", "30000000", "-1"), Params: p}
	if r.Intn(3) == 0 {
		cfg.Bgw = fmt.Sprint(r.Int63n(2000000))
	}
	return cfg
}

// randomAbci: a seeded random sequence of ABCI-level blocks.
func (f *fmEnv) randomAbci(r *rand.Rand, blocks int, nodeOps int, emit func(st fmStep) bool) {
	upgraded := false
	for b := 1; b <= blocks; b++ {
		if !emit(fmStep{"begin_block", M{"height": float64(b)}}) {
			return
		}
		limit := int64(60000000)
		if mg := mustBig(f.blkMaxGas); mg.Sign() > 0 && mg.IsInt64() {
			limit = mg.Int64()
		}
		ntx := r.Intn(4)
		for i := 0; i < ntx; i++ {
			gas := 100000 + r.Int63n(limit)
			if r.Intn(4) == 0 {
				gas = 100000 + r.Int63n(1+limit/4)
			}
			if !emit(fmStep{"ante", M{"gas": fmt.Sprint(gas), "kind": fmaKinds[r.Intn(len(fmaKinds))]}}) {
				return
			}
		}
		if !emit(fmStep{"end_block", M{"used": "0"}}) {
			return
		}
		if !upgraded && b < blocks && r.Intn(1000) < nodeOps {
			upgraded = true
			if !emit(fmStep{"upgrade", M{"from": float64(3)}}) {
				return
			}
		}
		if !emit(fmStep{"commit", M{"height": float64(b)}}) {
			return
		}
		if b < blocks && r.Intn(1000) < nodeOps/2 {
			if !emit(fmStep{"restart", M{"height": float64(b)}}) {
				return
			}
		}
	}
}
