package main

// Driver for specs/SigNonce.tla (property C03: only the key holder can authorise a
// transaction, once).
//
//   hv signonce --scripts s.json --cases cases.json --reps 1 --random N --seed S --out trace.ndjson
//
// (a) order scripts: blocks of submissions through the REAL CheckTx and DeliverTx of a chainkit
//     Node (full ante chain, message execution), interleaved with commits.  A script step is
//     {"ev":"submit","mode":"check"|"deliver","tx":{id,signer,nonce,nm,route,q}} or {"ev":"commit"}.
//     The same id is always the same signed bytes (replays are byte-identical).
// (b) mutation matrix: for every case {route, field, mut} (enumerated by TLC from
//     SigNonce!Cases) a VALID signed transaction is built, ONE mutation is applied without
//     signing again, the mutated bytes go through CheckTx and DeliverTx, and then the unmutated
//     transaction is delivered (non-vacuity: it must be accepted, so the mutation was the
//     only reason of the rejection; if the mutated one was accepted it is now a replay).
//     One case per block, so that the CheckTx state equals the deliver state when the case starts.
//
// Every submission logs response code, and before/after: account sequences in the deliver
// state and in the CheckTx state, EVM nonces, balances of the tracked accounts and of the fee
// collector, all read from the real stores.

import (
	"encoding/json"
	"flag"
	"fmt"
	"hash/crc32"
	"math/big"
	"math/rand"
	"sort"

	sdkmath "cosmossdk.io/math"
	dbm "github.com/cometbft/cometbft-db"
	abci "github.com/cometbft/cometbft/abci/types"
	sdk "github.com/cosmos/cosmos-sdk/types"
	authtypes "github.com/cosmos/cosmos-sdk/x/auth/types"
	banktypes "github.com/cosmos/cosmos-sdk/x/bank/types"
	"github.com/cosmos/cosmos-sdk/x/feegrant"
	sdkvesting "github.com/cosmos/cosmos-sdk/x/auth/vesting/types"
	"github.com/cosmos/gogoproto/proto"
	"github.com/ethereum/go-ethereum/common"
	ethcrypto "github.com/ethereum/go-ethereum/crypto"
	"time"

	upgradetypes "github.com/cosmos/cosmos-sdk/x/upgrade/types"
	v182 "github.com/haqq-network/haqq/app/upgrades/v1.8.2"
	"github.com/haqq-network/haqq/utils"
	evmtypes "github.com/haqq-network/haqq/x/evm/types"
	vestingtypes "github.com/haqq-network/haqq/x/vesting/types"
)

func init() { register("signonce", signonceMain) }

// symbolic account -> genesis account of the chainkit world
var snAcct = map[string]string{"s1": "a1", "s2": "a2", "r": "a3", "v": "a4", "g": "a5", "x": "a6"}

// accounts whose sequence and balance are logged (x, the attacker, only signs garbage)
var snTracked = []string{"g", "r", "s1", "s2", "v"}

type snTxRec struct {
	ID     string `json:"id"`
	Signer string `json:"signer"`
	Rcpt   string `json:"rcpt"`
	Amount string `json:"amount"`
	Nonce  uint64 `json:"nonce"`
	NM     int    `json:"nm"`
	Route  string `json:"route"`
	Q      string `json:"q"`
	// Qpos: which message of an Ethereum batch carries the flaw Q (1-based; the others are valid)
	Qpos int `json:"qpos,omitempty"`
	// Parts: the signed messages of a batch when they differ in signer / nonce / amount
	Parts []snPart `json:"parts,omitempty"`
}

type snPart struct {
	ID     string `json:"id,omitempty"`
	Signer string `json:"signer"`
	Nonce  uint64 `json:"nonce"`
	Amount string `json:"amount"`
}

type snStep struct {
	Ev     string   `json:"ev"`
	Mode   string   `json:"mode,omitempty"`
	Tx     *snTxRec `json:"tx,omitempty"`
	Kind   string   `json:"kind,omitempty"`   // event: convert | merge | funder | clawback | back
	Target string   `json:"target,omitempty"` // event: the account whose object is re-written
}

type snCase struct {
	Route string `json:"route"`
	Field string `json:"field"`
	Mut   string `json:"mut"`
	Class string `json:"class,omitempty"`
}

// snCfg: the seed and the WORLD of a scenario (SigNonce!Worlds): what the fee market charges,
// how the accounts of the signers are stored, how the chain state came to be.  The empty string
// is the default of each dimension ("priced", "eth", "genesis").
type snCfg struct {
	Seed   int64  `json:"seed"`
	Fees   string `json:"fees,omitempty"`   // priced | free (NoBaseFee, MinGasPrice 0; transactions carry no fee)
	Accts  string `json:"accts,omitempty"`  // eth | base (s1, s2, r, v are plain BaseAccounts in the genesis)
	Origin string `json:"origin,omitempty"` // genesis | migrated (x/evm state went through the in-place store migrations of a software upgrade)
}

func (c snCfg) free() bool { return c.Fees == "free" }

// fields whose mutations need a non-zero fee to act on / that name who pays: cases of these
// fields keep a priced transaction in a free world
var snFeeFields = map[string]bool{"gasPrice": true, "tipCap": true, "feeCap": true, "feeAmount": true, "envFeeAmount": true,
	"feePayer": true, "feeGranter": true, "envFeePayer": true, "envFeeGranter": true, "web3FeePayer": true, "web3FeePayerSig": true}

// zeroFee: does the valid transaction of this case / order submission carry no fee at all?
func (d *snEnv) zeroFee(field string) bool { return d.cfg.free() && !snFeeFields[field] }

// fee of a Cosmos transaction with the given gas limit
func (d *snEnv) fee(gas uint64, field string) sdk.Coins {
	if d.zeroFee(field) {
		return sdk.Coins{}
	}
	return snFee(gas)
}

type snScript struct {
	Cfg   *snCfg   `json:"cfg"`
	Steps []snStep `json:"steps"` // order scenario
	Cases []snCase `json:"cases"` // matrix scenario
	Rep   int      `json:"rep"`
}

type snEnv struct {
	cfg   snCfg
	n     *Node
	w     *World
	rnd   *rand.Rand
	built map[string][]byte // order part: id -> signed bytes
	// contracts of the matrix scenario: a call to reverter reverts, a call to burner never ends
	reverter, burner common.Address
	tw    *TraceWriter
	scn   int
	// the scenario's chain went through the scheduled in-place upgrade before its first step
	upgraded bool
}

// reset writes the first line of a scenario (and what was done to the chain before it)
func (d *snEnv) reset(src string) {
	d.tw.Emit(M{"ev": "reset", "scn": d.scn, "src": src, "cfg": d.cfg, "post": d.state()})
	if d.upgraded {
		vm := d.n.App.UpgradeKeeper.GetModuleVersionMap(d.n.Ctx())
		d.tw.Emit(M{"ev": "setup", "scn": d.scn, "what": fmt.Sprintf("upgrade-scheduled:x/evm@3->%d", vm[evmtypes.ModuleName]), "ok": true, "post": d.state()})
	}
}

func snIsEth(route string) bool {
	return route == "eth-legacy" || route == "eth-accesslist" || route == "eth-dynamicfee"
}

func snEthType(route string) int {
	switch route {
	case "eth-legacy":
		return 0
	case "eth-accesslist":
		return 1
	}
	return 2
}

func (d *snEnv) key(name string) Key {
	if g, ok := snAcct[name]; ok {
		return d.w.Acct(g)
	}
	return d.w.Acct(name)
}

func newSnEnv(cfg snCfg, tw *TraceWriter, scn int) *snEnv {
	g := DefaultGenesisCfg(cfg.Seed)
	g.NVals = 1
	g.Coinomics = false
	if cfg.free() {
		g.NoBaseFee = true
		g.MinGasPrice = "0"
	}
	w := NewWorld(g)
	var base []Key
	if cfg.Accts == "base" {
		for _, name := range []string{"s1", "s2", "r", "v"} {
			base = append(base, w.Acct(snAcct[name]))
		}
	}
	d := &snEnv{cfg: cfg, w: w, n: snNewNode(w, dbm.NewMemDB(), base), rnd: rand.New(rand.NewSource(cfg.Seed)),
		built: map[string][]byte{}, tw: tw, scn: scn}
	// the CheckTx state is created from the committed store: before the first Commit it does not
	// contain the genesis, so every scenario starts after an empty first block
	d.begin()
	if cfg.Origin == "migrated" {
		if err := d.migrate(); err != nil {
			panic(err)
		}
	}
	d.n.EndBlock()
	d.n.Commit()
	d.begin()
	if cfg.Origin == "migrated" {
		// the upgrade handler ran in this BeginBlock; the scenario starts on the block after it
		vm := d.n.App.UpgradeKeeper.GetModuleVersionMap(d.n.Ctx())
		if vm[evmtypes.ModuleName] <= 3 {
			panic(fmt.Sprintf("the upgrade did not run: x/evm at consensus version %d", vm[evmtypes.ModuleName]))
		}
		d.n.EndBlock()
		d.n.Commit()
		d.begin()
	}
	return d
}

// snNewNode is chainkit's NewNode with the accounts of `base` stored as plain cosmos BaseAccounts
// in the genesis (as accounts imported from a genesis file are), not as EthAccounts.
func snNewNode(w *World, db dbm.DB, base []Key) *Node {
	n := &Node{W: w, DB: db, App: openApp(db), Time: GenesisTime}
	gs, _ := w.GenesisState()
	if len(base) > 0 {
		cdc := encCfg.Codec
		var ag authtypes.GenesisState
		cdc.MustUnmarshalJSON(gs[authtypes.ModuleName], &ag)
		accs, err := authtypes.UnpackAccounts(ag.Accounts)
		if err != nil {
			panic(err)
		}
		for i, a := range accs {
			for _, k := range base {
				if a.GetAddress().Equals(k.Addr) {
					accs[i] = authtypes.NewBaseAccount(k.Addr, nil, 0, 0)
				}
			}
		}
		if ag.Accounts, err = authtypes.PackAccounts(accs); err != nil {
			panic(err)
		}
		gs[authtypes.ModuleName] = cdc.MustMarshalJSON(&ag)
	}
	stateBytes, err := json.Marshal(gs)
	if err != nil {
		panic(err)
	}
	n.App.InitChain(abci.RequestInitChain{ChainId: ChainID, Time: GenesisTime, Validators: []abci.ValidatorUpdate{},
		ConsensusParams: w.ConsensusParams(), AppStateBytes: stateBytes, InitialHeight: 1})
	return n
}

// migrate puts the x/evm parameters where a chain at consensus version 3 of x/evm keeps them
// (the x/params subspace; the module's own record is removed), declares that version in the
// x/upgrade version map and schedules a software upgrade for the next block: its registered
// handler runs the module manager's in-place store migrations (3->4->5->6) in BeginBlock, the
// way a live chain is upgraded.  The parameter VALUES are the ones of the genesis.
func (d *snEnv) migrate() error {
	ctx, a := d.n.Ctx(), d.n.App
	params := a.EvmKeeper.GetParams(ctx)
	sub := a.GetSubspace(evmtypes.ModuleName)
	sub.SetParamSet(ctx, &params)
	ctx.KVStore(a.GetKey(evmtypes.StoreKey)).Delete(evmtypes.KeyPrefixParams)
	vm := a.UpgradeKeeper.GetModuleVersionMap(ctx)
	vm[evmtypes.ModuleName] = 3
	a.UpgradeKeeper.SetModuleVersionMap(ctx, vm)
	if err := a.UpgradeKeeper.ScheduleUpgrade(ctx, upgradetypes.Plan{Name: v182.UpgradeName, Height: ctx.BlockHeight() + 1}); err != nil {
		return err
	}
	d.upgraded = true
	return nil
}

func (d *snEnv) begin() { d.n.BeginBlock(BlockIn{DtMs: 5000, Proposer: 0}) }

// state projects the abstract state from the real stores.
func (d *snEnv) state() M {
	dctx := d.n.Ctx()
	cctx := d.n.App.BaseApp.NewContext(true, d.n.Header)
	seq, cseq, evm, bal := M{}, M{}, M{}, M{}
	for _, name := range snTracked {
		k := d.key(name)
		s, c := uint64(0), uint64(0)
		if acc := d.n.App.AccountKeeper.GetAccount(dctx, k.Addr); acc != nil {
			s = acc.GetSequence()
		}
		if acc := d.n.App.AccountKeeper.GetAccount(cctx, k.Addr); acc != nil {
			c = acc.GetSequence()
		}
		seq[name], cseq[name] = s, c
		evm[name] = d.n.App.EvmKeeper.GetNonce(dctx, ethAddr(k))
		bal[name] = bigStr(d.n.App.BankKeeper.GetBalance(dctx, k.Addr, utils.BaseDenom).Amount)
	}
	coll := d.n.App.BankKeeper.GetBalance(dctx, authtypes.NewModuleAddress(authtypes.FeeCollectorName), utils.BaseDenom).Amount
	return M{"seq": seq, "cseq": cseq, "evmNonce": evm, "bal": bal, "coll": bigStr(coll)}
}

func (d *snEnv) seqOf(name string) uint64 {
	acc := d.n.App.AccountKeeper.GetAccount(d.n.Ctx(), d.key(name).Addr)
	if acc == nil {
		return 0
	}
	return acc.GetSequence()
}

func (d *snEnv) accNum(name string) uint64 {
	acc := d.n.App.AccountKeeper.GetAccount(d.n.Ctx(), d.key(name).Addr)
	if acc == nil {
		panic("no account " + name)
	}
	return acc.GetAccountNumber()
}

func snShort(s string) string {
	if len(s) > 160 {
		return s[:160]
	}
	return s
}

// submit sends bytes through the real CheckTx or DeliverTx and logs one trace line.
func (d *snEnv) submit(mode, role string, tx *snTxRec, c snCase, bz []byte) uint32 {
	pre := d.state()
	var code uint32
	var codespace, lg string
	vmErrs := []string{}
	if mode == "check" {
		r := d.n.App.CheckTx(abci.RequestCheckTx{Tx: bz, Type: abci.CheckTxType_New})
		code, codespace, lg = r.Code, r.Codespace, r.Log
	} else {
		r := d.n.Deliver(bz)
		code, codespace, lg = r.Code, r.Codespace, r.Log
		vmErrs = snVmErrors(r.Data)
	}
	d.tw.Emit(M{"ev": "submit", "scn": d.scn, "mode": mode, "role": role, "tx": tx, "vmErrors": vmErrs,
		"case": M{"route": c.Route, "field": c.Field, "mut": c.Mut}, "code": int(code), "codespace": codespace,
		"ok": code == 0, "err": snShort(lg), "pre": pre, "post": d.state(), "bytes": len(bz)})
	return code
}

func (d *snEnv) commit() {
	pre := d.state()
	d.n.EndBlock()
	d.n.Commit()
	d.begin()
	d.tw.Emit(M{"ev": "commit", "scn": d.scn, "pre": pre, "post": d.state(), "h": d.n.Height})
}

// setup delivers a plain valid transaction (funding / grants / sequence fillers) that is not
// itself under test; its failure is an infrastructure error.
func (d *snEnv) setup(what string, signer string, msgs ...sdk.Msg) error {
	k := d.key(signer)
	bz, err := d.n.CosmosTxFor(k, 300000, big.NewInt(2_000_000_000), msgs...)
	if err != nil {
		return err
	}
	r := d.n.Deliver(bz)
	d.tw.Emit(M{"ev": "setup", "scn": d.scn, "what": what, "ok": r.Code == 0, "post": d.state()})
	if r.Code != 0 {
		return fmt.Errorf("setup %s failed: %s", what, r.Log)
	}
	return nil
}

// deploy creates a contract with the given runtime code through a real Ethereum transaction.
func (d *snEnv) deploy(by string, runtimeCode []byte) (common.Address, error) {
	k := d.key(by)
	l := byte(len(runtimeCode))
	initCode := append([]byte{0x60, l, 0x60, 0x0c, 0x60, 0x00, 0x39, 0x60, l, 0x60, 0x00, 0xf3}, runtimeCode...)
	nonce := d.n.App.EvmKeeper.GetNonce(d.n.Ctx(), ethAddr(k))
	bz, _, err := d.n.EthTxFor(k, nil, big.NewInt(0), 300000, initCode)
	if err != nil {
		return common.Address{}, err
	}
	r := d.n.Deliver(bz)
	addr := ethcrypto.CreateAddress(ethAddr(k), nonce)
	ok := false
	if acct := d.n.App.EvmKeeper.GetAccountWithoutBalance(d.n.Ctx(), addr); r.Code == 0 && acct != nil {
		ok = len(d.n.App.EvmKeeper.GetCode(d.n.Ctx(), common.BytesToHash(acct.CodeHash))) == len(runtimeCode)
	}
	d.tw.Emit(M{"ev": "setup", "scn": d.scn, "what": "deploy:" + addr.Hex(), "ok": ok, "post": d.state()})
	if !ok {
		return addr, fmt.Errorf("deployment failed: %s", r.Log)
	}
	return addr, nil
}

// snVmErrors extracts the per-message VM error of an Ethereum transaction's response.
func snVmErrors(data []byte) []string {
	out := []string{}
	var td sdk.TxMsgData
	if len(data) == 0 || proto.Unmarshal(data, &td) != nil {
		return out
	}
	for _, a := range td.MsgResponses {
		var r evmtypes.MsgEthereumTxResponse
		if a != nil && proto.Unmarshal(a.Value, &r) == nil && a.TypeUrl == "/"+proto.MessageName(&r) {
			out = append(out, r.VmError)
		}
	}
	return out
}

func (d *snEnv) nameOf(addr string) string {
	for _, n := range []string{"g", "v", "s1", "s2", "r", "x"} {
		if d.key(n).Addr.String() == addr {
			return n
		}
	}
	return ""
}

// event: somebody re-writes the account object of target through x/vesting (the account's own
// signed transactions are not involved, except for "back", which the account itself signs).
// The event is attempted whatever the state; a failed event is logged as such.
func (d *snEnv) event(kind, target string) error {
	pre := d.state()
	t := d.key(target)
	funder := "g"
	if va, ok := d.n.App.AccountKeeper.GetAccount(d.n.Ctx(), t.Addr).(*vestingtypes.ClawbackVestingAccount); ok {
		if n := d.nameOf(va.FunderAddress); n != "" {
			funder = n
		}
	}
	by := funder
	amt := sdk.NewCoins(coin("1000"))
	// schedules: already over (so that the account can be converted back) or far in the future
	start, length := d.n.Header.Time.Add(-100*time.Second), int64(1)
	if (d.n.Header.Height+int64(len(kind)))%2 == 0 {
		start, length = d.n.Header.Time, 100000
	}
	periods := sdkvesting.Periods{{Length: length, Amount: amt}}
	var msg sdk.Msg
	switch kind {
	case "touch":
		// an Ethereum transaction of a third party pays 1 aISLM to the target: the EVM state
		// commit re-writes the account object of everything the transaction touched
		by = "g"
		if target == "g" {
			by = "v"
		}
		to := ethAddr(t)
		bz, _, err := d.n.EthTxFor(d.key(by), &to, big.NewInt(1), 21000, nil)
		if err != nil {
			return err
		}
		r := d.n.Deliver(bz)
		d.tw.Emit(M{"ev": "event", "scn": d.scn, "kind": kind, "target": target, "by": by, "ok": r.Code == 0, "err": snShort(r.Log),
			"vesting": false, "pre": pre, "post": d.state()})
		return nil
	case "convert":
		msg = vestingtypes.NewMsgConvertIntoVestingAccount(d.key(by).Addr, t.Addr, start, periods, periods, false, false, nil)
	case "merge":
		msg = vestingtypes.NewMsgConvertIntoVestingAccount(d.key(by).Addr, t.Addr, start, periods, periods, true, false, nil)
	case "funder":
		nf := "v"
		if funder == "v" {
			nf = "g"
		}
		msg = vestingtypes.NewMsgUpdateVestingFunder(d.key(by).Addr, d.key(nf).Addr, t.Addr)
	case "clawback":
		msg = vestingtypes.NewMsgClawback(d.key(by).Addr, t.Addr, d.key(by).Addr)
	case "back":
		by = target
		msg = vestingtypes.NewMsgConvertVestingAccount(t.Addr)
	default:
		return fmt.Errorf("unknown event %q", kind)
	}
	bz, err := d.n.CosmosTxFor(d.key(by), 600000, big.NewInt(2_000_000_000), msg)
	if err != nil {
		return err
	}
	r := d.n.Deliver(bz)
	_, isVesting := d.n.App.AccountKeeper.GetAccount(d.n.Ctx(), t.Addr).(*vestingtypes.ClawbackVestingAccount)
	d.tw.Emit(M{"ev": "event", "scn": d.scn, "kind": kind, "target": target, "by": by, "ok": r.Code == 0, "err": snShort(r.Log),
		"vesting": isVesting, "pre": pre, "post": d.state()})
	return nil
}

func (d *snEnv) filler(signer string) error {
	k := d.key(signer)
	return d.setup("filler:"+signer, signer, banktypes.NewMsgSend(k.Addr, d.key("x").Addr, sdk.NewCoins(coin("1"))))
}

var snGasPrice = big.NewInt(2_000_000_000)

func snFee(gas uint64) sdk.Coins {
	return sdk.NewCoins(sdk.NewCoin(utils.BaseDenom, sdkmath.NewIntFromBigInt(new(big.Int).Mul(snGasPrice, new(big.Int).SetUint64(gas)))))
}

var snForeignEth = []int64{1, 11234, 11236, 54211}
var snForeignSdk = []string{"haqq_11235-2", "haqq_11236-1", "haqq_54211-1", "cosmoshub-4"}

// ethOpts are the contents of a plain Ethereum transfer of the given route.
func (d *snEnv) ethOpts(route string, nonce uint64, to Key, amount *big.Int, gas uint64, data []byte, chain *big.Int) EthTxOpts {
	return d.ethOptsF(route, nonce, to, amount, gas, data, chain, "")
}

// ethOptsF: in a free world the transaction offers no gas price at all (unless the case is about a fee field)
func (d *snEnv) ethOptsF(route string, nonce uint64, to Key, amount *big.Int, gas uint64, data []byte, chain *big.Int, field string) EthTxOpts {
	toA := ethAddr(to)
	o := EthTxOpts{Type: snEthType(route), Nonce: nonce, To: &toA, Value: amount, Gas: gas, Data: data, ChainID: chain}
	if d.zeroFee(field) {
		o.GasPrice, o.FeeCap, o.TipCap = big.NewInt(0), big.NewInt(0), big.NewInt(0)
		return o
	}
	switch o.Type {
	case 0, 1:
		o.GasPrice = big.NewInt(3_000_000_000)
	case 2:
		o.FeeCap = big.NewInt(3_000_000_000)
		o.TipCap = big.NewInt(1_000_000_000)
	}
	return o
}

// buildOrder turns a symbolic transaction of an order script into signed bytes.
func (d *snEnv) buildOrder(t *snTxRec) ([]byte, error) {
	if bz, ok := d.built[t.ID]; ok {
		return bz, nil
	}
	k, rcpt := d.key(t.Signer), d.key(t.Rcpt)
	amount := mustBig(t.Amount)
	pick := int(crc32.ChecksumIEEE([]byte(t.ID)))
	var bz []byte
	var err error
	if snIsEth(t.Route) {
		// the flaw sits in message Qpos of the batch only; the other messages are valid
		bad := t.Qpos - 1
		if bad < 0 || bad >= t.NM {
			bad = 0
		}
		var msgs []*evmtypes.MsgEthereumTx
		for i := 0; i < t.NM; i++ {
			chain := d.n.App.EvmKeeper.ChainID()
			if t.Q == "foreign" && i == bad {
				chain = big.NewInt(snForeignEth[pick%len(snForeignEth)])
			}
			o := d.ethOpts(t.Route, t.Nonce+uint64(i), rcpt, amount, 21000, nil, chain)
			var m *evmtypes.MsgEthereumTx
			var err error
			if t.Q == "unprotected" && i == bad && o.Type == 0 {
				m, err = snEthUnprotected(k, o)
			} else {
				m, err = BuildEthMsg(k, o)
			}
			if err != nil {
				return nil, err
			}
			msgs = append(msgs, m)
		}
		if t.Q == "badsig" {
			f := []string{"r", "s"}[pick%2]
			if err := snEthMutate(d, msgs[bad], t.Route, f, "flip"); err != nil {
				return nil, err
			}
		}
		bz, err = snDefaultEnvelope(msgs).Bytes()
	} else {
		var msgs []sdk.Msg
		for i := 0; i < t.NM; i++ {
			msgs = append(msgs, banktypes.NewMsgSend(k.Addr, rcpt.Addr, sdk.NewCoins(sdk.NewCoin(utils.BaseDenom, sdkmath.NewIntFromBigInt(amount)))))
		}
		o := snSdkOpts{Route: t.Route, Pub: k, Sign: k, ChainID: ChainID, AccNum: d.accNum(t.Signer), Seq: t.Nonce, Gas: 200000,
			Fee: d.fee(200000, ""), Memo: "", TypedChain: d.n.App.EvmKeeper.ChainID().Uint64()}
		if t.Q == "foreign" {
			o.ChainID = snForeignSdk[pick%len(snForeignSdk)]
			o.TypedChain = snTypedChainOf(o.ChainID, o.TypedChain)
		}
		if t.Q == "badsig" && pick%2 == 0 {
			o.Sign = d.key("x") // somebody else's signature over the right sign doc
		}
		bz, err = snSignSdk(o, msgs...)
		if err == nil && t.Q == "badsig" && pick%2 == 1 {
			f := "signature"
			if t.Route == "eip712" {
				f = "web3FeePayerSig"
			}
			bz, err = snSdkMutate(d, bz, snCase{Route: t.Route, Field: f, Mut: "flip"}, nil)
		}
	}
	if err != nil {
		return nil, err
	}
	d.built[t.ID] = bz
	return bz, nil
}

// orderAmount: what an order transaction moves (a function of its id; overdraft = more than
// the account owns).
func (d *snEnv) orderAmount(t *snTxRec) string {
	if t.Q == "overdraft" {
		return "5000000000000000000000000"
	}
	return fmt.Sprint(1000 + crc32.ChecksumIEEE([]byte(t.ID))%9000)
}

func (d *snEnv) runOrder(src string, steps []snStep) error {
	d.reset(src)
	none := snCase{Route: "-", Field: "-", Mut: "-"}
	for _, st := range steps {
		switch st.Ev {
		case "commit":
			d.commit()
		case "event":
			if err := d.event(st.Kind, st.Target); err != nil {
				return err
			}
		case "submit":
			t := *st.Tx
			t.Rcpt = "r"
			if t.NM == 0 {
				t.NM = 1
			}
			t.Amount = d.orderAmount(&t)
			bz, err := d.buildOrder(&t)
			if err != nil {
				return fmt.Errorf("cannot build %s: %w", t.ID, err)
			}
			d.submit(st.Mode, "order", &t, none, bz)
		default:
			return fmt.Errorf("unknown step %q", st.Ev)
		}
	}
	return nil
}

// randomOrder generates a longer history than the model's scripts, over both signers.
func snRandomOrder(r *rand.Rand, n int) []snStep {
	routes := []string{"eth-legacy", "eth-accesslist", "eth-dynamicfee", "cosmos-direct", "cosmos-amino-json", "eip712", "eip712-direct"}
	seq := map[string]uint64{"s1": 0, "s2": 0}
	vesting := map[string]bool{}
	var steps []snStep
	var earlier []snTxRec
	for i := 0; i < n; i++ {
		if i > 0 && r.Intn(5) == 0 && steps[len(steps)-1].Ev != "commit" {
			steps = append(steps, snStep{Ev: "commit"})
			continue
		}
		if i > 2 && r.Intn(5) == 0 {
			a := []string{"s1", "s2"}[r.Intn(2)]
			if r.Intn(2) == 0 {
				steps = append(steps, snStep{Ev: "event", Kind: "touch", Target: a})
				continue
			}
			kind := "convert"
			if vesting[a] {
				kind = []string{"merge", "funder", "clawback", "back", "back"}[r.Intn(5)]
			}
			vesting[a] = kind != "back"
			if kind == "back" {
				seq[a]++
			}
			steps = append(steps, snStep{Ev: "event", Kind: kind, Target: a})
			continue
		}
		var t snTxRec
		if len(earlier) > 0 && r.Intn(3) == 0 {
			t = earlier[r.Intn(len(earlier))]
		} else {
			a := []string{"s1", "s2"}[r.Intn(2)]
			route := routes[r.Intn(len(routes))]
			q := "good"
			switch r.Intn(12) {
			case 0:
				q = "badsig"
			case 1:
				q = "foreign"
			case 2:
				q = "overdraft"
			}
			nonce := seq[a]
			switch r.Intn(8) {
			case 0:
				nonce += uint64(1 + r.Intn(2))
			case 1:
				if nonce > 0 {
					nonce = uint64(r.Intn(int(nonce)))
				}
			}
			nm := 1
			if snIsEth(route) && r.Intn(4) == 0 {
				nm = 2 + r.Intn(2)
			} else if r.Intn(8) == 0 {
				nm = 2
			}
			if q == "foreign" && route == "eth-legacy" && r.Intn(2) == 0 {
				q = "unprotected"
			}
			t = snTxRec{Signer: a, Nonce: nonce, Route: route, Q: q, NM: nm, Qpos: 1 + r.Intn(nm)}
			t.ID = fmt.Sprintf("%s:%d:%s:%s:%d:%d:%d", a, nonce, route, q, nm, t.Qpos, i)
			earlier = append(earlier, t)
		}
		mode := "deliver"
		if r.Intn(4) == 0 {
			mode = "check"
		}
		// the generator's own guess of the sequence (only steers the choice of nonces)
		if mode == "deliver" && (t.Q == "good" || (t.Q == "overdraft" && !snIsEth(t.Route))) && t.Nonce == seq[t.Signer] {
			if snIsEth(t.Route) {
				seq[t.Signer] += uint64(t.NM)
			} else {
				seq[t.Signer]++
			}
		}
		tt := t
		steps = append(steps, snStep{Ev: "submit", Mode: mode, Tx: &tt})
	}
	return steps
}

func (d *snEnv) runMatrix(cases []snCase, rep int) error {
	d.reset("matrix")
	// g lets s1 and s2 pay fees from its account (fee-grant mutations)
	for _, s := range []string{"s1", "s2"} {
		msg, err := feegrant.NewMsgGrantAllowance(&feegrant.BasicAllowance{}, d.key("g").Addr, d.key(s).Addr)
		if err != nil {
			return err
		}
		if err := d.setup("feegrant:g->"+s, "g", msg); err != nil {
			return err
		}
	}
	// every key used as "somebody else's" has its public key on chain
	for _, s := range []string{"s1", "v", "x"} {
		if err := d.filler(s); err != nil {
			return err
		}
	}
	// x deploys the two contracts the VM-failure batches call
	var err error
	if d.reverter, err = d.deploy("x", []byte{0x60, 0x00, 0x60, 0x00, 0xfd}); err != nil { // PUSH1 0 PUSH1 0 REVERT
		return err
	}
	if d.burner, err = d.deploy("x", []byte{0x5b, 0x60, 0x00, 0x56}); err != nil { // JUMPDEST PUSH1 0 JUMP
		return err
	}
	d.commit()
	for i, c := range cases {
		run := d.runCase
		if c.Field == "batch" {
			run = d.runBatchCase
		}
		if err := run(c, rep, i); err != nil {
			return fmt.Errorf("case %s:%s:%s: %w", c.Route, c.Field, c.Mut, err)
		}
	}
	return nil
}

func signonceMain(args []string) error {
	fs := flag.NewFlagSet("signonce", flag.ExitOnError)
	scripts := fs.String("scripts", "", "JSON file: array of scenarios ({cfg, steps} order scripts or {cfg, cases, rep} matrix runs)")
	random := fs.Int("random", 0, "number of random order scenarios")
	steps := fs.Int("steps", 30, "steps per random scenario")
	seed := fs.Int64("seed", 1, "seed")
	out := fs.String("out", "trace.ndjson", "trace output")
	fs.Parse(args)

	tw, err := NewTraceWriter(*out)
	if err != nil {
		return err
	}
	defer tw.Close()
	scn := 0
	if *scripts != "" {
		var all []snScript
		if err := readJSONFile(*scripts, &all); err != nil {
			return err
		}
		for i, sc := range all {
			scn++
			cfg := snCfg{Seed: *seed*1000 + int64(i)}
			if sc.Cfg != nil {
				cfg = *sc.Cfg
			}
			d := newSnEnv(cfg, tw, scn)
			if len(sc.Cases) > 0 {
				err = d.runMatrix(sc.Cases, sc.Rep)
			} else {
				err = d.runOrder("script", sc.Steps)
			}
			if err != nil {
				tw.Close()
				return fmt.Errorf("scenario %d: %w", scn, err)
			}
		}
	}
	for i := 0; i < *random; i++ {
		scn++
		s := *seed*1000003 + int64(i)
		// random scenarios walk through the eight worlds
		cfg := snCfg{Seed: s}
		if i%2 == 1 {
			cfg.Fees = "free"
		}
		if (i/2)%2 == 1 {
			cfg.Accts = "base"
		}
		if (i/4)%2 == 1 {
			cfg.Origin = "migrated"
		}
		d := newSnEnv(cfg, tw, scn)
		if err := d.runOrder("random", snRandomOrder(rand.New(rand.NewSource(s)), *steps)); err != nil {
			tw.Close()
			return fmt.Errorf("random scenario %d: %w", scn, err)
		}
	}
	_ = sort.Strings
	fmt.Printf("signonce: scenarios=%d lines=%d\n", scn, tw.N)
	return nil
}
