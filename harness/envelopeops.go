package main

import (
	"crypto/ecdsa"
	"crypto/sha256"
	"encoding/binary"
	"encoding/hex"
	"encoding/json"
	"flag"
	"fmt"
	"math"
	"math/big"
	"math/rand"
	"strings"
	"sync"

	sdkmath "cosmossdk.io/math"
	"github.com/cosmos/cosmos-sdk/client"
	codectypes "github.com/cosmos/cosmos-sdk/codec/types"
	sdk "github.com/cosmos/cosmos-sdk/types"
	authtx "github.com/cosmos/cosmos-sdk/x/auth/tx"
	"github.com/ethereum/go-ethereum/common"
	ethtypes "github.com/ethereum/go-ethereum/core/types"
	"github.com/ethereum/go-ethereum/crypto"

	"github.com/haqq-network/haqq/app"
	"github.com/haqq-network/haqq/encoding"
	evmtypes "github.com/haqq-network/haqq/x/evm/types"
)

// Driver for specs/EnvelopeOps.tla (property C18, second part): the envelope API used in SEQUENCES on
// SHARED objects - one client.TxBuilder for all BuildTx calls of a scenario, decoded Cosmos transactions
// that carry several Ethereum messages, UnwrapEthereumMsg and the per-message getters applied to them in
// any order.
//
// Input:  {"scripts":[{"cfg":{"src":"script","pool":[<Envelope case>...][,"seed":n]},
//                      "steps":[{"ev":..,"args":{..}}...]}]}   (TLC-simulated behaviours of EnvelopeOps)
//         plus --random N seeded scenarios (cfg {"src":"random","seed":n}; pool and steps drawn here; a
//         replay passes the logged steps back).
// Output: per scenario a "reset" line (cfg, the originals as go-ethereum reports them, the reference
//         views, the initial projection) and one line per operation, written AFTER the call returned:
//         {"ev","args","ok","err","ret","post","scn"}.  "post" is the projection of EnvelopeOps.tla read
//         from the live objects through read-only calls: pool (the wrapped messages), bld (the shared
//         builder's transaction), wire (what was encoded), dec (the decoded transactions).

func init() { register("envops", envOpsMain) }

const envoExtURL = "/ethermint.evm.v1.ExtensionOptionsEthereumTx"

var envoViewKeys = []string{"h", "rec", "typ", "snd", "dig", "fee", "gas", "cost", "effFee", "vb"}

type envoStep struct {
	Ev   string `json:"ev"`
	Args M      `json:"args"`
}

type envoCfg struct {
	Src  string              `json:"src"`
	Pool []map[string]string `json:"pool,omitempty"`
	Seed *int64              `json:"seed,omitempty"`
}

type envoScript struct {
	Cfg   envoCfg    `json:"cfg"`
	Steps []envoStep `json:"steps"`
}

type envoScriptFile struct {
	Scripts []envoScript `json:"scripts"`
}

type envoTx struct {
	f    *envFields
	key  *ecdsa.PrivateKey
	tx   *ethtypes.Transaction
	msg  *evmtypes.MsgEthereumTx
	base *big.Int
	ref  M
}

type envoWire struct {
	bz    []byte
	brief M
	sha   string
}

type envoScn struct {
	ec      *envCodec
	seed    int64
	pool    []*envoTx
	byHash  map[string]*envoTx
	builder client.TxBuilder
	wires   []envoWire
	decs    []sdk.Tx
}

func envoBlankView() M {
	v := M{}
	for _, k := range envoViewKeys {
		v[k] = "-"
	}
	return v
}

// envoDigest: 16 hex of sha256 over every field go-ethereum reports for the transaction.
func envoDigest(d M) string {
	var sb strings.Builder
	for _, k := range envFieldKeys {
		fmt.Fprintf(&sb, "%s=%v;", k, d[k])
	}
	fmt.Fprintf(&sb, "dataLen=%v;alAddrs=%v;alKeys=%v;protected=%v", d["dataLen"], d["alAddrs"], d["alKeys"], d["protected"])
	h := sha256.Sum256([]byte(sb.String()))
	return hex.EncodeToString(h[:8])
}

func (s *envoScn) baseOf(h string) *big.Int {
	if p, ok := s.byHash[h]; ok {
		return p.base
	}
	return nil
}

// view: the observables of the statement for ONE message object, through read-only calls of the haqq code
// (value receivers; the sender is recovered by go-ethereum from AsTransaction, not by GetSender, which
// writes the From field).
func (s *envoScn) view(m sdk.Msg) (v M) {
	v = envoBlankView()
	msg, ok := m.(*evmtypes.MsgEthereumTx)
	if !ok {
		v["typ"] = fmt.Sprintf("%T", m)
		return v
	}
	defer func() {
		if r := recover(); r != nil {
			v["vb"] = envClip("panic: " + fmt.Sprint(r))
		}
	}()
	v["rec"] = msg.Hash
	tx := msg.AsTransaction()
	if tx == nil {
		return v
	}
	d := envDescribe(tx)
	v["h"], v["snd"], v["dig"] = d["hash"], d["sender"], envoDigest(d)
	base := s.baseOf(v["h"].(string))
	v["fee"] = envFig(func() *big.Int { return msg.GetFee() })
	v["gas"] = envU64(msg.GetGas())
	v["effFee"] = envFig(func() *big.Int { return msg.GetEffectiveFee(base) })
	if td, err := evmtypes.UnpackTxData(msg.Data); err == nil {
		v["typ"] = envTypeName(td.TxType())
		v["cost"] = envFig(func() *big.Int { return td.Cost() })
	}
	v["vb"] = envVbClass(envTry(func() error { return msg.ValidateBasic() }))
	return v
}

func (s *envoScn) views(msgs []sdk.Msg) []M {
	out := make([]M, 0, len(msgs))
	for _, m := range msgs {
		out = append(out, s.view(m))
	}
	return out
}

// envView: messages, fee, gas limit and extension options of a Cosmos transaction as its own getters report them.
func (s *envoScn) envView(tx sdk.Tx) (v M) {
	v = M{"msgs": []M{}, "fee": "-", "gas": "-", "ext": -1}
	defer func() {
		if r := recover(); r != nil {
			v["fee"] = envClip("panic: " + fmt.Sprint(r))
		}
	}()
	v["msgs"] = s.views(tx.GetMsgs())
	if ft, ok := tx.(sdk.FeeTx); ok {
		fee := ft.GetFee()
		switch {
		case len(fee) == 0:
			v["fee"] = "0"
		case len(fee) == 1 && fee[0].Denom == envEvmDenom:
			v["fee"] = fee[0].Amount.String()
		default:
			v["fee"] = fee.String()
		}
		v["gas"] = envU64(ft.GetGas())
	}
	if xt, ok := tx.(interface{ GetExtensionOptions() []*codectypes.Any }); ok {
		n := 0
		for _, o := range xt.GetExtensionOptions() {
			n++
			if o.TypeUrl != envoExtURL {
				n += 100
			}
		}
		v["ext"] = n
	}
	return v
}

func envoBrief(ev M) M {
	hs := []string{}
	for _, m := range ev["msgs"].([]M) {
		hs = append(hs, m["h"].(string))
	}
	return M{"hs": hs, "fee": ev["fee"], "gas": ev["gas"], "ext": ev["ext"]}
}

func (s *envoScn) project() M {
	pool := make([]M, 0, len(s.pool))
	for _, p := range s.pool {
		pool = append(pool, s.view(p.msg))
	}
	wire := make([]M, 0, len(s.wires))
	for _, w := range s.wires {
		wire = append(wire, M{"env": w.brief, "sha": w.sha})
	}
	dec := make([]M, 0, len(s.decs))
	for _, d := range s.decs {
		dec = append(dec, s.envView(d))
	}
	return M{"pool": pool, "bld": s.envView(s.builder.GetTx()), "wire": wire, "dec": dec}
}

// froms: the unsigned From fields (diagnostic; not part of the projection)
func (s *envoScn) froms() []string {
	out := []string{}
	for _, p := range s.pool {
		out = append(out, p.msg.From)
	}
	return out
}

func envoSubSeed(seed int64, label string, i int) int64 {
	var b [16]byte
	binary.BigEndian.PutUint64(b[:8], uint64(seed))
	binary.BigEndian.PutUint64(b[8:], uint64(i))
	h := sha256.Sum256(append(b[:], []byte(label)...))
	return int64(binary.BigEndian.Uint64(h[:8]) >> 1)
}

// envoRef: the reference view of an original, from the go-ethereum transaction and the signing key only.
func envoRef(p *envoTx) M {
	d := envDescribe(p.tx)
	g := envGethFigures(p.tx, p.base)
	return M{"h": p.tx.Hash().Hex(), "rec": p.tx.Hash().Hex(), "typ": envTypeName(p.tx.Type()),
		"snd": strings.ToLower(crypto.PubkeyToAddress(p.key.PublicKey).Hex()), "dig": envoDigest(d),
		"fee": g["fee"], "gas": envU64(p.tx.Gas()), "cost": g["cost"], "effFee": g["effFee"], "vb": "ok"}
}

// envoSetupErr: why a scenario could not be set up.  Stage "sign" / "script" is a problem of the harness or of the
// script; "wrap" / "random-pool" is a response of the code under test (the scenario is skipped and counted).
type envoSetupErr struct {
	stage string
	err   string
}

func (e *envoSetupErr) Error() string { return e.stage + ": " + e.err }

// envoMake signs the original of the drawn fields and wraps it.
func envoMake(f *envFields, seed int64) (*envoTx, *envoSetupErr) {
	p := &envoTx{f: f, key: envKey(seed), base: f.base}
	if f.typ == "dynamic" && f.base == nil {
		return nil, &envoSetupErr{"script", "dynamic-fee transaction without a base fee"}
	}
	tx, st := envSignTx(f, p.key)
	if !st.Ok {
		return nil, &envoSetupErr{"sign", st.Err}
	}
	p.tx = tx
	p.msg = &evmtypes.MsgEthereumTx{}
	if st := envTry(func() error { return p.msg.FromEthereumTx(tx) }); !st.Ok {
		return nil, &envoSetupErr{"wrap", st.Err}
	}
	p.ref = envoRef(p)
	return p, nil
}

// envoRandomTx draws a transaction outside the class grid that the code wraps and ValidateBasic accepts; about
// 2 in 5 are free (zero price).
func envoRandomTx(r *rand.Rand, seed int64) (*envoTx, *envoSetupErr) {
	for try := 0; try < 200; try++ {
		c := envCase{Src: "random", Cls: map[string]string{}}
		f := envRandomFields(&c, r)
		if f.gas == 0 || f.gas > math.MaxInt64 {
			f.gas = 21000 + uint64(r.Int63n(30_000_000))
		}
		switch r.Intn(5) {
		case 0, 1:
			if f.typ == "dynamic" {
				f.cap, f.tip = new(big.Int), new(big.Int)
				if r.Intn(2) == 0 {
					f.cap, f.tip = nil, nil
				}
			} else {
				f.gasPrice = new(big.Int)
				if r.Intn(3) == 0 {
					f.gasPrice = nil
				}
			}
		case 2:
			f.gas = math.MaxInt64
		}
		if f.typ == "dynamic" && f.base == nil {
			f.base = envRandBits(r, 70)
		}
		p, err := envoMake(f, envoSubSeed(seed, "key", try))
		if err != nil {
			if err.stage == "wrap" {
				continue // out-of-range values are refused at construction
			}
			return nil, err
		}
		if st := envTry(func() error { return p.msg.ValidateBasic() }); st.Ok {
			return p, nil
		}
	}
	return nil, &envoSetupErr{"random-pool", "none of 200 random transactions was wrapped and accepted"}
}

func (s *envoScn) setup(cfg *envoCfg) *envoSetupErr {
	s.byHash = map[string]*envoTx{}
	s.builder = s.ec.txConfig.NewTxBuilder()
	if cfg.Src == "random" {
		r := rand.New(rand.NewSource(envoSubSeed(s.seed, "pool", 0)))
		for i, n := 0, 2+r.Intn(3); i < n; i++ {
			p, err := envoRandomTx(r, envoSubSeed(s.seed, "tx", i))
			if err != nil {
				return err
			}
			s.pool = append(s.pool, p)
		}
	} else {
		for i, cls := range cfg.Pool {
			sd := envoSubSeed(s.seed, "tx", i)
			f, err := envInstantiate(&envCase{Src: "grid", Cls: cls}, rand.New(rand.NewSource(sd)))
			if err != nil {
				return &envoSetupErr{"script", fmt.Sprintf("pool %d: %v", i+1, err)}
			}
			p, serr := envoMake(f, sd)
			if serr != nil {
				serr.err = fmt.Sprintf("pool %d: %s", i+1, serr.err)
				return serr
			}
			s.pool = append(s.pool, p)
		}
	}
	for _, p := range s.pool {
		h := p.tx.Hash().Hex()
		if _, dup := s.byHash[h]; dup {
			return &envoSetupErr{"script", "two originals with the same hash"}
		}
		s.byHash[h] = p
	}
	return nil
}

func envoInt(a M, k string) int {
	switch v := a[k].(type) {
	case float64:
		return int(v)
	case int:
		return v
	case json.Number:
		n, _ := v.Int64()
		return int(n)
	}
	return -1
}

func envoInts(a M, k string) []int {
	out := []int{}
	switch v := a[k].(type) {
	case []any:
		for _, e := range v {
			if f, ok := e.(float64); ok {
				out = append(out, int(f))
			}
		}
	case []int:
		out = v
	}
	return out
}

func envoStr(a M, k string) string { s, _ := a[k].(string); return s }

func (s *envoScn) envTx(env string) (sdk.Tx, error) {
	if env == "bld" {
		return s.builder.GetTx(), nil
	}
	var k int
	if _, err := fmt.Sscanf(env, "d%d", &k); err != nil || k < 1 || k > len(s.decs) {
		return nil, fmt.Errorf("no envelope %q", env)
	}
	return s.decs[k-1], nil
}

func (s *envoScn) msgAt(env string, idx int) (*evmtypes.MsgEthereumTx, error) {
	if env == "pool" {
		if idx < 1 || idx > len(s.pool) {
			return nil, fmt.Errorf("no pool message %d", idx)
		}
		return s.pool[idx-1].msg, nil
	}
	tx, err := s.envTx(env)
	if err != nil {
		return nil, err
	}
	msgs := tx.GetMsgs()
	if idx < 1 || idx > len(msgs) {
		return nil, fmt.Errorf("no message %d in %s", idx, env)
	}
	m, ok := msgs[idx-1].(*evmtypes.MsgEthereumTx)
	if !ok {
		return nil, fmt.Errorf("message %d of %s is %T", idx, env, msgs[idx-1])
	}
	return m, nil
}

func (s *envoScn) foreignHash() common.Hash {
	return crypto.Keccak256Hash([]byte(fmt.Sprintf("hv-c18-foreign-%d", s.seed)))
}

// exec performs one operation on the real objects.  It returns the outcome and the value the call returned
// ("-", a message view or a string); a malformed step is an error of the script, not an outcome.
func (s *envoScn) exec(st *envoStep) (out envStage, ret any, err error) {
	a := st.Args
	ret = "-"
	switch st.Ev {
	case "build":
		i := envoInt(a, "tx")
		if i < 1 || i > len(s.pool) {
			return out, ret, fmt.Errorf("build: no pool transaction %d", i)
		}
		out = envTry(func() error {
			_, err := s.pool[i-1].msg.BuildTx(s.builder, envEvmDenom)
			return err
		})
	case "pack":
		// the caller's own construction of an envelope with several Ethereum messages (what the ante handler
		// accepts: extension option, fee and gas limit summed over the messages)
		ids := envoInts(a, "txs")
		fee, gas := new(big.Int), new(big.Int)
		msgs := []sdk.Msg{}
		for _, i := range ids {
			if i < 1 || i > len(s.pool) {
				return out, ret, fmt.Errorf("pack: no pool transaction %d", i)
			}
			m := s.pool[i-1].msg
			msgs = append(msgs, m)
			fee.Add(fee, m.GetFee())
			gas.Add(gas, new(big.Int).SetUint64(m.GetGas()))
		}
		if fee.Cmp(envMax256) > 0 || !gas.IsUint64() {
			return envStage{false, "sum of fees or gas limits out of range"}, ret, nil
		}
		out = envTry(func() error {
			xb, ok := s.builder.(authtx.ExtensionOptionsTxBuilder)
			if !ok {
				return fmt.Errorf("unsupported builder")
			}
			opt, err := codectypes.NewAnyWithValue(&evmtypes.ExtensionOptionsEthereumTx{})
			if err != nil {
				return err
			}
			xb.SetExtensionOptions(opt)
			if err := s.builder.SetMsgs(msgs...); err != nil {
				return err
			}
			coins := sdk.Coins{}
			if fee.Sign() > 0 {
				coins = sdk.Coins{sdk.NewCoin(envEvmDenom, sdkmath.NewIntFromBigInt(fee))}
			}
			s.builder.SetFeeAmount(coins)
			s.builder.SetGasLimit(gas.Uint64())
			return nil
		})
	case "encode":
		tx, e := s.envTx(envoStr(a, "src"))
		if e != nil {
			return out, ret, e
		}
		brief := envoBrief(s.envView(tx))
		var bz []byte
		out = envTry(func() (err error) { bz, err = s.ec.txConfig.TxEncoder()(tx); return })
		if out.Ok {
			h := sha256.Sum256(bz)
			s.wires = append(s.wires, envoWire{bz: bz, brief: brief, sha: hex.EncodeToString(h[:8])})
		}
	case "decode":
		w := envoInt(a, "w")
		if w < 1 || w > len(s.wires) {
			return out, ret, fmt.Errorf("decode: no wire entry %d", w)
		}
		var d sdk.Tx
		out = envTry(func() (err error) { d, err = s.ec.txConfig.TxDecoder()(s.wires[w-1].bz); return })
		if out.Ok {
			s.decs = append(s.decs, d)
		}
	case "lookup":
		tx, e := s.envTx(envoStr(a, "env"))
		if e != nil {
			return out, ret, e
		}
		i := envoInt(a, "tx")
		var h common.Hash
		switch {
		case i == 0:
			h = s.foreignHash()
		case i >= 1 && i <= len(s.pool):
			h = s.pool[i-1].tx.Hash()
		default:
			return out, ret, fmt.Errorf("lookup: no pool transaction %d", i)
		}
		a["hash"] = h.Hex()
		var got *evmtypes.MsgEthereumTx
		out = envTry(func() (err error) { got, err = evmtypes.UnwrapEthereumMsg(&tx, h); return })
		if out.Ok && got != nil {
			ret = s.view(got)
		} else {
			ret = envoBlankView()
		}
	case "get":
		m, e := s.msgAt(envoStr(a, "env"), envoInt(a, "idx"))
		if e != nil {
			return out, ret, e
		}
		var val string
		out = envTry(func() (err error) { val, err = s.getter(m, envoStr(a, "fn")); return })
		if out.Ok {
			ret = val
		}
	default:
		return out, ret, fmt.Errorf("unknown operation %q", st.Ev)
	}
	return out, ret, nil
}

// getter calls ONE accessor of the message the way the node's code does and returns what it said.
func (s *envoScn) getter(m *evmtypes.MsgEthereumTx, fn string) (string, error) {
	base := s.baseOf(m.AsTransaction().Hash().Hex())
	chainID := func() (*big.Int, error) {
		td, err := evmtypes.UnpackTxData(m.Data)
		if err != nil {
			return nil, err
		}
		return td.GetChainID(), nil
	}
	switch fn {
	case "hash":
		return m.AsTransaction().Hash().Hex(), nil
	case "msgs":
		ms := m.GetMsgs()
		if len(ms) != 1 {
			return "", fmt.Errorf("%d messages", len(ms))
		}
		inner, ok := ms[0].(*evmtypes.MsgEthereumTx)
		if !ok {
			return "", fmt.Errorf("GetMsgs returned %T", ms[0])
		}
		return inner.AsTransaction().Hash().Hex(), nil
	case "marshal":
		bz, err := m.Marshal()
		if err != nil {
			return "", err
		}
		var cp evmtypes.MsgEthereumTx
		if err := cp.Unmarshal(bz); err != nil {
			return "", err
		}
		if err := cp.UnpackInterfaces(s.ec.registry); err != nil {
			return "", err
		}
		return cp.AsTransaction().Hash().Hex(), nil
	case "type":
		td, err := evmtypes.UnpackTxData(m.Data)
		if err != nil {
			return "", err
		}
		return envTypeName(td.TxType()), nil
	case "sender":
		id, err := chainID()
		if err != nil {
			return "", err
		}
		from, err := m.GetSender(id)
		if err != nil {
			return "", err
		}
		return strings.ToLower(from.Hex()), nil
	case "signers":
		sg := m.GetSigners()
		if len(sg) != 1 {
			return "", fmt.Errorf("%d signers", len(sg))
		}
		return strings.ToLower(common.BytesToAddress(sg[0]).Hex()), nil
	case "asmsg":
		id, err := chainID()
		if err != nil {
			return "", err
		}
		cm, err := m.AsMessage(ethtypes.LatestSignerForChainID(id), base)
		if err != nil {
			return "", err
		}
		return strings.ToLower(cm.From().Hex()), nil
	case "fee":
		return envBig(m.GetFee()), nil
	case "gas":
		return envU64(m.GetGas()), nil
	case "cost":
		td, err := evmtypes.UnpackTxData(m.Data)
		if err != nil {
			return "", err
		}
		return envBig(td.Cost()), nil
	case "effFee":
		return envBig(m.GetEffectiveFee(base)), nil
	case "vb":
		return envVbClass(envTry(func() error { return m.ValidateBasic() })), nil
	}
	return "", fmt.Errorf("unknown getter %q", fn)
}

var envoGetters = []string{"hash", "msgs", "marshal", "type", "sender", "signers", "asmsg", "fee", "gas", "cost", "effFee", "vb"}

const (
	envoMaxWire = 3
	envoMaxDec  = 3
)

// randomStep draws the next operation of a random scenario from what exists now.
func (s *envoScn) randomStep(r *rand.Rand) envoStep {
	n := len(s.pool)
	envs := []string{}
	if len(s.builder.GetTx().GetMsgs()) > 0 {
		envs = append(envs, "bld")
	}
	for k := range s.decs {
		envs = append(envs, fmt.Sprintf("d%d", k+1))
	}
	target := func(env string) int {
		tx, _ := s.envTx(env)
		msgs := tx.GetMsgs()
		if r.Intn(5) == 0 {
			return r.Intn(n + 1)
		}
		m := msgs[r.Intn(len(msgs))].(*evmtypes.MsgEthereumTx)
		h := m.AsTransaction().Hash().Hex()
		for i, p := range s.pool {
			if p.tx.Hash().Hex() == h {
				return i + 1
			}
		}
		return 0
	}
	for {
		switch r.Intn(10) {
		case 0, 1, 2:
			return envoStep{"build", M{"tx": 1 + r.Intn(n)}}
		case 3:
			k := 2 + r.Intn(2)
			if k > n {
				k = n
			}
			ids := []int{}
			for _, v := range r.Perm(n)[:k] {
				ids = append(ids, v+1)
			}
			return envoStep{"pack", M{"txs": ids}}
		case 4:
			if len(envs) > 0 && len(s.wires) < envoMaxWire {
				src := envs[r.Intn(len(envs))]
				if envs[0] == "bld" && r.Intn(2) == 0 {
					src = "bld"
				}
				return envoStep{"encode", M{"src": src}}
			}
		case 5:
			if len(s.wires) > 0 && len(s.decs) < envoMaxDec {
				w := len(s.wires)
				if r.Intn(3) == 0 {
					w = 1 + r.Intn(len(s.wires))
				}
				return envoStep{"decode", M{"w": w}}
			}
		case 6, 7:
			if len(envs) > 0 {
				env := envs[r.Intn(len(envs))]
				return envoStep{"lookup", M{"env": env, "tx": target(env)}}
			}
		default:
			all := append([]string{"pool"}, envs...)
			env := all[r.Intn(len(all))]
			cnt := n
			if env != "pool" {
				tx, _ := s.envTx(env)
				cnt = len(tx.GetMsgs())
			}
			return envoStep{"get", M{"env": env, "idx": 1 + r.Intn(cnt), "fn": envoGetters[r.Intn(len(envoGetters))]}}
		}
	}
}

func envoRunScenario(ec *envCodec, sc envoScript, scn int, nsteps int) [][]byte {
	var lines [][]byte
	emit := func(l M) {
		bz, err := json.Marshal(l)
		if err != nil {
			panic(err)
		}
		lines = append(lines, bz)
	}
	s := &envoScn{ec: ec, seed: *sc.Cfg.Seed}
	cfg := M{"src": sc.Cfg.Src, "seed": s.seed}
	if sc.Cfg.Src != "random" {
		cfg["pool"] = sc.Cfg.Pool
	}
	reset := M{"ev": "reset", "scn": scn, "src": sc.Cfg.Src, "cfg": cfg, "ok": true, "err": "", "stage": "", "args": M{"n": 0},
		"orig": []M{}, "o": []M{}, "base": []string{}, "geth": []M{}}
	if err := s.setup(&sc.Cfg); err != nil {
		reset["ok"], reset["err"], reset["stage"] = false, envClip(err.err), err.stage
		s.pool = nil
		s.builder = ec.txConfig.NewTxBuilder()
		reset["post"] = s.project()
		emit(reset)
		return lines
	}
	orig, os, bases, geth := []M{}, []M{}, []string{}, []M{}
	for _, p := range s.pool {
		orig = append(orig, p.ref)
		os = append(os, envDescribe(p.tx))
		bases = append(bases, envBig(p.base))
		geth = append(geth, envGethFigures(p.tx, p.base))
	}
	reset["orig"], reset["o"], reset["base"], reset["geth"] = orig, os, bases, geth
	reset["args"] = M{"n": len(s.pool)}
	reset["post"] = s.project()
	emit(reset)

	r := rand.New(rand.NewSource(envoSubSeed(s.seed, "steps", 0)))
	steps := sc.Steps
	random := sc.Cfg.Src == "random" && len(steps) == 0
	if random {
		steps = make([]envoStep, nsteps)
	}
	for i := range steps {
		st := steps[i]
		if random {
			st = s.randomStep(r)
		}
		out, ret, err := s.exec(&st)
		if err != nil {
			// a malformed script: reported on the line, the trace specification turns it into an infrastructure problem
			emit(M{"ev": "bad-step", "scn": scn, "args": st.Args, "ok": false, "err": envClip(err.Error()), "ret": "-",
				"post": s.project(), "what": st.Ev})
			continue
		}
		emit(M{"ev": st.Ev, "scn": scn, "args": st.Args, "ok": out.Ok, "err": out.Err, "ret": ret, "post": s.project(),
			"from": s.froms()})
	}
	return lines
}

func envOpsMain(args []string) error {
	fs := flag.NewFlagSet("envops", flag.ExitOnError)
	scriptsFile := fs.String("scripts", "", "JSON file {\"scripts\":[{cfg,steps}]}")
	random := fs.Int("random", 0, "number of seeded random scenarios")
	steps := fs.Int("steps", 14, "operations per random scenario")
	seed := fs.Int64("seed", 1, "seed")
	out := fs.String("out", "trace.ndjson", "trace output")
	workers := fs.Int("workers", 4, "parallel workers (output does not depend on it)")
	fs.Parse(args)

	cfg := encoding.MakeConfig(app.ModuleBasics)
	ec := &envCodec{txConfig: cfg.TxConfig, registry: cfg.InterfaceRegistry}

	var scripts []envoScript
	if *scriptsFile != "" {
		var sf envoScriptFile
		if err := readJSONFile(*scriptsFile, &sf); err != nil {
			return err
		}
		scripts = sf.Scripts
	}
	for i := range scripts {
		if scripts[i].Cfg.Src == "" {
			scripts[i].Cfg.Src = "script"
		}
	}
	for i := 0; i < *random; i++ {
		scripts = append(scripts, envoScript{Cfg: envoCfg{Src: "random"}})
	}
	for i := range scripts {
		if scripts[i].Cfg.Seed == nil {
			s := envoSubSeed(*seed, "scenario-"+scripts[i].Cfg.Src, i)
			scripts[i].Cfg.Seed = &s
		}
	}

	tw, err := NewTraceWriter(*out)
	if err != nil {
		return err
	}
	defer tw.Close()

	res := make([][][]byte, len(scripts))
	next := make(chan int, len(scripts))
	for i := range scripts {
		next <- i
	}
	close(next)
	var wg sync.WaitGroup
	for w := 0; w < *workers; w++ {
		wg.Add(1)
		go func() {
			defer wg.Done()
			for i := range next {
				res[i] = envoRunScenario(ec, scripts[i], i+1, *steps)
			}
		}()
	}
	wg.Wait()
	for _, ls := range res {
		for _, bz := range ls {
			tw.w.Write(bz)
			tw.w.WriteByte('\n')
			tw.N++
		}
	}
	fmt.Printf("envops: scenarios=%d lines=%d\n", len(scripts), tw.N)
	return nil
}
