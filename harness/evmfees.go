package main

// Driver for specs/EvmFees.tla (C07): one transaction per scenario, delivered through the real
// DeliverTx in block 1 of a fresh chain whose fee-market parameters (base fee, NoBaseFee,
// MinGasPrice, MinGasMultiplier, block max gas) come from the scenario.  The transaction is
// either a Cosmos MsgSend (with a chosen fee / gas and optionally the DynamicFee extension
// option) or an Ethereum transaction of one of the three types with one or two messages running
// scripted programs whose EVM gas is known independently of the response.  Balances of sender,
// recipient and fee collector are read from the bank keeper before and after the transaction
// inside the same block (before EndBlock).

import (
	"encoding/json"
	"flag"
	"fmt"
	"math/big"
	"math/rand"
	"strconv"
	"strings"

	sdkmath "cosmossdk.io/math"
	dbm "github.com/cometbft/cometbft-db"
	abci "github.com/cometbft/cometbft/abci/types"
	clienttx "github.com/cosmos/cosmos-sdk/client/tx"
	codectypes "github.com/cosmos/cosmos-sdk/codec/types"
	sdk "github.com/cosmos/cosmos-sdk/types"
	"github.com/cosmos/cosmos-sdk/types/tx/signing"
	authsigning "github.com/cosmos/cosmos-sdk/x/auth/signing"
	authtx "github.com/cosmos/cosmos-sdk/x/auth/tx"
	authtypes "github.com/cosmos/cosmos-sdk/x/auth/types"
	banktypes "github.com/cosmos/cosmos-sdk/x/bank/types"
	"github.com/cosmos/gogoproto/proto"
	"github.com/ethereum/go-ethereum/common"
	ethtypes "github.com/ethereum/go-ethereum/core/types"

	utiltx "github.com/haqq-network/haqq/testutil/tx"
	haqqtypes "github.com/haqq-network/haqq/types"
	"github.com/haqq-network/haqq/utils"
	evmtypes "github.com/haqq-network/haqq/x/evm/types"
	feemarkettypes "github.com/haqq-network/haqq/x/feemarket/types"
)

func init() { register("evmfees", efMain) }

// efParams are the network parameters of a scenario.  Decimals are 18-digit fixed point
// integers ("1500000000000000000" = 1.5), as the specification uses them.
type efParams struct {
	BaseFee   string `json:"baseFee"`
	NoBaseFee bool   `json:"noBaseFee"`
	Mgp18     string `json:"mgp18"`  // MinGasPrice x 10^18
	Mult18    string `json:"mult18"` // MinGasMultiplier x 10^18
	MaxGas    string `json:"maxGas"` // block gas limit (consensus parameter)
}

// efMsg is one Ethereum message.
type efMsg struct {
	From     string `json:"from"` // a1 | a2 | a3: the account that signs this message (default a1)
	Type     string `json:"type"` // legacy | access | dynamic
	Gas      string `json:"gas"`
	GasPrice string `json:"gasPrice"` // legacy, access
	Cap      string `json:"cap"`      // dynamic
	Tip      string `json:"tip"`      // dynamic
	Value    string `json:"value"`
	Prog     string `json:"prog"`           // transfer | calldata | stop | revert | invalid | loop | sstore | create
	Nz       int    `json:"nz,string"`      // non-zero calldata bytes (calldata)
	Z        int    `json:"z,string"`       // zero calldata bytes (calldata)
	AlAddrs  int    `json:"alAddrs,string"` // access list addresses (access, dynamic)
	AlKeys   int    `json:"alKeys,string"`  // access list storage keys
	Slots    int    `json:"slots,string"`   // storage slots cleared (sstore)
}

// efCosmos is the Cosmos transaction of a scenario (MsgSend sender -> recipient).
type efCosmos struct {
	Gas     string `json:"gas"`
	Fee     string `json:"fee"`     // aISLM amount; "" = no fee coins at all
	Ext     string `json:"ext"`     // none | dynfee | web3 (legacy EIP-712 extension option: its own ante chain)
	Sign    string `json:"sign"`    // direct | amino | eip712 (web3 is always signed the legacy EIP-712 way)
	MaxPrio string `json:"maxPrio"` // MaxPriorityPrice of the DynamicFee extension option
	Amount  string `json:"amount"`  // amount sent
}

type efScenario struct {
	Seed  int64     `json:"seed"`
	Tag   string    `json:"tag"`
	Par   efParams  `json:"par"`
	Route string    `json:"route"` // cosmos | eth
	Cos   *efCosmos `json:"cos,omitempty"`
	Msgs  []efMsg   `json:"msgs"`
}

var efOne18 = new(big.Int).Exp(big.NewInt(10), big.NewInt(18), nil)

func efDec(s string) sdkmath.LegacyDec {
	return sdkmath.LegacyNewDecFromBigIntWithPrec(mustBig(s), 18)
}

func efU64(s string) uint64 {
	v, err := strconv.ParseUint(s, 10, 64)
	if err != nil {
		panic("bad uint64 " + s)
	}
	return v
}

// efNewNode: chainkit's NewNode with the fee-market genesis taken from the scenario.  The base
// fee is enabled at height 1, so block 1 runs with exactly the genesis base fee (x/feemarket
// CalculateBaseFee returns the parameter unchanged at the enable height).
func efNewNode(w *World, par efParams) *Node {
	db := dbm.NewMemDB()
	n := &Node{W: w, DB: db, App: openApp(db), Time: GenesisTime}
	gs, _ := w.GenesisState()
	cdc := encCfg.Codec
	var fm feemarkettypes.GenesisState
	cdc.MustUnmarshalJSON(gs[feemarkettypes.ModuleName], &fm)
	fm.Params.NoBaseFee = par.NoBaseFee
	fm.Params.BaseFee = sdkmath.NewIntFromBigInt(mustBig(par.BaseFee))
	fm.Params.MinGasPrice = efDec(par.Mgp18)
	fm.Params.MinGasMultiplier = efDec(par.Mult18)
	fm.Params.EnableHeight = 1
	gs[feemarkettypes.ModuleName] = cdc.MustMarshalJSON(&fm)
	stateBytes, err := json.Marshal(gs)
	if err != nil {
		panic(err)
	}
	n.App.InitChain(abci.RequestInitChain{ChainId: ChainID, Time: GenesisTime, Validators: []abci.ValidatorUpdate{},
		ConsensusParams: w.ConsensusParams(), AppStateBytes: stateBytes, InitialHeight: 1})
	return n
}

// efBuildCosmosTx is chainkit's BuildCosmosTx plus extension options.
func efBuildCosmosTx(k Key, mode signing.SignMode, gas uint64, fee sdk.Coins, accNum, seq uint64, ext *codectypes.Any, msgs ...sdk.Msg) ([]byte, error) {
	b := txConfig.NewTxBuilder()
	if err := b.SetMsgs(msgs...); err != nil {
		return nil, err
	}
	b.SetGasLimit(gas)
	b.SetFeeAmount(fee)
	if ext != nil {
		b.(authtx.ExtensionOptionsTxBuilder).SetExtensionOptions(ext)
	}
	sig := signing.SignatureV2{PubKey: k.Priv.PubKey(), Data: &signing.SingleSignatureData{SignMode: mode}, Sequence: seq}
	if err := b.SetSignatures(sig); err != nil {
		return nil, err
	}
	sd := authsigning.SignerData{ChainID: ChainID, AccountNumber: accNum, Sequence: seq,
		Address: sdk.AccAddress(k.Priv.PubKey().Address()).String(), PubKey: k.Priv.PubKey()}
	sig, err := clienttx.SignWithPrivKey(mode, sd, b, k.Priv, txConfig, seq)
	if err != nil {
		return nil, err
	}
	if err := b.SetSignatures(sig); err != nil {
		return nil, err
	}
	return txConfig.TxEncoder()(b.GetTx())
}

// scripted programs (raw opcodes)
func efProgCode(prog string, slots int) []byte {
	switch prog {
	case "stop":
		return []byte{0x00}
	case "revert": // PUSH1 0 PUSH1 0 REVERT: 6 gas
		return []byte{0x60, 0x00, 0x60, 0x00, 0xfd}
	case "invalid": // INVALID: consumes all gas
		return []byte{0xfe}
	case "loop": // JUMPDEST PUSH1 0 JUMP: runs out of gas
		return []byte{0x5b, 0x60, 0x00, 0x56}
	case "sstore": // clears slots 1..n (set non-zero at set-up): refund-heavy
		var c []byte
		for i := 1; i <= slots; i++ {
			c = append(c, 0x60, 0x00, 0x60, byte(i), 0x55)
		}
		return append(c, 0x00)
	}
	return nil
}

// efSenders are the accounts that may sign messages; their balances are tracked in every scenario
// (the Cosmos transaction is always sent by a1; the recipient of transfers is a4, "rcpt").
var efSenders = map[string]bool{"a1": true, "a2": true, "a3": true}

type efRun struct {
	n      *Node
	sender Key
	rcpt   Key
	to     []*common.Address
	txs    []byte
}

func efProgAddr(seed int64, i int, m efMsg) common.Address {
	return ethAddr(DetKey(seed, fmt.Sprintf("prog:%d:%s:%d", i, m.Prog, m.Slots)))
}

// efCalldata returns nz non-zero bytes followed by z zero bytes.
func efCalldata(nz, z int) []byte {
	d := make([]byte, 0, nz+z)
	for i := 0; i < nz; i++ {
		d = append(d, byte(1+i%255))
	}
	for i := 0; i < z; i++ {
		d = append(d, 0)
	}
	return d
}

func efAccessList(addrs, keys int) ethtypes.AccessList {
	al := ethtypes.AccessList{}
	for i := 0; i < addrs; i++ {
		t := ethtypes.AccessTuple{Address: common.BigToAddress(big.NewInt(int64(0xacc000 + i)))}
		al = append(al, t)
	}
	for j := 0; j < keys; j++ {
		al[0].StorageKeys = append(al[0].StorageKeys, common.BigToHash(big.NewInt(int64(j+1))))
	}
	return al
}

// efPrepare creates the chain of a scenario up to the point where the transaction under test
// can be delivered (block 1 begun, programs installed) and builds the transaction bytes.
func efPrepare(sc efScenario, par efParams) (*efRun, error) {
	cfg := DefaultGenesisCfg(sc.Seed)
	cfg.NAccts, cfg.NVals, cfg.Coinomics = 4, 1, false
	cfg.MaxGas = int64(efU64(par.MaxGas))
	w := NewWorld(cfg)
	n := efNewNode(w, par)
	r := &efRun{n: n, sender: w.Acct("a1"), rcpt: w.Acct("a4")}
	n.BeginBlock(BlockIn{DtMs: 5000, Proposer: 0})
	ctx := n.Ctx()
	ew := &EvmWorld{N: n, Roles: map[string]Key{}}

	if sc.Route == "cosmos" {
		c := sc.Cos
		acc := n.App.AccountKeeper.GetAccount(ctx, r.sender.Addr)
		fee := sdk.Coins{}
		if c.Fee != "" {
			fee = sdk.Coins{sdk.Coin{Denom: utils.BaseDenom, Amount: sdkmath.NewIntFromBigInt(mustBig(c.Fee))}}
		}
		var ext *codectypes.Any
		if c.Ext == "dynfee" {
			a, err := codectypes.NewAnyWithValue(&haqqtypes.ExtensionOptionDynamicFeeTx{MaxPriorityPrice: sdkmath.NewIntFromBigInt(mustBig(c.MaxPrio))})
			if err != nil {
				return nil, err
			}
			ext = a
		}
		msg := banktypes.NewMsgSend(r.sender.Addr, r.rcpt.Addr, sdk.NewCoins(sdk.NewCoin(utils.BaseDenom, sdkmath.NewIntFromBigInt(mustBig(c.Amount)))))
		var bz []byte
		var err error
		switch {
		case c.Ext == "web3" || c.Sign == "eip712":
			// EIP-712 typed data signed with the Ethereum key: with the Web3Tx extension option (legacy
			// typed data, FeePayerSig; routed to the legacy EIP-712 ante chain) or as the signature of an
			// ordinary transaction on the default chain
			if ext != nil {
				return nil, fmt.Errorf("eip712 signing with extension option %q is not scripted", c.Ext)
			}
			legacy := c.Ext == "web3"
			b, err2 := utiltx.PrepareEIP712CosmosTx(ctx, n.App, utiltx.EIP712TxArgs{
				CosmosTxArgs:       utiltx.CosmosTxArgs{TxCfg: txConfig, Priv: r.sender.Priv, ChainID: ChainID, Gas: efU64(c.Gas), Fees: fee, Msgs: []sdk.Msg{msg}},
				UseLegacyExtension: legacy, UseLegacyTypedData: legacy})
			if err2 != nil {
				return nil, err2
			}
			bz, err = txConfig.TxEncoder()(b.GetTx())
		case c.Sign == "amino":
			bz, err = efBuildCosmosTx(r.sender, signing.SignMode_SIGN_MODE_LEGACY_AMINO_JSON, efU64(c.Gas), fee, acc.GetAccountNumber(), acc.GetSequence(), ext, msg)
		case c.Sign == "direct":
			bz, err = efBuildCosmosTx(r.sender, signing.SignMode_SIGN_MODE_DIRECT, efU64(c.Gas), fee, acc.GetAccountNumber(), acc.GetSequence(), ext, msg)
		default:
			return nil, fmt.Errorf("unknown sign mode %q", c.Sign)
		}
		if err != nil {
			return nil, err
		}
		r.txs = bz
		return r, nil
	}

	// every message is signed by its own sender; nonces count per sender
	sent := map[string]uint64{}
	var msgs []*evmtypes.MsgEthereumTx
	for i, m := range sc.Msgs {
		if !efSenders[m.From] {
			return nil, fmt.Errorf("unknown sender %q", m.From)
		}
		from := w.Acct(m.From)
		o := EthTxOpts{Nonce: n.App.EvmKeeper.GetNonce(ctx, ethAddr(from)) + sent[m.From], Value: mustBig(m.Value), Gas: efU64(m.Gas), ChainID: n.App.EvmKeeper.ChainID()}
		sent[m.From]++
		switch m.Type {
		case "legacy":
			o.Type, o.GasPrice = 0, mustBig(m.GasPrice)
		case "access":
			o.Type, o.GasPrice, o.Access = 1, mustBig(m.GasPrice), efAccessList(m.AlAddrs, m.AlKeys)
		case "dynamic":
			o.Type, o.FeeCap, o.TipCap, o.Access = 2, mustBig(m.Cap), mustBig(m.Tip), efAccessList(m.AlAddrs, m.AlKeys)
		default:
			return nil, fmt.Errorf("unknown tx type %q", m.Type)
		}
		switch m.Prog {
		case "transfer":
			a := ethAddr(r.rcpt)
			o.To = &a
		case "calldata":
			a := ethAddr(r.rcpt)
			o.To, o.Data = &a, efCalldata(m.Nz, m.Z)
		case "create":
			o.To, o.Data = nil, efCalldata(0, m.Z) // init code of zero bytes: the first one is STOP, nothing is deployed
		case "stop", "revert", "invalid", "loop", "sstore":
			a := efProgAddr(sc.Seed, i, m)
			if err := ew.InstallCode(ctx, a, efProgCode(m.Prog, m.Slots), nil); err != nil {
				return nil, err
			}
			for s := 1; s <= m.Slots && m.Prog == "sstore"; s++ {
				n.App.EvmKeeper.SetState(ctx, a, common.BigToHash(big.NewInt(int64(s))), common.BigToHash(big.NewInt(1)).Bytes())
			}
			o.To, o.Data = &a, efCalldata(m.Nz, m.Z)
		default:
			return nil, fmt.Errorf("unknown program %q", m.Prog)
		}
		r.to = append(r.to, o.To)
		msg, err := BuildEthMsg(from, o)
		if err != nil {
			return nil, err
		}
		msgs = append(msgs, msg)
	}
	bz, err := WrapEthMsgs(msgs...)
	if err != nil {
		return nil, err
	}
	r.txs = bz
	return r, nil
}

func (r *efRun) balances() M {
	ctx := r.n.Ctx()
	bal := func(a sdk.AccAddress) string {
		return bigStr(r.n.App.BankKeeper.GetBalance(ctx, a, utils.BaseDenom).Amount)
	}
	out := M{"rcpt": bal(r.rcpt.Addr), "collector": bal(authtypes.NewModuleAddress(authtypes.FeeCollectorName))}
	for a := range efSenders {
		out[a] = bal(r.n.W.Acct(a).Addr)
	}
	return out
}

type efResp struct {
	present bool
	gasUsed uint64
	vmError string
}

func efDecodeResponses(data []byte, want int) []efResp {
	out := make([]efResp, want)
	var tmd sdk.TxMsgData
	if len(data) == 0 || proto.Unmarshal(data, &tmd) != nil {
		return out
	}
	for i := 0; i < want && i < len(tmd.MsgResponses); i++ {
		var res evmtypes.MsgEthereumTxResponse
		if proto.Unmarshal(tmd.MsgResponses[i].Value, &res) == nil {
			out[i] = efResp{present: true, gasUsed: res.GasUsed, vmError: res.VmError}
		}
	}
	return out
}

// efOutcome names the execution outcome of a message (used to label classes only).
func efOutcome(rp efResp) string {
	switch {
	case !rp.present:
		return "-"
	case rp.vmError == "":
		return "success"
	case rp.vmError == "execution reverted":
		return "revert"
	case strings.Contains(rp.vmError, "out of gas"), strings.Contains(rp.vmError, "invalid opcode"), strings.Contains(rp.vmError, "not enough gas"):
		return "oog"
	}
	return "other"
}

func efNeedsTwin(sc efScenario) bool {
	for _, m := range sc.Msgs {
		if m.Prog == "sstore" {
			return true
		}
	}
	return false
}

func efNorm(sc efScenario) efScenario {
	if sc.Cos == nil {
		sc.Cos = &efCosmos{Gas: "0", Fee: "0", Ext: "none", Sign: "direct", MaxPrio: "0", Amount: "0"}
	}
	if sc.Cos.Ext == "" {
		sc.Cos.Ext = "none"
	}
	if sc.Cos.Ext == "web3" {
		sc.Cos.Sign = "eip712"
	}
	if sc.Cos.Sign == "" {
		sc.Cos.Sign = "direct"
	}
	if sc.Cos.MaxPrio == "" {
		sc.Cos.MaxPrio = "0"
	}
	if sc.Cos.Amount == "" {
		sc.Cos.Amount = "0"
	}
	if sc.Par.MaxGas == "" {
		sc.Par.MaxGas = "40000000"
	}
	ms := make([]efMsg, len(sc.Msgs))
	for i, m := range sc.Msgs {
		if m.From == "" {
			m.From = "a1"
		}
		if m.Type != "dynamic" {
			m.Cap, m.Tip = m.GasPrice, m.GasPrice
		} else {
			m.GasPrice = m.Cap
		}
		if m.Value == "" {
			m.Value = "0"
		}
		if m.Type == "legacy" {
			m.AlAddrs, m.AlKeys = 0, 0
		}
		if m.AlKeys > 0 && m.AlAddrs == 0 {
			m.AlAddrs = 1
		}
		if m.Prog == "create" {
			m.Nz = 0 // init code of zero bytes only (STOP)
			if m.Z == 0 {
				m.Z = 1
			}
		}
		if m.Prog == "transfer" {
			m.Nz, m.Z = 0, 0
		}
		if m.Prog != "sstore" {
			m.Slots = 0
		} else if m.Slots <= 0 {
			m.Slots = 4
		}
		ms[i] = m
	}
	sc.Msgs = ms
	return sc
}

func efOneScenario(tw *TraceWriter, scn int, src string, sc efScenario) {
	sc = efNorm(sc)
	r, err := efPrepare(sc, sc.Par)
	if err != nil {
		panic(err)
	}
	// the parameters in effect, read back from the real store in the block of the transaction
	fp := r.n.App.FeeMarketKeeper.GetParams(r.n.Ctx())
	par := M{"baseFee": bigStr(fp.BaseFee), "noBaseFee": fp.NoBaseFee, "mgp18": fp.MinGasPrice.BigInt().String(),
		"mult18": fp.MinGasMultiplier.BigInt().String(), "maxGas": sc.Par.MaxGas}

	// twin node: the same transaction with MinGasMultiplier = 0 gives the EVM gas after refunds of
	// programs whose cost the specification does not compute itself
	twin := make([]string, len(sc.Msgs))
	for i := range twin {
		twin[i] = "-1"
	}
	if sc.Route == "eth" && efNeedsTwin(sc) {
		tp := sc.Par
		tp.Mult18 = "0"
		t, err := efPrepare(sc, tp)
		if err != nil {
			panic(err)
		}
		tres := t.n.Deliver(t.txs)
		if tres.Code == 0 {
			for i, rp := range efDecodeResponses(tres.Data, len(sc.Msgs)) {
				if rp.present {
					twin[i] = fmt.Sprint(rp.gasUsed)
				}
			}
		}
	}

	pre := r.balances()
	res := r.n.Deliver(r.txs)
	post := r.balances()

	resps := efDecodeResponses(res.Data, len(sc.Msgs))
	msgs := []any{}
	for i, m := range sc.Msgs {
		rp := resps[i]
		if res.Code != 0 {
			rp = efResp{}
		}
		msgs = append(msgs, M{"from": m.From, "type": m.Type, "gas": m.Gas, "gasPrice": m.GasPrice, "cap": m.Cap, "tip": m.Tip, "value": m.Value,
			"prog": m.Prog, "nz": fmt.Sprint(m.Nz), "z": fmt.Sprint(m.Z), "alAddrs": fmt.Sprint(m.AlAddrs), "alKeys": fmt.Sprint(m.AlKeys),
			"slots": fmt.Sprint(m.Slots), "twinGas": twin[i],
			"resp": M{"present": rp.present, "gasUsed": fmt.Sprint(rp.gasUsed), "failed": rp.vmError != "", "vmError": rp.vmError, "outcome": efOutcome(rp)}})
	}
	c := sc.Cos
	feeStr := c.Fee
	if feeStr == "" {
		feeStr = "0"
	}
	l := res.Log
	if len(l) > 200 {
		l = l[:200]
	}
	tw.Emit(M{"ev": "tx", "scn": scn, "src": src, "tag": sc.Tag, "cfgJson": jsonStr(sc), "par": par, "route": sc.Route,
		"cos":  M{"gas": c.Gas, "fee": feeStr, "hasFee": c.Fee != "", "ext": c.Ext, "sign": c.Sign, "maxPrio": c.MaxPrio, "amount": c.Amount},
		"msgs": msgs, "pre": pre, "post": post,
		"res": M{"code": int(res.Code), "codespace": res.Codespace, "gasUsed": fmt.Sprint(res.GasUsed), "gasWanted": fmt.Sprint(res.GasWanted), "log": l}})
}

// ---------------------------------------------------------------------------------------
// seeded random parameter points (beyond the grid of the specification)

func efRandBig(rnd *rand.Rand, digits int) *big.Int {
	d := 1 + rnd.Intn(digits)
	v := new(big.Int)
	for i := 0; i < d; i++ {
		v.Mul(v, big.NewInt(10))
		v.Add(v, big.NewInt(int64(rnd.Intn(10))))
	}
	return v
}

// efNear picks a value in a chosen relation to x.
func efNear(rnd *rand.Rand, x *big.Int) *big.Int {
	switch rnd.Intn(7) {
	case 0:
		return new(big.Int).Set(x)
	case 1:
		return new(big.Int).Add(x, big.NewInt(1))
	case 2:
		if x.Sign() > 0 {
			return new(big.Int).Sub(x, big.NewInt(1))
		}
		return new(big.Int)
	case 3:
		return new(big.Int).Mul(x, big.NewInt(int64(2+rnd.Intn(3))))
	case 4:
		return new(big.Int).Div(x, big.NewInt(int64(2+rnd.Intn(3))))
	case 5:
		return new(big.Int).Add(x, efRandBig(rnd, 10))
	}
	return efRandBig(rnd, 12)
}

func efRandomScenario(rnd *rand.Rand, seed int64) efScenario {
	base := efRandBig(rnd, 11)
	if rnd.Intn(10) == 0 {
		base = big.NewInt(0)
	}
	par := efParams{BaseFee: base.String(), NoBaseFee: rnd.Intn(8) == 0, MaxGas: "40000000"}
	// min gas price: 0, or near the base fee, possibly with a fractional part
	mgp := new(big.Int)
	if rnd.Intn(4) != 0 {
		mgp = new(big.Int).Mul(efNear(rnd, base), efOne18)
		if rnd.Intn(3) == 0 {
			mgp.Add(mgp, new(big.Int).Div(efOne18, big.NewInt(int64(2+rnd.Intn(7)))))
		}
	}
	par.Mgp18 = mgp.String()
	switch rnd.Intn(5) {
	case 0:
		par.Mult18 = "0"
	case 1:
		par.Mult18 = efOne18.String()
	case 2:
		par.Mult18 = "500000000000000000"
	default:
		par.Mult18 = new(big.Int).Rand(rnd, efOne18).String()
	}
	effBase := base
	if par.NoBaseFee {
		effBase = big.NewInt(0)
	}
	floor := new(big.Int).Div(mgp, efOne18)
	ref := effBase
	if rnd.Intn(2) == 0 {
		ref = floor
	}
	sc := efScenario{Seed: seed, Tag: "random", Par: par}
	if rnd.Intn(5) == 0 {
		gas := uint64(150000 + rnd.Intn(200000))
		price := efNear(rnd, ref)
		fee := new(big.Int).Mul(price, new(big.Int).SetUint64(gas))
		if rnd.Intn(3) == 0 {
			fee.Add(fee, big.NewInt(int64(rnd.Intn(int(gas%1000000)+1))))
		}
		c := &efCosmos{Gas: fmt.Sprint(gas), Fee: fee.String(), Ext: "none", Sign: "direct", MaxPrio: "0", Amount: fmt.Sprint(1 + rnd.Intn(1000))}
		// entry point: DynamicFee extension option, or the default chain signed direct / amino-json /
		// EIP-712, or the legacy EIP-712 chain (Web3Tx extension option)
		switch rnd.Intn(8) {
		case 0, 1, 2:
			c.Ext = "dynfee"
			c.MaxPrio = efNear(rnd, new(big.Int).Abs(new(big.Int).Sub(price, effBase))).String()
		case 3:
			c.Sign = "amino"
		case 4:
			c.Sign = "eip712"
		case 5, 6:
			c.Ext, c.Sign = "web3", "eip712"
		}
		sc.Route, sc.Cos = "cosmos", c
		return sc
	}
	sc.Route = "eth"
	nmsgs := 1
	if rnd.Intn(4) == 0 {
		nmsgs = 2 + rnd.Intn(2)
	}
	progs := []string{"transfer", "calldata", "stop", "revert", "invalid", "loop", "sstore", "create"}
	for i := 0; i < nmsgs; i++ {
		m := efMsg{From: "a1", Type: []string{"legacy", "access", "dynamic"}[rnd.Intn(3)], Prog: progs[rnd.Intn(len(progs))], Value: "0"}
		if nmsgs > 1 {
			m.From = []string{"a1", "a2", "a3"}[rnd.Intn(3)]
		}
		if rnd.Intn(2) == 0 && m.Prog != "create" {
			m.Value = efRandBig(rnd, 15).String()
		}
		if m.Prog == "calldata" || rnd.Intn(4) == 0 {
			m.Nz, m.Z = rnd.Intn(40), rnd.Intn(40)
		}
		if m.Type != "legacy" && rnd.Intn(3) == 0 {
			m.AlAddrs, m.AlKeys = 1+rnd.Intn(3), rnd.Intn(4)
		}
		if m.Prog == "sstore" {
			m.Slots = 1 + rnd.Intn(12)
		}
		if m.Prog == "create" {
			m.Nz, m.Z = 0, 1+rnd.Intn(20)
		}
		intrinsic := 21000 + 16*m.Nz + 4*m.Z + 2400*m.AlAddrs + 1900*m.AlKeys
		if m.Prog == "create" {
			intrinsic += 32000
		}
		var gas int
		switch rnd.Intn(6) {
		case 0:
			gas = intrinsic
		case 1:
			gas = intrinsic + rnd.Intn(12)
		case 2:
			gas = 2 * intrinsic
		case 3:
			gas = intrinsic + 5006*m.Slots + rnd.Intn(3000)
		default:
			gas = intrinsic + rnd.Intn(900000)
		}
		m.Gas = fmt.Sprint(gas)
		price := efNear(rnd, ref)
		if m.Type == "dynamic" {
			m.Tip = efNear(rnd, new(big.Int).Abs(new(big.Int).Sub(price, effBase))).String()
			m.Cap = price.String()
			if rnd.Intn(3) == 0 {
				m.Cap = new(big.Int).Add(price, efRandBig(rnd, 9)).String()
			}
		} else {
			m.GasPrice = price.String()
		}
		sc.Msgs = append(sc.Msgs, m)
	}
	return sc
}

func efMain(args []string) error {
	fs := flag.NewFlagSet("evmfees", flag.ExitOnError)
	scripts := fs.String("scripts", "", "JSON file: array of scenarios")
	nrandom := fs.Int("random", 0, "number of seeded random scenarios (appended after the scripts)")
	seed := fs.Int64("seed", 1, "seed")
	out := fs.String("out", "trace.ndjson", "trace output")
	from := fs.Int("from", 0, "first scenario index")
	to := fs.Int("to", -1, "last scenario index (exclusive)")
	fs.Parse(args)
	var all []efScenario
	if *scripts != "" {
		if err := readJSONFile(*scripts, &all); err != nil {
			return err
		}
	}
	nscripts := len(all)
	for i := 0; i < *nrandom; i++ {
		// every random scenario has its own generator: identical whatever the chunking
		rnd := rand.New(rand.NewSource(*seed*1_000_003 + int64(i)))
		all = append(all, efRandomScenario(rnd, *seed*100000+int64(i)))
	}
	tw, err := NewTraceWriter(*out)
	if err != nil {
		return err
	}
	defer tw.Close()
	if *to < 0 || *to > len(all) {
		*to = len(all)
	}
	for i := *from; i < *to; i++ {
		sc := all[i]
		src := "script"
		if i >= nscripts {
			src = "random"
		}
		if sc.Seed == 0 {
			sc.Seed = *seed*100000 + int64(i)
		}
		func() {
			defer func() {
				if rec := recover(); rec != nil {
					tw.Emit(M{"ev": "skip", "scn": i + 1, "why": fmt.Sprint(rec)})
				}
			}()
			efOneScenario(tw, i+1, src, sc)
		}()
	}
	fmt.Printf("evmfees: scenarios=%d lines=%d\n", *to-*from, tw.N)
	return nil
}
