package main

// Driver for specs/VestingLock.tla (property C08: locked and unvested coins cannot leave a
// clawback-vesting account).
//
//   hv vestinglock --scripts s.json --random N --seed S --out trace.ndjson
//
// Every scenario is a fresh chain (chainkit: real ABCI node, deterministic genesis, three
// validators).  A funder (a1) creates the vesting account vx1 - whose key the harness holds - with
// MsgCreateClawbackVestingAccount and scripted lockup / vesting periods (optionally in two
// denominations: aISLM and the liquid denomination aLIQUID0, which has an ERC20 pair), adds free
// funds, and the scenario then attacks the account through every debit path and every delegation
// path the harness can drive, interleaved with time steps, undelegations, slashing (double-sign
// evidence), clawback and merged grants.  Every transaction goes through DeliverTx (ante handlers,
// fee deduction, eth vesting ante check included).  After every transaction - in the same block,
// on the deliver state - the account is projected from the real stores:
//   bank balance per denomination, stored schedule (start, end, lockup and vesting periods,
//   original vesting, delegated free / vesting), bonded and unbonding amounts, block time.
// Amounts are chosen relative to what the CODE says is spendable (exactly spendable, +1, all,
// half, 1, huge) or in script units; the verdict is computed by TLC from the logged schedule.
//
// Script step:  {"ev": kind, "args": {"how": label, "amt": {"aISLM": units}, "deleg": units, "dt": s, "grant": {...}}}
// Trace line:   {"ev","args"(resolved, real amounts),"ok","err","code","post","scn"}; "reset" carries cfg and the script.

import (
	"encoding/base64"
	"encoding/json"
	"flag"
	"fmt"
	"math/big"
	"math/rand"
	"os"
	"sort"
	"strings"
	"time"

	sdkmath "cosmossdk.io/math"
	dbm "github.com/cometbft/cometbft-db"
	abci "github.com/cometbft/cometbft/abci/types"
	codectypes "github.com/cosmos/cosmos-sdk/codec/types"
	"github.com/cosmos/cosmos-sdk/crypto/keys/ed25519"
	sdk "github.com/cosmos/cosmos-sdk/types"
	sdkvesting "github.com/cosmos/cosmos-sdk/x/auth/vesting/types"
	"github.com/cosmos/cosmos-sdk/x/authz"
	banktypes "github.com/cosmos/cosmos-sdk/x/bank/types"
	distrtypes "github.com/cosmos/cosmos-sdk/x/distribution/types"
	"github.com/cosmos/cosmos-sdk/x/feegrant"
	govv1beta1 "github.com/cosmos/cosmos-sdk/x/gov/types/v1beta1"
	stakingtypes "github.com/cosmos/cosmos-sdk/x/staking/types"
	"github.com/ethereum/go-ethereum/common"
	ethcrypto "github.com/ethereum/go-ethereum/crypto"

	stakingprecompile "github.com/haqq-network/haqq/precompiles/staking"
	"github.com/haqq-network/haqq/utils"
	erc20types "github.com/haqq-network/haqq/x/erc20/types"
	evmtypes "github.com/haqq-network/haqq/x/evm/types"
	liquidvestingtypes "github.com/haqq-network/haqq/x/liquidvesting/types"
	ucdaotypes "github.com/haqq-network/haqq/x/ucdao/types"
	vestingtypes "github.com/haqq-network/haqq/x/vesting/types"
)

func init() { register("vestinglock", vlMain) }

const (
	vlLiq  = "aLIQUID0"
	vlBond = utils.BaseDenom
)

var vlDenoms = []string{vlBond, vlLiq}

type vlPeriod struct {
	Len int64             `json:"len"`
	Amt map[string]string `json:"amt"` // units per denomination
}

type vlInit struct {
	StartOff int64      `json:"startOff"` // start time = creation block time + startOff
	Lockup   []vlPeriod `json:"lockup"`
	Vesting  []vlPeriod `json:"vesting"`
	Extra    string     `json:"extra"` // free funds in units of the bond denom
	Grants   bool       `json:"grants"`
	Code     bool       `json:"code"`
	Plain    bool       `json:"plain"` // the account starts as a plain funded account (no vesting schedule yet)
}

type vlCfg struct {
	Seed int64  `json:"seed"`
	Fees bool   `json:"fees"` // base fee on: every transaction pays real fees
	Unit string `json:"unit"` // base amount of one script unit
	Dust string `json:"dust"` // extra free base amount (gas money when fees are on)
	Init vlInit `json:"init"`
}

type vlStep struct {
	Ev   string `json:"ev"`
	Args M      `json:"args"`
}

type vlScript struct {
	Cfg   vlCfg    `json:"cfg"`
	Steps []vlStep `json:"steps"`
}

type vlExec struct {
	n     *Node
	w     *World
	cfg   vlCfg
	tw    *TraceWriter
	scn   int
	unit  *big.Int
	base  int64
	vx    Key
	a1    Key // funder
	a2    Key // recipient / third party
	a3    Key // grantee
	a4    Key
	ctr   common.Address // contract that holds the staking-precompile grant
	evw   *EvmWorld
	open  bool
	curV  int
	nsl   int
	madeV bool
	stats map[string]int
	dbg   bool
}

func vlBig(v any) *big.Int {
	s := fmt.Sprint(v)
	if s == "" || s == "<nil>" {
		return new(big.Int)
	}
	if f, ok := v.(float64); ok {
		return big.NewInt(int64(f))
	}
	b, ok := new(big.Int).SetString(s, 10)
	if !ok {
		panic("bad integer " + s)
	}
	return b
}

func vlInt(i *big.Int) sdkmath.Int { return sdkmath.NewIntFromBigInt(i) }

func (x *vlExec) units(u any) *big.Int { return new(big.Int).Mul(vlBig(u), x.unit) }

// coinsOf turns a units map into coins (zero entries dropped).
func (x *vlExec) coinsOf(m map[string]string) sdk.Coins {
	out := sdk.Coins{}
	for _, d := range vlDenoms {
		if s, ok := m[d]; ok {
			a := x.units(s)
			if a.Sign() > 0 {
				out = out.Add(sdk.NewCoin(d, vlInt(a)))
			}
		}
	}
	return out
}

func (x *vlExec) periods(ps []vlPeriod) sdkvesting.Periods {
	out := sdkvesting.Periods{}
	for _, p := range ps {
		out = append(out, sdkvesting.Period{Length: p.Len, Amount: x.coinsOf(p.Amt)})
	}
	return out
}

// msgPeriods maps a model schedule onto what a message may carry: period lengths must be >= 1
// in messages; a schedule that is a single zero-length period is expressed by leaving the
// schedule out (the message server defaults it to one instant period).
func (x *vlExec) msgPeriods(ps []vlPeriod) sdkvesting.Periods {
	if len(ps) == 1 && ps[0].Len == 0 {
		return nil
	}
	out := x.periods(ps)
	for i := range out {
		if out[i].Length < 1 {
			out[i].Length = 1
		}
	}
	return out
}

// msgSchedules: both schedules of a message; a message must carry at least one of them, so when
// both are instant the vesting schedule is sent with a one-second period
func (x *vlExec) msgSchedules(lockup, vesting []vlPeriod) (sdkvesting.Periods, sdkvesting.Periods) {
	lk, vs := x.msgPeriods(lockup), x.msgPeriods(vesting)
	if lk == nil && vs == nil {
		vs = x.periods(vesting)
		for i := range vs {
			vs[i].Length = 1
		}
	}
	return lk, vs
}

func vlCoinMap(c sdk.Coins) M {
	m := M{}
	for _, d := range vlDenoms {
		m[d] = bigStr(c.AmountOf(d))
	}
	return m
}

func vlPeriodList(ps sdkvesting.Periods) []any {
	out := []any{}
	for _, p := range ps {
		out = append(out, M{"len": p.Length, "amt": vlCoinMap(p.Amount)})
	}
	return out
}

func (x *vlExec) now() int64 { return x.n.Time.Unix() - x.base }

func (x *vlExec) vacc(ctx sdk.Context) *vestingtypes.ClawbackVestingAccount {
	acc := x.n.App.AccountKeeper.GetAccount(ctx, x.vx.Addr)
	va, _ := acc.(*vestingtypes.ClawbackVestingAccount)
	return va
}

// project reads the abstract state of the vesting account from the real stores.
func (x *vlExec) project() M {
	ctx := x.n.Ctx()
	app := x.n.App
	v := M{"exists": false, "code": false, "start": 0, "end": 0, "lockup": []any{}, "vesting": []any{},
		"orig": vlCoinMap(nil), "df": vlCoinMap(nil), "dv": vlCoinMap(nil)}
	acc := app.AccountKeeper.GetAccount(ctx, x.vx.Addr)
	if va, ok := acc.(*vestingtypes.ClawbackVestingAccount); ok {
		v["exists"] = true
		v["start"] = va.StartTime.Unix() - x.base
		v["end"] = va.EndTime - x.base
		v["lockup"] = vlPeriodList(va.LockupPeriods)
		v["vesting"] = vlPeriodList(va.VestingPeriods)
		v["orig"] = vlCoinMap(va.OriginalVesting)
		v["df"] = vlCoinMap(va.DelegatedFree)
		v["dv"] = vlCoinMap(va.DelegatedVesting)
	}
	if ca, ok := acc.(interface{ GetCodeHash() common.Hash }); ok {
		v["code"] = ca.GetCodeHash() != common.BytesToHash(ethcrypto.Keccak256(nil))
	}
	bank := M{}
	for _, d := range vlDenoms {
		bank[d] = bigStr(app.BankKeeper.GetBalance(ctx, x.vx.Addr, d).Amount)
	}
	v["bank"] = bank
	v["bonded"] = bigStr(app.StakingKeeper.GetDelegatorBonded(ctx, x.vx.Addr))
	v["unbonding"] = bigStr(app.StakingKeeper.GetDelegatorUnbonding(ctx, x.vx.Addr))
	type ent struct {
		at  int64
		amt sdkmath.Int
	}
	var es []ent
	for _, u := range app.StakingKeeper.GetAllUnbondingDelegations(ctx, x.vx.Addr) {
		for _, e := range u.Entries {
			es = append(es, ent{e.CompletionTime.Unix() - x.base, e.Balance})
		}
	}
	sort.Slice(es, func(i, j int) bool {
		if es[i].at != es[j].at {
			return es[i].at < es[j].at
		}
		return es[i].amt.LT(es[j].amt)
	})
	ubd := []any{}
	for _, e := range es {
		ubd = append(ubd, M{"amt": bigStr(e.amt), "at": e.at})
	}
	v["ubd"] = ubd
	has := func(grantee sdk.AccAddress) bool {
		auths, err := app.AuthzKeeper.GetAuthorizations(ctx, grantee, x.vx.Addr)
		return err == nil && len(auths) > 0
	}
	v["authz"] = has(x.a3.Addr)
	v["pcgrant"] = has(sdk.AccAddress(x.ctr.Bytes()))
	_, err := app.FeeGrantKeeper.GetAllowance(ctx, x.vx.Addr, x.a3.Addr)
	v["feegrant"] = err == nil
	_, isval := app.StakingKeeper.GetValidator(ctx, sdk.ValAddress(x.vx.Addr))
	v["isval"] = isval
	v["ghost"] = false // set by the specification when a converted account is followed (VestingLock!Carry)
	return M{"now": x.now(), "va": M{"vx1": v}}
}

func (x *vlExec) emit(m M) {
	m["scn"] = x.scn
	x.tw.Emit(m)
}

func vlShort(s string) string {
	if i := strings.Index(s, "\n"); i >= 0 {
		s = s[:i]
	}
	if len(s) > 160 {
		s = s[:160]
	}
	return s
}

// ---------------------------------------------------------------------------------------
// blocks

func (x *vlExec) beginBlock(dt int64, evidence []int) {
	x.n.BeginBlock(BlockIn{DtMs: dt * 1000, Proposer: 2, Evidence: evidence})
	x.open = true
}

func (x *vlExec) endBlock() {
	x.n.EndBlock()
	post := x.project()
	x.n.Commit()
	x.open = false
	x.emit(M{"ev": "end", "args": M{"acct": "vx1"}, "ok": true, "err": "", "code": 0, "post": post})
}

// nextBlock closes the block in progress and opens the next one dt seconds later.
func (x *vlExec) nextBlock(dt int64, evidence []int, logged bool) {
	if x.open {
		if logged {
			x.endBlock()
		} else {
			x.n.EndBlock()
			x.n.Commit()
			x.open = false
		}
	}
	x.beginBlock(dt, evidence)
	if logged {
		ev := []any{}
		for _, i := range evidence {
			ev = append(ev, i)
		}
		x.emit(M{"ev": "begin", "args": M{"acct": "vx1", "dt": dt, "evidence": ev}, "ok": true, "err": "", "code": 0, "post": x.project()})
	}
}

// ---------------------------------------------------------------------------------------
// transactions

func (x *vlExec) gasPrice() *big.Int {
	if !x.cfg.Fees {
		return new(big.Int)
	}
	base := x.n.App.FeeMarketKeeper.GetBaseFee(x.n.Ctx())
	if base == nil {
		return new(big.Int)
	}
	return new(big.Int).Mul(base, big.NewInt(2))
}

func (x *vlExec) cosmosFee(gas uint64) *big.Int {
	return new(big.Int).Mul(x.gasPrice(), new(big.Int).SetUint64(gas))
}

// cosmosTx signs msgs with k and an explicit fee.
func (x *vlExec) cosmosTx(k Key, gas uint64, fee *big.Int, granter sdk.AccAddress, msgs ...sdk.Msg) ([]byte, error) {
	acc := x.n.App.AccountKeeper.GetAccount(x.n.Ctx(), k.Addr)
	if acc == nil {
		return nil, fmt.Errorf("no account %s", k.Addr)
	}
	fc := sdk.Coins{}
	if fee.Sign() > 0 {
		fc = sdk.NewCoins(sdk.NewCoin(vlBond, vlInt(fee)))
	}
	_, bz, err := BuildCosmosTx(k.Priv, CosmosTxOpts{Gas: gas, Fee: fc, ChainID: ChainID, AccNum: acc.GetAccountNumber(),
		Seq: acc.GetSequence(), Granter: granter}, msgs...)
	return bz, err
}

func (x *vlExec) ethTx(k Key, to *common.Address, value *big.Int, gas uint64, price *big.Int, data []byte) ([]byte, error) {
	nonce := x.n.App.EvmKeeper.GetNonce(x.n.Ctx(), ethAddr(k))
	msg, err := BuildEthMsg(k, EthTxOpts{Type: 0, Nonce: nonce, To: to, Value: value, Gas: gas, GasPrice: price, Data: data,
		ChainID: x.n.App.EvmKeeper.ChainID()})
	if err != nil {
		return nil, err
	}
	return WrapEthMsgs(msg)
}

// deliver runs DeliverTx; ok = included with code 0 and (Ethereum) not reverted.
func (x *vlExec) deliver(bz []byte, eth bool) (bool, string, int) {
	res := x.n.Deliver(bz)
	if res.Code != 0 {
		return false, vlShort(res.Log), int(res.Code)
	}
	if eth {
		txr, err := evmtypes.DecodeTxResponse(res.Data)
		if err != nil {
			return false, "decode: " + err.Error(), 0
		}
		if txr.Failed() {
			return false, "vm: " + vlShort(txr.VmError), 0
		}
	}
	return true, "", 0
}

// prep delivers a set-up transaction that is not a step of the scenario (never signed by vx1
// unless said so); a failure is reported as an infrastructure problem of the scenario.
func (x *vlExec) prep(what string, bz []byte, err error, eth bool) bool {
	if err != nil {
		x.stats["prepfail:"+what]++
		if x.dbg {
			fmt.Println("prep build", what, err)
		}
		return false
	}
	ok, e, _ := x.deliver(bz, eth)
	if !ok {
		x.stats["prepfail:"+what]++
		if x.dbg {
			fmt.Println("prep", what, e)
		}
	}
	return ok
}

func (x *vlExec) bal(d string) *big.Int {
	return x.n.App.BankKeeper.GetBalance(x.n.Ctx(), x.vx.Addr, d).Amount.BigInt()
}

// spendable according to the CODE (bank balance minus the account's LockedCoins at block time).
// Only used to choose inputs; a panic inside the code under test falls back to the whole balance.
func (x *vlExec) spendable(d string) (out *big.Int) {
	ctx := x.n.Ctx()
	b := x.bal(d)
	defer func() {
		if r := recover(); r != nil {
			x.stats["panic:LockedCoins"]++
			out = x.bal(d)
		}
	}()
	if va := x.vacc(ctx); va != nil {
		b.Sub(b, va.LockedCoins(ctx.BlockTime()).AmountOf(d).BigInt())
	}
	if b.Sign() < 0 {
		return new(big.Int)
	}
	return b
}

// delegatable according to the CODE (bank balance minus unvested coins)
func (x *vlExec) delegatable() (out *big.Int) {
	ctx := x.n.Ctx()
	b := x.bal(vlBond)
	defer func() {
		if r := recover(); r != nil {
			x.stats["panic:GetVestingCoins"]++
			out = x.bal(vlBond)
		}
	}()
	if va := x.vacc(ctx); va != nil {
		b.Sub(b, va.GetVestingCoins(ctx.BlockTime()).AmountOf(vlBond).BigInt())
	}
	if b.Sign() < 0 {
		return new(big.Int)
	}
	return b
}

func vlPos(b *big.Int) *big.Int {
	if b.Sign() < 0 {
		return new(big.Int)
	}
	return b
}

// resolve turns an amount label into a base amount. ref = the reference amount ("spendable"),
// all = the whole balance, units = the script's own amount.
func (x *vlExec) resolve(how string, ref, all *big.Int, units any) *big.Int {
	switch how {
	case "sp", "max":
		return new(big.Int).Set(ref)
	case "sp+1", "max+1":
		return new(big.Int).Add(ref, big.NewInt(1))
	case "sp-1":
		return vlPos(new(big.Int).Sub(ref, big.NewInt(1)))
	case "all":
		return new(big.Int).Set(all)
	case "half":
		h := new(big.Int).Add(ref, big.NewInt(1))
		return h.Rsh(h, 1)
	case "one":
		return big.NewInt(1)
	case "unit":
		return new(big.Int).Set(x.unit)
	case "huge":
		return new(big.Int).Exp(big.NewInt(10), big.NewInt(30), nil)
	}
	return x.units(units)
}

func vlStrOf(m M, k, def string) string {
	if v, ok := m[k]; ok && v != nil {
		return fmt.Sprint(v)
	}
	return def
}

// amount of a debit step: the (single) denomination of args.amt and the resolved base amount
func (x *vlExec) debitAmount(a M, selfFee *big.Int) (string, *big.Int) {
	d := vlBond
	var units any = "0"
	if am, ok := a["amt"].(map[string]any); ok {
		for _, dd := range vlDenoms {
			if s, ok := am[dd]; ok && vlBig(s).Sign() != 0 {
				d, units = dd, s
			}
		}
	}
	if dd := vlStrOf(a, "denom", ""); dd != "" {
		d = dd
	}
	ref := x.spendable(d)
	if d == vlBond {
		ref = vlPos(new(big.Int).Sub(ref, selfFee))
	}
	return d, x.resolve(vlStrOf(a, "how", "-"), ref, x.bal(d), units)
}

func (x *vlExec) val(i int) sdk.ValAddress { return x.w.Vals[i%len(x.w.Vals)].ValAddr() }

func vlZeroFee() M { return vlCoinMap(nil) }
func vlFeeMap(f *big.Int) M {
	return vlCoinMap(sdk.NewCoins(sdk.NewCoin(vlBond, vlInt(f))))
}
func vlAmtMap(d string, a *big.Int) M {
	if a.Sign() <= 0 {
		m := vlCoinMap(nil)
		m[d] = a.String()
		return m
	}
	return vlCoinMap(sdk.NewCoins(sdk.NewCoin(d, vlInt(a))))
}

// grantOf reads a scripted grant {start (relative to now: "startOff"), lockup, vesting}
func (x *vlExec) grantOf(a M) (time.Time, sdkvesting.Periods, sdkvesting.Periods, M) {
	g, _ := a["grant"].(map[string]any)
	off := int64(0)
	if g != nil {
		if v, ok := g["startOff"]; ok {
			off = vlBig(v).Int64()
		} else if v, ok := g["start"]; ok {
			// model scripts carry an absolute model time: keep its distance to the model's now
			off = vlBig(v).Int64() - vlBig(a["mnow"]).Int64()
		}
	}
	conv := func(k string) []vlPeriod {
		out := []vlPeriod{}
		if g == nil {
			return out
		}
		lst, _ := g[k].([]any)
		for _, p := range lst {
			pm := p.(map[string]any)
			amt := map[string]string{}
			for d, v := range pm["amt"].(map[string]any) {
				amt[d] = fmt.Sprint(v)
			}
			out = append(out, vlPeriod{Len: vlBig(pm["len"]).Int64(), Amt: amt})
		}
		return out
	}
	lk, vs := x.msgSchedules(conv("lockup"), conv("vesting"))
	start := x.n.Time.Add(time.Duration(off) * time.Second)
	// what the message server makes of an absent schedule: one instant period of the other's total
	elk, evs := lk, vs
	if lk == nil {
		elk = sdkvesting.Periods{{Length: 0, Amount: vs.TotalAmount()}}
	}
	if vs == nil {
		evs = sdkvesting.Periods{{Length: 0, Amount: lk.TotalAmount()}}
	}
	return start, lk, vs, M{"start": start.Unix() - x.base, "lockup": vlPeriodList(elk), "vesting": vlPeriodList(evs)}
}

// largest delegation of the account: validator and token value
func (x *vlExec) bigDelegation() (sdk.ValAddress, *big.Int) {
	ctx := x.n.Ctx()
	var best sdk.ValAddress
	bestAmt := new(big.Int)
	for _, d := range x.n.App.StakingKeeper.GetDelegatorDelegations(ctx, x.vx.Addr, 100) {
		v, found := x.n.App.StakingKeeper.GetValidator(ctx, d.GetValidatorAddr())
		if !found {
			continue
		}
		t := v.TokensFromShares(d.Shares).TruncateInt().BigInt()
		if best == nil || t.Cmp(bestAmt) > 0 {
			best, bestAmt = d.GetValidatorAddr(), t
		}
	}
	return best, bestAmt
}

// forwarder code for a vesting account with contract code: CALL(to = calldata[0:32], value = calldata[32:64])
var vlForwarder = []byte{
	0x60, 0x00, 0x60, 0x00, 0x60, 0x00, 0x60, 0x00, // retSize retOff argsSize argsOff
	0x60, 0x20, 0x35, // value
	0x60, 0x00, 0x35, // to
	0x5a, 0xf1, // GAS CALL
	0x15, 0x60, 0x15, 0x57, // ISZERO PUSH1 rev(=21) JUMPI
	0x00,                         // STOP
	0x5b, 0x60, 0x00, 0x60, 0x00, 0xfd, // rev: JUMPDEST PUSH1 0 PUSH1 0 REVERT
}

// steps whose fee the vesting account itself pays
var vlSelfPaid = map[string]bool{"send": true, "send_erc20": true, "multisend": true, "dao_fund": true, "gov_deposit": true,
	"convert_coin": true, "eth_value": true, "liquidate": true, "delegate": true, "pc_delegate": true, "pc_delegate_contract": true,
	"create_validator": true, "pc_create_validator": true, "pc_create_validator_contract": true,
	"cancel_unbond": true, "pc_cancel_unbond": true, "convert_back": true, "undelegate": true, "withdraw": true, "grant_authz": true, "grant_fee": true, "grant_pc": true}

// vlPcForwarder: a contract that forwards its calldata to the staking precompile and reverts if the call fails
var vlPcForwarder = []byte{
	0x36, 0x60, 0x00, 0x60, 0x00, 0x37, // CALLDATACOPY(0, 0, CALLDATASIZE)
	0x60, 0x00, 0x60, 0x00, 0x36, 0x60, 0x00, 0x60, 0x00, 0x61, 0x08, 0x00, 0x5a, 0xf1, // CALL(GAS, 0x0800, 0, 0, CALLDATASIZE, 0, 0)
	0x15, 0x60, 0x19, 0x57, // ISZERO PUSH1 rev(=25) JUMPI
	0x00,                               // STOP
	0x5b, 0x60, 0x00, 0x60, 0x00, 0xfd, // rev: JUMPDEST PUSH1 0 PUSH1 0 REVERT
}

// step executes one scripted step.
func (x *vlExec) step(st vlStep) {
	a := st.Args
	if a == nil {
		a = M{}
	}
	switch st.Ev {
	case "tick":
		dt := int64(1)
		if v, ok := a["dt"]; ok {
			dt = vlBig(v).Int64()
		}
		if to := vlStrOf(a, "to", ""); to != "" {
			// land relative to the next release of the stored schedule / the next unbonding maturity
			if t, ok := x.nextEvent(to == "unbond"); ok {
				dt = t + vlBig(a["off"]).Int64() - x.now()
			}
		}
		if dt < 1 {
			dt = 1
		}
		x.nextBlock(dt, nil, true)
		return
	case "slash":
		if x.nsl >= 2 {
			return
		}
		i := x.curV
		x.stats["slash"]++
		x.nsl++
		x.curV++
		x.nextBlock(1, []int{i}, true)
		return
	}

	if x.cfg.Fees && vlSelfPaid[st.Ev] && x.spendable(vlBond).Cmp(big.NewInt(30_000_000_000_000_000)) < 0 && vlStrOf(a, "notopup", "") == "" {
		// gas money: a logged, ordinary incoming transfer
		x.step(vlStep{Ev: "fund_extra", Args: M{"how": "-", "amt": map[string]any{vlBond: "0"}, "base": "60000000000000000"}})
	}
	how := vlStrOf(a, "how", "-")
	pre := x.project()
	args := M{"acct": "vx1", "how": how, "amt": vlZeroFee(), "fee": vlZeroFee(), "deleg": "0"}
	var bz []byte
	var err error
	eth := false
	gp := x.gasPrice()
	selfCosmos := func(gas uint64, mk func(fee *big.Int) []sdk.Msg) {
		fee := x.cosmosFee(gas)
		args["fee"] = vlFeeMap(fee)
		msgs := mk(fee)
		if msgs == nil {
			err = fmt.Errorf("not constructible")
			return
		}
		bz, err = x.cosmosTx(x.vx, gas, fee, nil, msgs...)
	}
	execBy := func(gas uint64, inner ...sdk.Msg) {
		m := authz.NewMsgExec(x.a3.Addr, inner)
		bz, err = x.cosmosTx(x.a3, gas, x.cosmosFee(gas), nil, &m)
	}
	ethFee := func(gas uint64) *big.Int { return new(big.Int).Mul(gp, new(big.Int).SetUint64(gas)) }

	switch st.Ev {
	case "send", "send_erc20", "multisend", "dao_fund", "gov_deposit", "convert_coin":
		gas := uint64(300000)
		if st.Ev == "convert_coin" {
			gas = 3_000_000
		}
		if dPre, _ := x.debitAmount(a, new(big.Int)); st.Ev == "send_erc20" || (st.Ev == "send" && dPre == vlLiq) {
			gas = 9_000_000 // MsgSend of a denomination with an ERC20 pair goes through the conversion wrapper
		}
		if st.Ev == "send_erc20" || st.Ev == "convert_coin" {
			if _, ok := a["denom"]; !ok && vlStrOf(a, "how", "-") != "-" {
				a["denom"] = vlLiq
			}
		}
		var pid uint64
		if st.Ev == "gov_deposit" {
			pid = x.proposal()
		}
		selfCosmos(gas, func(fee *big.Int) []sdk.Msg {
			d, amt := x.debitAmount(a, fee)
			args["amt"] = vlAmtMap(d, amt)
			if amt.Sign() <= 0 {
				return nil
			}
			c := sdk.NewCoins(sdk.NewCoin(d, vlInt(amt)))
			switch st.Ev {
			case "send", "send_erc20":
				return []sdk.Msg{banktypes.NewMsgSend(x.vx.Addr, x.a2.Addr, c)}
			case "multisend":
				if amt.Cmp(big.NewInt(2)) < 0 {
					return []sdk.Msg{banktypes.NewMsgMultiSend([]banktypes.Input{banktypes.NewInput(x.vx.Addr, c)},
						[]banktypes.Output{banktypes.NewOutput(x.a2.Addr, c)})}
				}
				half := sdk.NewCoins(sdk.NewCoin(d, vlInt(new(big.Int).Rsh(amt, 1))))
				return []sdk.Msg{banktypes.NewMsgMultiSend([]banktypes.Input{banktypes.NewInput(x.vx.Addr, c)},
					[]banktypes.Output{banktypes.NewOutput(x.a2.Addr, half), banktypes.NewOutput(x.a4.Addr, c.Sub(half...))})}
			case "dao_fund":
				return []sdk.Msg{ucdaotypes.NewMsgFund(c, x.vx.Addr)}
			case "gov_deposit":
				return []sdk.Msg{govv1beta1.NewMsgDeposit(x.vx.Addr, pid, c)}
			case "convert_coin":
				return []sdk.Msg{erc20types.NewMsgConvertCoin(c[0], ethAddr(x.a2), x.vx.Addr)}
			}
			return nil
		})
	case "fee_cosmos", "fee_grant":
		// fee_cosmos: a transaction of the account whose only debit is its fee; fee_grant: the grantee's
		// transaction, fee charged to the vesting account through its fee allowance.  The fee checker
		// charges floor(fee / gas) * gas, so amounts are taken on that grid: "sp" is the largest
		// chargeable fee <= spendable, "sp+1" the next one above it.
		const gas = 200000
		_, amt := x.debitAmount(a, new(big.Int))
		g := big.NewInt(gas)
		amt.Quo(amt, g).Mul(amt, g)
		if how == "sp+1" || how == "one" {
			amt.Add(amt, g)
		}
		if min := new(big.Int).Mul(x.gasPrice(), g); amt.Cmp(min) < 0 && (how == "one" || how == "half" || how == "sp-1") {
			amt = min // the smallest fee the fee market accepts
		}
		args["fee"] = vlFeeMap(amt)
		if amt.Sign() <= 0 {
			err = fmt.Errorf("not constructible")
			break
		}
		if st.Ev == "fee_cosmos" {
			bz, err = x.cosmosTx(x.vx, gas, amt, nil, distrtypes.NewMsgSetWithdrawAddress(x.vx.Addr, x.vx.Addr))
		} else {
			args["amt"] = vlFeeMap(amt)
			bz, err = x.cosmosTx(x.a3, gas, amt, x.vx.Addr, banktypes.NewMsgSend(x.a3.Addr, x.a2.Addr, sdk.NewCoins(sdk.NewCoin(vlBond, sdkmath.NewInt(1)))))
		}
	case "eth_value":
		eth = true
		fee := ethFee(21000)
		_, amt := x.debitAmount(a, fee)
		args["amt"], args["fee"] = vlAmtMap(vlBond, amt), vlFeeMap(fee)
		to := ethAddr(x.a2)
		bz, err = x.ethTx(x.vx, &to, amt, 21000, gp, nil)
	case "fee_eth":
		eth = true
		_, amt := x.debitAmount(a, new(big.Int))
		price := new(big.Int).Quo(amt, big.NewInt(21000))
		if how == "sp+1" {
			price.Add(price, big.NewInt(1))
		}
		if price.Cmp(gp) < 0 && (how == "one" || how == "half" || how == "sp-1") {
			price = new(big.Int).Set(gp)
		}
		args["fee"] = vlFeeMap(new(big.Int).Mul(price, big.NewInt(21000)))
		to := ethAddr(x.a2)
		bz, err = x.ethTx(x.vx, &to, new(big.Int), 21000, price, nil)
	case "eth_internal":
		// a third party calls the code at the vesting account's address, which pays out internally
		eth = true
		_, amt := x.debitAmount(a, new(big.Int))
		args["amt"] = vlAmtMap(vlBond, amt)
		if pre["va"].(M)["vx1"].(M)["code"] != true {
			err = fmt.Errorf("no code at the account")
			break
		}
		data := append(common.LeftPadBytes(ethAddr(x.a4).Bytes(), 32), common.LeftPadBytes(amt.Bytes(), 32)...)
		to := ethAddr(x.vx)
		bz, err = x.ethTx(x.a2, &to, new(big.Int), 200000, gp, data)
	case "liquidate":
		selfCosmos(12_000_000, func(fee *big.Int) []sdk.Msg {
			ref := new(big.Int)
			ctx := x.n.Ctx()
			func() {
				defer func() { recover() }()
				if va := x.vacc(ctx); va != nil {
					ref = va.GetLockedUpCoins(ctx.BlockTime()).AmountOf(vlBond).BigInt()
				}
			}()
			var units any = "0"
			if am, ok := a["amt"].(map[string]any); ok {
				units = am[vlBond]
			}
			amt := x.resolve(how, ref, ref, units)
			args["amt"] = vlAmtMap(vlBond, amt)
			if amt.Sign() <= 0 {
				return nil
			}
			return []sdk.Msg{liquidvestingtypes.NewMsgLiquidate(x.vx.Addr, x.a2.Addr, sdk.NewCoin(vlBond, vlInt(amt)))}
		})
	case "exec_send", "exec_dao_fund", "exec_gov_deposit", "exec_convert_coin":
		if st.Ev == "exec_convert_coin" {
			if _, ok := a["denom"]; !ok && how != "-" {
				a["denom"] = vlLiq
			}
		}
		d, amt := x.debitAmount(a, new(big.Int))
		args["amt"] = vlAmtMap(d, amt)
		if amt.Sign() <= 0 {
			err = fmt.Errorf("not constructible")
			break
		}
		c := sdk.NewCoins(sdk.NewCoin(d, vlInt(amt)))
		switch st.Ev {
		case "exec_send":
			g := uint64(1_200_000)
			if d == vlLiq {
				g = 10_000_000
			}
			execBy(g, banktypes.NewMsgSend(x.vx.Addr, x.a2.Addr, c))
		case "exec_dao_fund":
			execBy(1_200_000, ucdaotypes.NewMsgFund(c, x.vx.Addr))
		case "exec_gov_deposit":
			execBy(1_200_000, govv1beta1.NewMsgDeposit(x.vx.Addr, x.proposal(), c))
		case "exec_convert_coin":
			execBy(4_000_000, erc20types.NewMsgConvertCoin(c[0], ethAddr(x.a2), x.vx.Addr))
		}
	case "delegate", "exec_delegate", "pc_delegate", "pc_delegate_contract", "create_validator",
		"exec_create_validator", "pc_create_validator", "pc_create_validator_contract":
		var gas uint64 = 500000
		fee := x.cosmosFee(gas)
		if st.Ev == "exec_delegate" || st.Ev == "exec_create_validator" {
			fee = new(big.Int)
		}
		if strings.HasPrefix(st.Ev, "pc_") {
			gas = 3_500_000
			fee = ethFee(gas)
		}
		ref := vlPos(new(big.Int).Sub(x.delegatable(), fee))
		amt := x.resolve(how, ref, x.bal(vlBond), a["deleg"])
		args["deleg"] = amt.String()
		args["val"] = x.curV
		if amt.Sign() <= 0 {
			err = fmt.Errorf("not constructible")
			break
		}
		c := sdk.NewCoin(vlBond, vlInt(amt))
		switch st.Ev {
		case "delegate":
			args["fee"] = vlFeeMap(fee)
			bz, err = x.cosmosTx(x.vx, gas, fee, nil, stakingtypes.NewMsgDelegate(x.vx.Addr, x.val(x.curV), c))
		case "exec_delegate":
			execBy(1_200_000, stakingtypes.NewMsgDelegate(x.vx.Addr, x.val(x.curV), c))
		case "create_validator", "exec_create_validator":
			pk := ed25519.GenPrivKeyFromSecret(detBytes(x.cfg.Seed, "vxcons")).PubKey()
			var m *stakingtypes.MsgCreateValidator
			m, err = stakingtypes.NewMsgCreateValidator(sdk.ValAddress(x.vx.Addr), pk, c, stakingtypes.Description{Moniker: "vx1"},
				stakingtypes.NewCommissionRates(sdkmath.LegacyNewDecWithPrec(5, 2), sdkmath.LegacyNewDecWithPrec(20, 2), sdkmath.LegacyNewDecWithPrec(1, 2)),
				sdkmath.OneInt())
			if err == nil {
				if st.Ev == "create_validator" {
					args["fee"] = vlFeeMap(fee)
					bz, err = x.cosmosTx(x.vx, gas, fee, nil, m)
				} else {
					execBy(1_500_000, m)
				}
			}
		case "pc_create_validator", "pc_create_validator_contract":
			// the staking precompile's createValidator: called by the account itself, or by a contract
			// the account calls (the precompile only insists that the delegator is the tx origin)
			eth = true
			args["fee"] = vlFeeMap(fee)
			pk := ed25519.GenPrivKeyFromSecret(detBytes(x.cfg.Seed, "vxcons")).PubKey()
			d18 := func(n int64) *big.Int { return new(big.Int).Mul(big.NewInt(n), new(big.Int).Exp(big.NewInt(10), big.NewInt(16), nil)) }
			var data []byte
			data, err = stakingABI.Pack("createValidator",
				stakingprecompile.Description{Moniker: "vx1"},
				stakingprecompile.Commission{Rate: d18(5), MaxRate: d18(20), MaxChangeRate: d18(1)},
				big.NewInt(1), ethAddr(x.vx), sdk.ValAddress(x.vx.Addr).String(), base64.StdEncoding.EncodeToString(pk.Bytes()), amt)
			if err != nil {
				break
			}
			to := stakingPC
			if st.Ev == "pc_create_validator_contract" {
				to = ethAddr(DetKey(x.cfg.Seed, "C2"))
				if err = x.evw.InstallCode(x.n.Ctx(), to, vlPcForwarder, nil); err != nil {
					break
				}
			}
			bz, err = x.ethTx(x.vx, &to, new(big.Int), gas, gp, data)
		case "pc_delegate":
			eth = true
			args["fee"] = vlFeeMap(fee)
			var data []byte
			data, err = stakingABI.Pack("delegate", ethAddr(x.vx), x.val(x.curV).String(), amt)
			if err == nil {
				bz, err = x.ethTx(x.vx, &stakingPC, new(big.Int), gas, gp, data)
			}
		case "pc_delegate_contract":
			// a contract holding a staking-precompile approval of the account delegates the account's coins
			eth = true
			args["fee"] = vlFeeMap(fee)
			out := map[common.Address][]byte{}
			body := []Op{{Op: "pc", ID: 1, Mode: "bubble", M: "delegate", Who: "vx1", Val: x.curV, Amt: amt.String()}}
			if err = x.evw.compileBody(x.ctr, body, nil, out); err == nil {
				if err = x.evw.InstallCode(x.n.Ctx(), x.ctr, out[x.ctr], nil); err == nil {
					bz, err = x.ethTx(x.vx, &x.ctr, new(big.Int), gas, gp, nil)
				}
			}
		}
	case "undelegate":
		v, tokens := x.bigDelegation()
		if v == nil {
			v = x.val(x.curV)
		}
		amt := x.resolve(how, tokens, tokens, a["deleg"])
		args["deleg"] = amt.String()
		selfCosmos(500000, func(fee *big.Int) []sdk.Msg {
			if amt.Sign() <= 0 {
				return nil
			}
			return []sdk.Msg{stakingtypes.NewMsgUndelegate(x.vx.Addr, v, sdk.NewCoin(vlBond, vlInt(amt)))}
		})
	case "cancel_unbond", "exec_cancel_unbond", "pc_cancel_unbond":
		// re-bond coins of the account's first unbonding entry
		var val sdk.ValAddress
		var height, at int64
		bal := new(big.Int)
		for _, u := range x.n.App.StakingKeeper.GetAllUnbondingDelegations(x.n.Ctx(), x.vx.Addr) {
			for _, e := range u.Entries {
				t := e.CompletionTime.Unix() - x.base
				if val == nil || t < at {
					val, _ = sdk.ValAddressFromBech32(u.ValidatorAddress)
					height, at, bal = e.CreationHeight, t, e.Balance.BigInt()
				}
			}
		}
		amt := x.resolve(how, bal, bal, a["deleg"])
		args["deleg"], args["at"] = amt.String(), at
		if val == nil || amt.Sign() <= 0 {
			err = fmt.Errorf("not constructible")
			break
		}
		c := sdk.NewCoin(vlBond, vlInt(amt))
		switch st.Ev {
		case "cancel_unbond":
			selfCosmos(600000, func(fee *big.Int) []sdk.Msg {
				return []sdk.Msg{stakingtypes.NewMsgCancelUnbondingDelegation(x.vx.Addr, val, height, c)}
			})
		case "exec_cancel_unbond":
			execBy(1_500_000, stakingtypes.NewMsgCancelUnbondingDelegation(x.vx.Addr, val, height, c))
		case "pc_cancel_unbond":
			eth = true
			fee := ethFee(3_500_000)
			args["fee"] = vlFeeMap(fee)
			var data []byte
			data, err = stakingABI.Pack("cancelUnbondingDelegation", ethAddr(x.vx), val.String(), amt, big.NewInt(height))
			if err == nil {
				bz, err = x.ethTx(x.vx, &stakingPC, new(big.Int), 3_500_000, gp, data)
			}
		}
	case "withdraw":
		v, _ := x.bigDelegation()
		if v == nil {
			v = x.val(x.curV)
		}
		selfCosmos(400000, func(fee *big.Int) []sdk.Msg {
			return []sdk.Msg{distrtypes.NewMsgWithdrawDelegatorReward(x.vx.Addr, v)}
		})
	case "convert_back":
		// MsgConvertVestingAccount: the vesting account asks to become a plain account
		selfCosmos(400000, func(fee *big.Int) []sdk.Msg {
			return []sdk.Msg{vestingtypes.NewMsgConvertVestingAccount(x.vx.Addr)}
		})
	case "exec_convert_back":
		execBy(1_200_000, vestingtypes.NewMsgConvertVestingAccount(x.vx.Addr))
	case "clawback":
		bz, err = x.cosmosTx(x.a1, 600000, x.cosmosFee(600000), nil, vestingtypes.NewMsgClawback(x.a1.Addr, x.vx.Addr, x.a1.Addr))
	case "merge", "convert_into", "convert_into_stake":
		start, lk, vs, gm := x.grantOf(a)
		args["grant"] = gm
		args["val"] = x.curV
		if st.Ev == "merge" {
			bz, err = x.cosmosTx(x.a1, 800000, x.cosmosFee(800000), nil,
				vestingtypes.NewMsgCreateClawbackVestingAccount(x.a1.Addr, x.vx.Addr, start, lk, vs, true))
		} else {
			bz, err = x.cosmosTx(x.a1, 1_000_000, x.cosmosFee(1_000_000), nil,
				vestingtypes.NewMsgConvertIntoVestingAccount(x.a1.Addr, x.vx.Addr, start, lk, vs, true, st.Ev == "convert_into_stake", x.val(x.curV)))
		}
	case "in_send_pair", "in_multisend", "in_eth", "in_convert_coin", "in_convert_erc20":
		// third parties pay INTO the account: bank send of the ERC20-registered coin, multi-send, EVM value,
		// coin -> ERC20 and ERC20 -> coin conversion with the account as receiver
		d := vlLiq
		if st.Ev == "in_eth" {
			d = vlBond
		}
		if st.Ev == "in_multisend" {
			_, _ = d, 0
			if dd, _ := x.debitAmount(a, new(big.Int)); dd == vlBond {
				d = vlBond
			}
		}
		var units any = "1"
		if am, ok := a["amt"].(map[string]any); ok {
			for _, dd := range vlDenoms {
				if v, ok := am[dd]; ok && vlBig(v).Sign() > 0 {
					units = v
				}
			}
		}
		amt := x.resolve(how, x.unit, x.unit, units)
		args["amt"] = vlAmtMap(d, amt)
		c := sdk.NewCoin(d, vlInt(amt))
		have := x.n.App.BankKeeper.GetBalance(x.n.Ctx(), x.a1.Addr, d).Amount.BigInt()
		if st.Ev != "in_eth" && have.Cmp(amt) < 0 {
			err = fmt.Errorf("the sender does not hold the coin")
			break
		}
		switch st.Ev {
		case "in_send_pair":
			bz, err = x.cosmosTx(x.a1, 9_000_000, x.cosmosFee(9_000_000), nil, banktypes.NewMsgSend(x.a1.Addr, x.vx.Addr, sdk.NewCoins(c)))
		case "in_multisend":
			bz, err = x.cosmosTx(x.a1, 400000, x.cosmosFee(400000), nil, banktypes.NewMsgMultiSend(
				[]banktypes.Input{banktypes.NewInput(x.a1.Addr, sdk.NewCoins(c))}, []banktypes.Output{banktypes.NewOutput(x.vx.Addr, sdk.NewCoins(c))}))
		case "in_eth":
			eth = true
			to := ethAddr(x.vx)
			bz, err = x.ethTx(x.a2, &to, amt, 100000, gp, nil)
		case "in_convert_coin":
			bz, err = x.cosmosTx(x.a1, 3_000_000, x.cosmosFee(3_000_000), nil, erc20types.NewMsgConvertCoin(c, ethAddr(x.vx), x.a1.Addr))
		case "in_convert_erc20":
			id := x.n.App.Erc20Keeper.GetTokenPairID(x.n.Ctx(), d)
			pair, found := x.n.App.Erc20Keeper.GetTokenPair(x.n.Ctx(), id)
			if !found {
				err = fmt.Errorf("no token pair")
				break
			}
			pb, pe := x.cosmosTx(x.a1, 3_000_000, x.cosmosFee(3_000_000), nil, erc20types.NewMsgConvertCoin(c, ethAddr(x.a1), x.a1.Addr))
			if !x.prep("in-convert-prep", pb, pe, false) {
				err = fmt.Errorf("prep failed")
				break
			}
			pre = x.project()
			bz, err = x.cosmosTx(x.a1, 3_000_000, x.cosmosFee(3_000_000), nil,
				erc20types.NewMsgConvertERC20(vlInt(amt), x.vx.Addr, pair.GetERC20Contract(), ethAddr(x.a1)))
		}
	case "fund_extra":
		amt := x.resolve(how, x.unit, x.unit, func() any {
			if am, ok := a["amt"].(map[string]any); ok {
				return am[vlBond]
			}
			return "1"
		}())
		if b := vlStrOf(a, "base", ""); b != "" {
			amt = mustBig(b)
		}
		args["amt"] = vlAmtMap(vlBond, amt)
		bz, err = x.cosmosTx(x.a1, 300000, x.cosmosFee(300000), nil, banktypes.NewMsgSend(x.a1.Addr, x.vx.Addr, sdk.NewCoins(sdk.NewCoin(vlBond, vlInt(amt)))))
	case "grant_authz":
		selfCosmos(900000, func(fee *big.Int) []sdk.Msg { return x.authzGrants() })
	case "grant_fee":
		selfCosmos(300000, func(fee *big.Int) []sdk.Msg {
			m, e := feegrant.NewMsgGrantAllowance(&feegrant.BasicAllowance{}, x.vx.Addr, x.a3.Addr)
			if e != nil {
				return nil
			}
			return []sdk.Msg{m}
		})
	case "grant_pc":
		eth = true
		fee := ethFee(1_000_000)
		args["fee"] = vlFeeMap(fee)
		var data []byte
		data, err = stakingABI.Pack("approve", x.ctr, new(big.Int).Exp(big.NewInt(10), big.NewInt(40), nil), []string{stakingprecompile.DelegateMsg})
		if err == nil {
			bz, err = x.ethTx(x.vx, &stakingPC, new(big.Int), 1_000_000, gp, data)
		}
	default:
		err = fmt.Errorf("unknown step %q", st.Ev)
	}

	if err != nil {
		// not constructible in this state (e.g. a zero amount): recorded as a refused attempt that
		// never reached the chain; the state is projected again so that the line is self-contained
		x.stats["unbuilt:"+st.Ev]++
		x.emit(M{"ev": st.Ev, "args": args, "ok": false, "err": "build: " + vlShort(err.Error()), "code": -1, "post": pre})
		return
	}
	ok, e, code := x.deliver(bz, eth)
	post := x.project()
	if st.Ev == "convert_into_stake" && ok {
		d := new(big.Int).Sub(vlBig(post["va"].(M)["vx1"].(M)["bonded"]), vlBig(pre["va"].(M)["vx1"].(M)["bonded"]))
		args["deleg"] = vlPos(d).String()
	}
	if strings.Contains(st.Ev, "create_validator") && ok {
		x.madeV = true
	}
	if ok {
		x.stats["ok:"+st.Ev]++
	} else {
		x.stats["refused:"+st.Ev]++
	}
	x.emit(M{"ev": st.Ev, "args": args, "ok": ok, "err": e, "code": code, "post": post})
}

// nextEvent: the next release time of either stored schedule (or unbonding maturity) after now
func (x *vlExec) nextEvent(unbond bool) (int64, bool) {
	ctx := x.n.Ctx()
	now := x.now()
	best, found := int64(0), false
	consider := func(t int64) {
		if t > now && (!found || t < best) {
			best, found = t, true
		}
	}
	if unbond {
		for _, u := range x.n.App.StakingKeeper.GetAllUnbondingDelegations(ctx, x.vx.Addr) {
			for _, e := range u.Entries {
				consider(e.CompletionTime.Unix() - x.base)
			}
		}
		return best, found
	}
	if va := x.vacc(ctx); va != nil {
		for _, ps := range []sdkvesting.Periods{va.LockupPeriods, va.VestingPeriods} {
			t := va.StartTime.Unix() - x.base
			consider(t)
			for _, p := range ps {
				t += p.Length
				consider(t)
			}
		}
	}
	return best, found
}

// proposal submits (as a2) a fresh text proposal that stays in its deposit period and returns its id
func (x *vlExec) proposal() uint64 {
	content := govv1beta1.NewTextProposal("t", "d")
	msg, err := govv1beta1.NewMsgSubmitProposal(content, sdk.NewCoins(sdk.NewCoin(vlBond, sdkmath.NewInt(1))), x.a2.Addr)
	if err != nil {
		return 0
	}
	bz, err := x.cosmosTx(x.a2, 500000, x.cosmosFee(500000), nil, msg)
	x.prep("proposal", bz, err, false)
	id, err := x.n.App.GovKeeper.GetProposalID(x.n.Ctx())
	if err != nil || id == 0 {
		return 0
	}
	return id - 1
}

func (x *vlExec) authzGrants() []sdk.Msg {
	exp := x.n.Time.Add(100000 * time.Hour)
	var msgs []sdk.Msg
	for _, m := range []sdk.Msg{&banktypes.MsgSend{}, &ucdaotypes.MsgFund{}, &govv1beta1.MsgDeposit{}, &erc20types.MsgConvertCoin{}, &stakingtypes.MsgDelegate{},
		&stakingtypes.MsgCreateValidator{}, &stakingtypes.MsgCancelUnbondingDelegation{}, &vestingtypes.MsgConvertVestingAccount{}} {
		g, err := authz.NewMsgGrant(x.vx.Addr, x.a3.Addr, authz.NewGenericAuthorization(sdk.MsgTypeURL(m)), &exp)
		if err != nil {
			return nil
		}
		msgs = append(msgs, g)
	}
	return msgs
}

// ---------------------------------------------------------------------------------------
// scenario

func vlHasLiq(ps []vlPeriod) bool {
	for _, p := range ps {
		if s, ok := p.Amt[vlLiq]; ok && s != "" && s != "0" {
			return true
		}
	}
	return false
}

func vlRunScenario(tw *TraceWriter, scn int, src string, sc vlScript, stats map[string]int, dbg bool) {
	cfg := sc.Cfg
	if cfg.Unit == "" {
		cfg.Unit = "1000000000000000000000"
	}
	if cfg.Dust == "" {
		cfg.Dust = "0"
		if cfg.Fees {
			cfg.Dust = "60000000000000000"
		}
	}
	g := DefaultGenesisCfg(cfg.Seed)
	g.Coinomics = false
	g.NoBaseFee = !cfg.Fees
	g.VotingSecs = 10_000_000
	w := NewWorld(g)
	n := NewNode(w, dbm.NewMemDB())
	x := &vlExec{n: n, w: w, cfg: cfg, tw: tw, scn: scn, unit: mustBig(cfg.Unit), base: GenesisTime.Unix(),
		vx: w.Acct("vx1"), a1: w.Acct("a1"), a2: w.Acct("a2"), a3: w.Acct("a3"), a4: w.Acct("a4"),
		stats: stats, dbg: dbg}
	x.ctr = ethAddr(DetKey(cfg.Seed, "C1"))
	x.evw = &EvmWorld{N: n, Roles: map[string]Key{"vx1": x.vx}}
	gasFee := func(gas uint64) *big.Int { return x.cosmosFee(gas) }

	x.beginBlock(1, nil)
	x.n.EndBlock()
	x.n.Commit()
	x.beginBlock(1, nil)
	setupOK := true
	liq := vlHasLiq(cfg.Init.Lockup) || vlHasLiq(cfg.Init.Vesting)
	if liq {
		// the funder obtains the liquid denomination (and with it an ERC20 pair) the real way: a fully
		// vested, locked account liquidates to the funder, who converts the ERC20 tokens back to coins
		lq := w.Acct("lq1")
		amt := sdk.NewCoins(sdk.NewCoin(vlBond, vlInt(x.units(12))))
		bz, err := x.cosmosTx(x.a1, 800000, gasFee(800000), nil,
			vestingtypes.NewMsgCreateClawbackVestingAccount(x.a1.Addr, lq.Addr, n.Time.Add(-10*time.Second),
				sdkvesting.Periods{{Length: 10_000_000, Amount: amt}}, nil, false),
			banktypes.NewMsgSend(x.a1.Addr, lq.Addr, sdk.NewCoins(sdk.NewCoin(vlBond, sdkmath.NewInt(1_000_000_000_000_000_000)))))
		setupOK = x.prep("liq-create", bz, err, false) && setupOK
		bz, err = x.cosmosTx(lq, 14_000_000, gasFee(14_000_000), nil, liquidvestingtypes.NewMsgLiquidate(lq.Addr, x.a1.Addr, amt[0]))
		setupOK = x.prep("liq-liquidate", bz, err, false) && setupOK
		id := n.App.Erc20Keeper.GetTokenPairID(n.Ctx(), vlLiq)
		if pair, found := n.App.Erc20Keeper.GetTokenPair(n.Ctx(), id); found {
			bz, err = x.cosmosTx(x.a1, 3_000_000, gasFee(3_000_000), nil,
				erc20types.NewMsgConvertERC20(amt[0].Amount, x.a1.Addr, pair.GetERC20Contract(), ethAddr(x.a1)))
			setupOK = x.prep("liq-convert", bz, err, false) && setupOK
		} else {
			setupOK = false
			stats["prepfail:liq-pair"]++
		}
		x.nextBlock(1, nil, false)
	}
	// the account under test
	start := n.Time.Add(time.Duration(cfg.Init.StartOff) * time.Second)
	lk, vs := x.msgSchedules(cfg.Init.Lockup, cfg.Init.Vesting)
	free := new(big.Int).Add(x.units(cfg.Init.Extra), mustBig(cfg.Dust))
	msgs := []sdk.Msg{vestingtypes.NewMsgCreateClawbackVestingAccount(x.a1.Addr, x.vx.Addr, start, lk, vs, false)}
	if cfg.Init.Plain {
		msgs = nil // a plain account: funded, no schedule (a later convert_into turns it into a vesting account)
		if free.Sign() == 0 {
			free = new(big.Int).Set(x.unit)
		}
	}
	if free.Sign() > 0 {
		msgs = append(msgs, banktypes.NewMsgSend(x.a1.Addr, x.vx.Addr, sdk.NewCoins(sdk.NewCoin(vlBond, vlInt(free)))))
	}
	bz, err := x.cosmosTx(x.a1, 1_000_000, gasFee(1_000_000), nil, msgs...)
	setupOK = x.prep("create", bz, err, false) && setupOK
	if cfg.Init.Grants {
		// the grants are given while the account can still pay for them: in a fee-less block if the
		// scenario runs with fees and the account has nothing spendable yet
		fee := gasFee(1000000)
		if x.spendable(vlBond).Cmp(fee) < 0 {
			fee = new(big.Int)
		}
		if gm := x.authzGrants(); gm != nil {
			al, e := feegrant.NewMsgGrantAllowance(&feegrant.BasicAllowance{}, x.vx.Addr, x.a3.Addr)
			if e == nil {
				gm = append(gm, al)
			}
			if fee.Sign() == 0 && cfg.Fees {
				// paid by a fee grant of the funder
				al2, _ := feegrant.NewMsgGrantAllowance(&feegrant.BasicAllowance{}, x.a1.Addr, x.vx.Addr)
				b2, e2 := x.cosmosTx(x.a1, 300000, gasFee(300000), nil, al2)
				x.prep("feegrant-a1", b2, e2, false)
				bz, err = x.cosmosTx(x.vx, 1000000, gasFee(1000000), x.a1.Addr, gm...)
			} else {
				bz, err = x.cosmosTx(x.vx, 1000000, fee, nil, gm...)
			}
			setupOK = x.prep("grants", bz, err, false) && setupOK
		}
		data, e := stakingABI.Pack("approve", x.ctr, new(big.Int).Exp(big.NewInt(10), big.NewInt(40), nil), []string{stakingprecompile.DelegateMsg})
		if e == nil {
			gp := x.gasPrice()
			need := new(big.Int).Mul(gp, big.NewInt(1_000_000))
			if x.spendable(vlBond).Cmp(need) >= 0 && x.bal(vlBond).Sign() > 0 {
				bz, err = x.ethTx(x.vx, &stakingPC, new(big.Int), 1_000_000, gp, data)
				x.prep("approve", bz, err, true)
			} else {
				stats["setup:no-approve"]++
			}
		}
	}
	if cfg.Init.Code {
		if err := x.evw.InstallCode(n.Ctx(), ethAddr(x.vx), vlForwarder, nil); err != nil {
			setupOK = false
		}
	}
	if !setupOK {
		stats["setupfail"]++
	}
	x.emit(M{"ev": "reset", "src": src, "cfg": cfg, "setupOK": setupOK, "args": M{"acct": "vx1"}, "ok": true, "err": "", "code": 0, "post": x.project()})
	for _, st := range sc.Steps {
		x.step(st)
	}
	if x.open {
		x.endBlock()
	}
}

// ---------------------------------------------------------------------------------------
// seeded random scenarios

func vlRandomScript(r *rand.Rand, seed int64) vlScript {
	pick := func(xs ...string) string { return xs[r.Intn(len(xs))] }
	lens := []int64{1, 20, 20, 40, 60}
	// 0: liquidation-prone (vested early, locked long); 1: conversion-prone (same shape); 2: crossing denominations;
	// 3: a plain account with delegations and a slashed unbonding entry is converted into a vesting account
	flavor := r.Intn(8)
	liq := (r.Intn(2) == 0 || flavor == 2) && flavor != 3
	mkAmt := func() map[string]string {
		m := map[string]string{vlBond: fmt.Sprint(1 + r.Intn(3)), vlLiq: "0"}
		if liq {
			m[vlLiq] = fmt.Sprint(1 + r.Intn(2))
		}
		return m
	}
	// lockup periods first; the vesting periods re-split the same total
	nl, nv := 1+r.Intn(3), 1+r.Intn(3)
	var lockup []vlPeriod
	tot := map[string]int64{}
	for i := 0; i < nl; i++ {
		p := vlPeriod{Len: lens[r.Intn(len(lens))], Amt: mkAmt()}
		for d, s := range p.Amt {
			tot[d] += vlBig(s).Int64()
		}
		lockup = append(lockup, p)
	}
	var vesting []vlPeriod
	left := map[string]int64{vlBond: tot[vlBond], vlLiq: tot[vlLiq]}
	for i := 0; i < nv; i++ {
		amt := map[string]string{}
		nonzero := false
		for _, d := range vlDenoms {
			take := left[d]
			if i < nv-1 {
				take = left[d] / int64(nv-i)
			}
			left[d] -= take
			amt[d] = fmt.Sprint(take)
			nonzero = nonzero || take > 0
		}
		if nonzero {
			vesting = append(vesting, vlPeriod{Len: lens[r.Intn(len(lens))], Amt: amt})
		}
	}
	if flavor == 0 || flavor == 1 {
		for i := range vesting {
			vesting[i].Len = 1
		}
		for i := range lockup {
			lockup[i].Len = 60 + int64(flavor)*60
		}
	}
	if flavor == 2 {
		// two denominations whose lockup and vesting schedules cross in opposite directions: for a while one
		// denomination is unlocked but not vested and the other vested but not unlocked
		a, b := fmt.Sprint(1+r.Intn(2)), fmt.Sprint(1+r.Intn(2))
		da, db := vlBond, vlLiq
		if r.Intn(2) == 0 {
			da, db = vlLiq, vlBond
		}
		l1, l2 := lens[1+r.Intn(3)], lens[1+r.Intn(3)]
		lockup = []vlPeriod{{Len: l1, Amt: map[string]string{da: a, db: "0"}}, {Len: l2, Amt: map[string]string{da: "0", db: b}}}
		vesting = []vlPeriod{{Len: l1, Amt: map[string]string{da: "0", db: b}}, {Len: l2, Amt: map[string]string{da: a, db: "0"}}}
		tot = map[string]int64{da: vlBig(a).Int64(), db: vlBig(b).Int64()}
	}
	switch r.Intn(6) + 10*map[bool]int{true: 1, false: 0}[flavor == 2] {
	case 0: // instant unlock: no lockup schedule
		lockup = []vlPeriod{{Len: 0, Amt: map[string]string{vlBond: fmt.Sprint(tot[vlBond]), vlLiq: fmt.Sprint(tot[vlLiq])}}}
	case 1: // instant vesting
		vesting = []vlPeriod{{Len: 0, Amt: map[string]string{vlBond: fmt.Sprint(tot[vlBond]), vlLiq: fmt.Sprint(tot[vlLiq])}}}
	}
	sc := vlScript{Cfg: vlCfg{Seed: seed, Fees: r.Intn(2) == 0, Init: vlInit{
		StartOff: []int64{-50, -1, 0, 0, 15}[r.Intn(5)], Lockup: lockup, Vesting: vesting,
		Extra: pick("0", "0", "1", "2"), Grants: r.Intn(4) != 0, Code: r.Intn(6) == 0}}}
	debit := []string{"send", "multisend", "dao_fund", "gov_deposit", "fee_cosmos", "eth_value", "fee_eth",
		"exec_send", "exec_dao_fund", "exec_gov_deposit", "fee_grant", "liquidate"}
	if liq {
		debit = append(debit, "convert_coin", "send_erc20", "exec_convert_coin", "convert_coin", "send_erc20", "exec_convert_coin")
	}
	if flavor == 0 {
		debit = append(debit, "liquidate", "liquidate", "liquidate")
	}
	if sc.Cfg.Init.Code {
		debit = append(debit, "eth_internal", "eth_internal", "eth_internal", "eth_internal")
	}
	deleg := []string{"delegate", "exec_delegate", "pc_delegate", "pc_delegate_contract", "create_validator",
		"exec_create_validator", "pc_create_validator", "pc_create_validator_contract"}
	nsteps := 10 + r.Intn(10)
	if flavor == 1 {
		// vesting done, lockup running: stake (all of) the locked coins, ask for the conversion to a plain
		// account, unstake, wait for the maturity, spend - long before the lockup ends
		sc.Cfg.Init.StartOff = -5
		sc.Steps = append(sc.Steps,
			vlStep{Ev: pick("delegate", "pc_delegate", "exec_delegate", "create_validator"), Args: M{"how": pick("max", "max", "all", "half")}},
			vlStep{Ev: pick("convert_back", "convert_back", "exec_convert_back"), Args: M{}},
			vlStep{Ev: "undelegate", Args: M{"how": "all"}},
			vlStep{Ev: "tick", Args: M{"to": "unbond", "off": int64(1)}},
			vlStep{Ev: "tick", Args: M{"dt": int64(1)}},
			vlStep{Ev: pick("send", "dao_fund", "eth_value", "multisend", "gov_deposit"), Args: M{"how": pick("sp", "all", "half")}})
		nsteps = 4 + r.Intn(6)
	}
	if flavor == 2 {
		// into the crossing window, then spends in either denomination
		sc.Cfg.Init.StartOff = 0
		sc.Steps = append(sc.Steps, vlStep{Ev: "tick", Args: M{"to": "next", "off": int64(r.Intn(2))}})
		for j := 0; j < 4; j++ {
			sc.Steps = append(sc.Steps, vlStep{Ev: pick("send", "multisend", "dao_fund", "gov_deposit", "exec_send", "exec_dao_fund", "convert_coin", "send_erc20", "eth_value"),
				Args: M{"how": pick("sp", "sp", "half", "all"), "denom": pick(vlBond, vlLiq)}})
		}
		nsteps = 4 + r.Intn(6)
	}
	if flavor == 3 {
		sc.Cfg.Init.Plain, sc.Cfg.Init.Code = true, false
		sc.Cfg.Init.Lockup, sc.Cfg.Init.Vesting = []vlPeriod{}, []vlPeriod{}
		sc.Cfg.Init.Extra = pick("3", "4")
		two := map[string]any{vlBond: "2", vlLiq: "0"}
		g := map[string]any{"startOff": int64(-5),
			"lockup":  []any{map[string]any{"len": int64(60 + 60*r.Intn(2)), "amt": two}},
			"vesting": []any{map[string]any{"len": int64(1), "amt": two}}}
		sc.Steps = append(sc.Steps,
			vlStep{Ev: pick("delegate", "pc_delegate", "delegate"), Args: M{"how": pick("half", "max", "unit")}},
			vlStep{Ev: "undelegate", Args: M{"how": pick("half", "all")}},
			vlStep{Ev: "slash", Args: M{}},
			vlStep{Ev: "tick", Args: M{"dt": int64(1 + r.Intn(3))}},
			vlStep{Ev: pick("convert_into", "convert_into", "convert_into_stake"), Args: M{"grant": g}},
			vlStep{Ev: pick("send", "dao_fund", "eth_value", "multisend"), Args: M{"how": pick("sp", "sp", "all")}})
		nsteps = 4 + r.Intn(6)
	}
	incoming := []string{"in_multisend", "in_eth"}
	if liq {
		incoming = append(incoming, "in_send_pair", "in_send_pair", "in_convert_coin", "in_convert_erc20", "in_multisend")
		if r.Intn(3) == 0 {
			// early on somebody sends the account a few units of the ERC20-registered coin
			sc.Steps = append(sc.Steps, vlStep{Ev: "in_send_pair", Args: M{"how": pick("one", "unit")}})
		}
	}
	for i := 0; i < nsteps; i++ {
		var st vlStep
		if r.Intn(12) == 0 {
			a := M{"how": pick("one", "unit")}
			if r.Intn(2) == 0 {
				a["denom"] = vlBond
			}
			sc.Steps = append(sc.Steps, vlStep{Ev: incoming[r.Intn(len(incoming))], Args: a})
			continue
		}
		switch k := r.Intn(20); {
		case k < 8:
			ev := debit[r.Intn(len(debit))]
			a := M{"how": pick("sp", "sp", "sp", "sp+1", "all", "half", "one", "huge", "sp-1")}
			if liq && (ev == "send" || ev == "multisend" || ev == "dao_fund" || ev == "gov_deposit" || ev == "exec_send" || ev == "exec_dao_fund") && r.Intn(3) == 0 {
				a["denom"] = vlLiq
			}
			if ev == "liquidate" {
				a["how"] = pick("all", "half", "sp+1", "unit")
			}
			st = vlStep{Ev: ev, Args: a}
		case k < 12:
			st = vlStep{Ev: deleg[r.Intn(len(deleg))], Args: M{"how": pick("max", "max", "max", "max+1", "all", "half", "one", "huge", "unit")}}
		case k < 13:
			if r.Intn(3) == 0 {
				st = vlStep{Ev: pick("cancel_unbond", "exec_cancel_unbond", "pc_cancel_unbond"), Args: M{"how": pick("all", "half", "sp+1", "one")}}
			} else {
				st = vlStep{Ev: "undelegate", Args: M{"how": pick("all", "all", "half", "one")}}
			}
		case k < 17:
			switch r.Intn(5) {
			case 0:
				st = vlStep{Ev: "tick", Args: M{"dt": []int64{1, 5, 21, 61, 130}[r.Intn(5)]}}
			case 1:
				st = vlStep{Ev: "tick", Args: M{"to": "unbond", "off": []int64{-1, 0, 1}[r.Intn(3)]}}
			default:
				st = vlStep{Ev: "tick", Args: M{"to": "next", "off": []int64{-1, 0, 0, 1}[r.Intn(4)]}}
			}
		case k < 18:
			switch r.Intn(4) {
			case 0:
				st = vlStep{Ev: pick("clawback", "convert_back", "exec_convert_back"), Args: M{}}
			case 1:
				st = vlStep{Ev: "slash", Args: M{}}
			case 2:
				st = vlStep{Ev: "withdraw", Args: M{}}
			default:
				st = vlStep{Ev: "fund_extra", Args: M{"how": pick("unit", "one", "unit")}}
			}
		case k < 19:
			ev := pick("merge", "convert_into", "convert_into_stake")
			one := func() map[string]any { return map[string]any{vlBond: fmt.Sprint(1 + r.Intn(2)), vlLiq: "0"} }
			amt := one()
			// the grant's lockup and vesting schedules have different shapes: one or two periods each,
			// vesting ahead of the lockup or the reverse
			shape := func() []any {
				if r.Intn(2) == 0 || fmt.Sprint(amt[vlBond]) == "1" {
					return []any{map[string]any{"len": lens[r.Intn(len(lens))], "amt": amt}}
				}
				h := map[string]any{vlBond: "1", vlLiq: "0"}
				return []any{map[string]any{"len": lens[r.Intn(len(lens))], "amt": h}, map[string]any{"len": lens[r.Intn(len(lens))], "amt": h}}
			}
			offs := []int64{-30, 0, 0, 10}
			if ev == "convert_into_stake" {
				offs = []int64{-70, -70, -25, 0}
			}
			g := map[string]any{"startOff": offs[r.Intn(4)],
				"lockup": shape(), "vesting": shape()}
			st = vlStep{Ev: ev, Args: M{"grant": g}}
		default:
			if sc.Cfg.Init.Grants {
				st = vlStep{Ev: pick("slash", "liquidate", "withdraw"), Args: M{"how": "all"}}
			} else {
				st = vlStep{Ev: pick("grant_authz", "grant_fee", "grant_pc", "slash"), Args: M{"how": "all"}}
			}
		}
		sc.Steps = append(sc.Steps, st)
	}
	return sc
}

func vlMain(argv []string) error {
	fs := flag.NewFlagSet("vestinglock", flag.ExitOnError)
	scripts := fs.String("scripts", "", "JSON file with a list of scripts")
	nrandom := fs.Int("random", 0, "number of seeded random scenarios")
	seed := fs.Int64("seed", 1, "seed")
	out := fs.String("out", "trace.ndjson", "trace output")
	dbg := fs.Bool("debug", false, "print set-up failures")
	dump := fs.String("dump", "", "write the scripts that were run (scenario order) to this file: the replay files")
	fs.Parse(argv)
	var used []vlScript
	tw, err := NewTraceWriter(*out)
	if err != nil {
		return err
	}
	defer tw.Close()
	stats := map[string]int{}
	scn := 0
	if *scripts != "" {
		var list []vlScript
		if err := readJSONFile(*scripts, &list); err != nil {
			return err
		}
		for _, sc := range list {
			scn++
			if sc.Cfg.Seed == 0 {
				sc.Cfg.Seed = *seed
			}
			used = append(used, sc)
			vlRunScenario(tw, scn, "script", sc, stats, *dbg)
		}
	}
	r := rand.New(rand.NewSource(*seed*7919 + 13))
	for i := 0; i < *nrandom; i++ {
		scn++
		sc := vlRandomScript(r, *seed)
		used = append(used, sc)
		vlRunScenario(tw, scn, "random", sc, stats, *dbg)
	}
	if *dump != "" {
		bz, err := json.Marshal(used)
		if err != nil {
			return err
		}
		if err := os.WriteFile(*dump, bz, 0o644); err != nil {
			return err
		}
	}
	for _, k := range sortedKeys(stats) {
		fmt.Printf("stat %s %d\n", k, stats[k])
	}
	fmt.Printf("vestinglock: scenarios=%d lines=%d\n", scn, tw.N)
	return nil
}

var _ = abci.ResponseDeliverTx{}
var _ = codectypes.NewAnyWithValue
