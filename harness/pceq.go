package main

// Driver for specs/PrecompileEq.tla (C16): the same operation executed twice on forks
// (CacheContext) of the same real state - once as the native Cosmos message through the
// message service router, once as a call of the precompile by the account owner through the
// EVM (x/evm ApplyMessage with commit, zero gas price) - with the projected Cosmos state of
// both forks logged in one line.  Read-only precompile methods are compared with the native
// gRPC queriers.

import (
	"bytes"
	"encoding/base64"
	"encoding/hex"
	"encoding/json"
	"flag"
	"fmt"
	"math/big"
	"sort"
	"strconv"
	"strings"
	"time"

	sdkmath "cosmossdk.io/math"
	dbm "github.com/cometbft/cometbft-db"
	"github.com/cosmos/cosmos-sdk/crypto/keys/ed25519"
	sdk "github.com/cosmos/cosmos-sdk/types"
	"github.com/cosmos/cosmos-sdk/types/query"
	sdkvesting "github.com/cosmos/cosmos-sdk/x/auth/vesting/types"
	banktypes "github.com/cosmos/cosmos-sdk/x/bank/types"
	distrkeeper "github.com/cosmos/cosmos-sdk/x/distribution/keeper"
	distrtypes "github.com/cosmos/cosmos-sdk/x/distribution/types"
	stakingkeeper "github.com/cosmos/cosmos-sdk/x/staking/keeper"
	stakingtypes "github.com/cosmos/cosmos-sdk/x/staking/types"
	transfertypes "github.com/cosmos/ibc-go/v7/modules/apps/transfer/types"
	clienttypes "github.com/cosmos/ibc-go/v7/modules/core/02-client/types"
	"github.com/ethereum/go-ethereum/accounts/abi"
	"github.com/ethereum/go-ethereum/common"
	ethtypes "github.com/ethereum/go-ethereum/core/types"

	stakingprecompile "github.com/haqq-network/haqq/precompiles/staking"
	"github.com/haqq-network/haqq/utils"
	evmtypes "github.com/haqq-network/haqq/x/evm/types"
	liquidvestingtypes "github.com/haqq-network/haqq/x/liquidvesting/types"
	vestingtypes "github.com/haqq-network/haqq/x/vesting/types"
)

func init() { register("pceq", pceqMain) }

type pceqCase struct {
	State  string `json:"state"`  // base | wdOther | noDeleg | operator
	M      string `json:"m"`      // method
	Val    string `json:"val"`    // V1 | V2 | unknown | badbech32
	Amt    string `json:"amt"`    // amount class
	Height string `json:"height"` // ok | wrong (cancelUnbonding)
	To     string `json:"to"`     // T | self (setWithdrawAddress)
	Dst    string `json:"dst"`    // redelegate: destination validator (V3 | same | V1 | unknown | badbech32)
	// ICS-20 transfer arguments
	Tmo   string `json:"tmo"`   // none | height | heightPast | ts | tsPast | both | bothTsPast | bothHeightPast
	Memo  string `json:"memo"`  // none | text
	Rcv   string `json:"rcv"`   // ok | empty | long
	Chan  string `json:"chan"`  // ok | chan1 | noChannel | noPort | badId
	Denom string `json:"denom"` // native | other | unheld | voucher | voucherFwd | invalid
}

// norm fills the arguments an older case file does not name with the values that were fixed then.
func (c pceqCase) norm() pceqCase {
	def := func(p *string, v string) {
		if *p == "" {
			*p = v
		}
	}
	def(&c.Height, "ok")
	def(&c.To, "T")
	def(&c.Dst, "V3")
	def(&c.Tmo, "height")
	def(&c.Memo, "none")
	def(&c.Rcv, "ok")
	def(&c.Chan, "ok")
	def(&c.Denom, "native")
	return c
}

type pceqState struct {
	r   *evmcRun
	ew  *EvmWorld
	ctx sdk.Context // deliver ctx of the block in progress
	S   Key
}

var bankABI abi.ABI
var bankPC = common.HexToAddress("0x0000000000000000000000000000000000000804")

// voucher denominations of the "rich" state: one that came in over transfer/channel-0 (sending it back over that
// channel burns it) and one that came in over another channel (sending it over channel-0 escrows it)
var (
	pceqTraceBack = transfertypes.DenomTrace{Path: "transfer/channel-0", BaseDenom: "uatom"}
	pceqTraceFwd  = transfertypes.DenomTrace{Path: "transfer/channel-9", BaseDenom: "uosmo"}
)

func pceqBuild(seed int64, kind string) *pceqState {
	cfg := DefaultGenesisCfg(seed)
	w := NewWorld(cfg)
	n := NewNode(w, dbm.NewMemDB())
	ew := &EvmWorld{N: n, Roles: map[string]Key{}}
	signer := "a1"
	if kind == "operator" || kind == "operatorWd" {
		signer = "v1"
	}
	ew.Roles["S"] = w.Acct(signer)
	ew.Roles["T"] = w.Acct("a2")
	ew.Roles["W"] = w.Acct("a3")
	r := &evmcRun{n: n, w: ew, addrs: map[string]sdk.AccAddress{}, frames: map[int]string{}}
	r.names = []string{"S", "T", "W"}
	for _, nm := range r.names {
		r.addrs[nm] = ew.Roles[nm].Addr
	}
	S, T := ew.Roles["S"], ew.Roles["T"]
	gp := big.NewInt(2_000_000_000)
	n.BeginBlock(BlockIn{DtMs: 5000, Proposer: 0})
	add := func(k Key, msgs ...sdk.Msg) {
		bz, err := n.CosmosTxFor(k, 900000, gp, msgs...)
		if err != nil {
			panic(err)
		}
		if res := n.Deliver(bz); res.Code != 0 {
			panic("set-up tx failed: " + res.Log)
		}
	}
	v2 := w.Vals[1]
	emptyV2 := kind == "v2Empty" || kind == "v2EmptyBonded"
	if kind != "noDeleg" && kind != "operator" && kind != "operatorWd" {
		// (also for "slashed", "vesting", the validator life-cycle states and "rich")
		add(S, stakingtypes.NewMsgDelegate(S.Addr, w.Vals[0].ValAddr(), coin("1000000000000000000000")))
		if !emptyV2 {
			add(S, stakingtypes.NewMsgDelegate(S.Addr, v2.ValAddr(), coin("300000000000000000000")))
		}
		add(S, stakingtypes.NewMsgUndelegate(S.Addr, w.Vals[0].ValAddr(), coin("5000000")))
	}
	add(T, stakingtypes.NewMsgDelegate(T.Addr, w.Vals[0].ValAddr(), coin("1000000000000000000000")))
	if kind == "wdOther" || kind == "operatorWd" {
		add(S, distrtypes.NewMsgSetWithdrawAddress(S.Addr, ew.Roles["W"].Addr))
	}
	if kind == "vesting" {
		// T turns S into a clawback vesting account: 5000 ISLM on top of S's own (free) balance, nothing vested yet
		a := sdk.NewCoins(coin("5000000000000000000000"))
		add(T, vestingtypes.NewMsgConvertIntoVestingAccount(T.Addr, S.Addr, n.Time.Add(-20*time.Second),
			sdkvesting.Periods{{Length: 30, Amount: a}}, sdkvesting.Periods{{Length: 100000, Amount: a}}, false, false, nil))
	}
	if kind == "v2Empty" {
		// the only delegation of V2 (its operator's) is withdrawn completely: 0 tokens, 0 shares; the validator stays in
		// the store, unbonding, until its unbonding period is over
		add(v2.Oper, stakingtypes.NewMsgUndelegate(v2.Oper.Addr, v2.ValAddr(), coin(cfg.ValStake)))
	}
	if kind == "v2Unbonding" || kind == "v2Unbonded" {
		// three stronger validators are created (5 slots): the weakest of the old ones, V2, leaves the active set
		add(T, stakingtypes.NewMsgDelegate(T.Addr, w.Vals[2].ValAddr(), coin("500000000000000000000")))
		for i, nm := range []string{"a4", "a5", "a6"} {
			k := w.Acct(nm)
			pk := ed25519.GenPrivKeyFromSecret([]byte(fmt.Sprintf("hv-pceq-newval-%d", i))).PubKey()
			m, err := stakingtypes.NewMsgCreateValidator(sdk.ValAddress(k.Addr), pk, coin("2000000000000000000000"), stakingtypes.Description{Moniker: nm},
				stakingtypes.NewCommissionRates(sdkmath.LegacyNewDecWithPrec(5, 2), sdkmath.LegacyNewDecWithPrec(20, 2), sdkmath.LegacyNewDecWithPrec(1, 2)),
				sdkmath.OneInt())
			if err != nil {
				panic(err)
			}
			add(k, m)
		}
	}
	if kind == "rich" {
		// redelegations of S between three pairs and one of T from the same source validator
		add(S, stakingtypes.NewMsgBeginRedelegate(S.Addr, v2.ValAddr(), w.Vals[2].ValAddr(), coin("50000000000000000000")))
		add(S, stakingtypes.NewMsgBeginRedelegate(S.Addr, w.Vals[0].ValAddr(), v2.ValAddr(), coin("70000000000000000000")))
		add(S, stakingtypes.NewMsgBeginRedelegate(S.Addr, w.Vals[0].ValAddr(), w.Vals[2].ValAddr(), coin("20000000000000000000")))
		add(T, stakingtypes.NewMsgBeginRedelegate(T.Addr, w.Vals[0].ValAddr(), v2.ValAddr(), coin("30000000000000000000")))
		// IBC vouchers held by S, with their denomination traces
		for _, tr := range []transfertypes.DenomTrace{pceqTraceBack, pceqTraceFwd} {
			n.App.TransferKeeper.SetDenomTrace(n.Ctx(), tr)
			c := sdk.NewCoins(sdk.NewCoin(tr.IBCDenom(), sdkmath.NewInt(5_000_000_000)))
			if err := n.App.BankKeeper.MintCoins(n.Ctx(), "coinomics", c); err != nil {
				panic(err)
			}
			if err := n.App.BankKeeper.SendCoinsFromModuleToAccount(n.Ctx(), "coinomics", S.Addr, c); err != nil {
				panic(err)
			}
		}
	}
	OpenLoopbackChannel(n)
	if kind == "slashed" {
		// a vesting account past its vesting but inside its lockup, funded for fees
		vx := w.Acct("vx1")
		a := sdk.NewCoins(coin("3000000000000000000000"))
		add(S, vestingtypes.NewMsgCreateClawbackVestingAccount(S.Addr, vx.Addr, n.Time.Add(-20*time.Second),
			sdkvesting.Periods{{Length: 3000, Amount: a}}, sdkvesting.Periods{{Length: 1, Amount: a}}, false))
		add(S, banktypes.NewMsgSend(S.Addr, vx.Addr, sdk.NewCoins(coin("1000000000000000000"))))
		// an unregistered denomination that sorts before the registered ones
		odd := sdk.NewCoins(sdk.NewCoin("aAAA", sdkmath.NewInt(4242)))
		if err := n.App.BankKeeper.MintCoins(n.Ctx(), "coinomics", odd); err != nil {
			panic(err)
		}
		if err := n.App.BankKeeper.SendCoinsFromModuleToAccount(n.Ctx(), "coinomics", S.Addr, odd); err != nil {
			panic(err)
		}
		// ... and a registered coin (token pair) that sorts after it, also held by S
		reg := sdk.NewCoins(sdk.NewCoin("azzz", sdkmath.NewInt(777000)))
		if err := n.App.BankKeeper.MintCoins(n.Ctx(), "coinomics", reg); err != nil {
			panic(err)
		}
		if err := n.App.BankKeeper.SendCoinsFromModuleToAccount(n.Ctx(), "coinomics", S.Addr, reg); err != nil {
			panic(err)
		}
		md := banktypes.Metadata{Description: "registered test coin", Base: "azzz", Display: "zzz", Name: "azzz", Symbol: "ZZZ",
			DenomUnits: []*banktypes.DenomUnit{{Denom: "azzz", Exponent: 0}, {Denom: "zzz", Exponent: 18}}}
		if _, err := n.App.Erc20Keeper.RegisterCoin(n.Ctx(), md); err != nil {
			panic(err)
		}
	}
	n.EndBlock()
	n.Commit()
	if kind == "slashed" {
		// liquid tokens (a registered coin/token pair) end up with S; then the validator S delegated to and
		// is unbonding from double-signs: the unbonding entry's balance drops below its initial balance
		vx := w.Acct("vx1")
		n.BeginBlock(BlockIn{DtMs: 5000, Proposer: 0})
		bz, err := n.CosmosTxFor(vx, 12000000, gp, liquidvestingtypes.NewMsgLiquidate(vx.Addr, S.Addr, coin("1000000000000000000000")))
		if err != nil {
			panic(err)
		}
		if res := n.Deliver(bz); res.Code != 0 {
			panic("liquidate failed: " + res.Log)
		}
		n.EndBlock()
		n.Commit()
		n.BeginBlock(BlockIn{DtMs: 5000, Proposer: 1, Evidence: []int{0}})
		n.EndBlock()
		n.Commit()
	}
	getV2 := func() stakingtypes.Validator {
		v, ok := n.App.StakingKeeper.GetValidator(n.App.BaseApp.NewContext(true, n.Header), v2.ValAddr())
		if !ok {
			panic("state " + kind + ": V2 is gone")
		}
		return v
	}
	if kind == "v2Jailed" || kind == "rich" {
		// V2 stops signing until it is jailed for downtime (slashed, leaves the active set)
		for i := 0; i < 14 && !getV2().Jailed; i++ {
			n.BeginBlock(BlockIn{DtMs: 5000, Proposer: 0, Absent: []int{1}})
			n.EndBlock()
			n.Commit()
		}
		if !getV2().Jailed {
			panic("state " + kind + ": V2 was not jailed")
		}
	}
	if kind == "rich" {
		// a second entry of the redelegation V1 -> V3 of S, and a second slash of V2 (double sign)
		n.BeginBlock(BlockIn{DtMs: 5000, Proposer: 0, Evidence: []int{1}})
		add(S, stakingtypes.NewMsgBeginRedelegate(S.Addr, w.Vals[0].ValAddr(), w.Vals[2].ValAddr(), coin("10000000000000000000")))
		n.EndBlock()
		n.Commit()
	}
	warm := 3
	if kind == "v2Unbonded" {
		warm = 15 // more than the unbonding period (60 s)
	}
	for i := 0; i < warm; i++ {
		r.block()
	}
	n.BeginBlock(BlockIn{DtMs: 5000, Proposer: 0})
	if kind == "v2EmptyBonded" {
		// the last delegation leaves V2 in the block under test: 0 tokens, still in the active set
		add(v2.Oper, stakingtypes.NewMsgUndelegate(v2.Oper.Addr, v2.ValAddr(), coin(cfg.ValStake)))
	}
	// the state must be what its name says
	{
		v, _ := n.App.StakingKeeper.GetValidator(n.Ctx(), v2.ValAddr())
		bad := false
		switch kind {
		case "v2Empty":
			bad = !v.Tokens.IsZero() || !v.DelegatorShares.IsZero() || v.Status != stakingtypes.Unbonding
		case "v2EmptyBonded":
			bad = !v.Tokens.IsZero() || !v.DelegatorShares.IsZero() || v.Status != stakingtypes.Bonded
		case "v2Jailed":
			bad = !v.Jailed || v.Status != stakingtypes.Unbonding || v.Tokens.IsZero()
		case "v2Unbonding":
			bad = v.Jailed || v.Status != stakingtypes.Unbonding
		case "v2Unbonded":
			bad = v.Jailed || v.Status != stakingtypes.Unbonded
		case "rich":
			bad = len(n.App.StakingKeeper.GetRedelegations(n.Ctx(), S.Addr, 10)) != 3
		}
		if bad {
			panic(fmt.Sprintf("state %s was not reached: V2 status=%s jailed=%v tokens=%s shares=%s", kind, v.Status, v.Jailed, v.Tokens, v.DelegatorShares))
		}
	}
	return &pceqState{r: r, ew: ew, ctx: n.Ctx(), S: S}
}

func (st *pceqState) wdTarget(c pceqCase) sdk.AccAddress {
	if c.To == "self" {
		return st.S.Addr
	}
	return st.ew.Roles["T"].Addr
}

func (st *pceqState) valAddr(v string) string {
	w := st.r.n.W
	switch v {
	case "V1":
		return w.Vals[0].ValAddr().String()
	case "V2":
		return w.Vals[1].ValAddr().String()
	case "V3":
		return w.Vals[2].ValAddr().String()
	case "unknown":
		return sdk.ValAddress(DetKey(w.Cfg.Seed, "nobody").Addr).String()
	}
	return "haqqvaloper1notbech32"
}

// dstAddr resolves the destination validator of a redelegation.
func (st *pceqState) dstAddr(c pceqCase) string {
	if c.Dst == "same" {
		return st.valAddr(c.Val)
	}
	return st.valAddr(c.Dst)
}

// icsArgs resolves the symbolic ICS-20 arguments of a case in the block of ctx.
type pceqIcs struct {
	Port, Channel, Denom, Receiver, Memo string
	Height                               clienttypes.Height
	Timestamp                            uint64
}

func pceqIcsDenom(class string) string {
	switch class {
	case "native":
		return utils.BaseDenom
	case "other":
		return "utest"
	case "unheld":
		return "unobody"
	case "voucher":
		return pceqTraceBack.IBCDenom()
	case "voucherFwd":
		return pceqTraceFwd.IBCDenom()
	case "invalid":
		return "1bad!"
	}
	panic("denom class " + class)
}

func pceqIcsArgs(ctx sdk.Context, c pceqCase) pceqIcs {
	a := pceqIcs{Port: "transfer", Channel: "channel-0", Denom: pceqIcsDenom(c.Denom), Receiver: "haqq1receiveronotherside"}
	switch c.Chan {
	case "ok":
	case "chan1":
		a.Channel = "channel-1"
	case "noChannel":
		a.Channel = "channel-7"
	case "noPort":
		a.Port = "xfer"
	case "badId":
		a.Channel = "c!"
	default:
		panic("chan class " + c.Chan)
	}
	switch c.Rcv {
	case "ok":
	case "empty":
		a.Receiver = ""
	case "long":
		a.Receiver = strings.Repeat("r", 2049)
	default:
		panic("rcv class " + c.Rcv)
	}
	switch c.Memo {
	case "none":
	case "text":
		a.Memo = `{"note":"hv-pceq memo"}`
	default:
		panic("memo class " + c.Memo)
	}
	hOK, hPast := clienttypes.NewHeight(1, 1_000_000), clienttypes.NewHeight(1, 1)
	tOK, tPast := uint64(ctx.BlockTime().Add(time.Hour).UnixNano()), uint64(ctx.BlockTime().Add(-time.Second).UnixNano())
	switch c.Tmo {
	case "none":
	case "height":
		a.Height = hOK
	case "heightPast":
		a.Height = hPast
	case "ts":
		a.Timestamp = tOK
	case "tsPast":
		a.Timestamp = tPast
	case "both":
		a.Height, a.Timestamp = hOK, tOK
	case "bothTsPast":
		a.Height, a.Timestamp = hOK, tPast
	case "bothHeightPast":
		a.Height, a.Timestamp = hPast, tOK
	default:
		panic("tmo class " + c.Tmo)
	}
	return a
}

func (st *pceqState) amount(ctx sdk.Context, c pceqCase) *big.Int {
	class, v := c.Amt, c.Val
	app := st.r.n.App
	bal := app.BankKeeper.GetBalance(ctx, st.S.Addr, utils.BaseDenom).Amount
	if c.M == "ibcTransfer" {
		// the balance the amount classes refer to is the one in the denomination sent
		bal = sdkmath.ZeroInt()
		if d := pceqIcsDenom(c.Denom); sdk.ValidateDenom(d) == nil {
			bal = app.BankKeeper.GetBalance(ctx, st.S.Addr, d).Amount
		}
	}
	del := sdkmath.ZeroInt()
	if va, err := sdk.ValAddressFromBech32(st.valAddr(v)); err == nil {
		if d, ok := app.StakingKeeper.GetDelegation(ctx, st.S.Addr, va); ok {
			if val, ok := app.StakingKeeper.GetValidator(ctx, va); ok {
				del = val.TokensFromShares(d.Shares).TruncateInt()
			}
		}
	}
	switch class {
	case "0":
		return big.NewInt(0)
	case "1":
		return big.NewInt(1)
	case "small":
		return big.NewInt(1234567)
	case "ubd":
		return big.NewInt(5000000)
	case "eqDeleg":
		return del.BigInt()
	case "gtDeleg":
		return del.AddRaw(1).BigInt()
	case "eqFree", "gtFree":
		// what a vesting account may bond: its balance minus the unvested coins
		free := bal
		if va, ok := app.AccountKeeper.GetAccount(ctx, st.S.Addr).(*vestingtypes.ClawbackVestingAccount); ok {
			free = bal.Sub(va.GetVestingCoins(ctx.BlockTime()).AmountOf(utils.BaseDenom))
		}
		if class == "gtFree" {
			free = free.AddRaw(1)
		}
		return free.BigInt()
	case "eqBal":
		return bal.BigInt()
	case "gtBal":
		return bal.AddRaw(1).BigInt()
	case "2^255":
		return new(big.Int).Lsh(big.NewInt(1), 255)
	case "max":
		return new(big.Int).Sub(new(big.Int).Lsh(big.NewInt(1), 256), big.NewInt(1))
	}
	panic("amount class " + class)
}

// native executes the native counterpart on ctx.
func (st *pceqState) native(ctx sdk.Context, c pceqCase, amt *big.Int) (ok bool, errs string) {
	defer func() {
		if r := recover(); r != nil {
			ok, errs = false, fmt.Sprint("panic: ", r)
		}
	}()
	S := st.S
	val := st.valAddr(c.Val)
	cn := sdk.Coin{Denom: utils.BaseDenom, Amount: sdkmath.NewIntFromBigInt(amt)}
	var msgs []sdk.Msg
	switch c.M {
	case "delegate":
		msgs = []sdk.Msg{&stakingtypes.MsgDelegate{DelegatorAddress: S.Addr.String(), ValidatorAddress: val, Amount: cn}}
	case "undelegate":
		msgs = []sdk.Msg{&stakingtypes.MsgUndelegate{DelegatorAddress: S.Addr.String(), ValidatorAddress: val, Amount: cn}}
	case "redelegate":
		msgs = []sdk.Msg{&stakingtypes.MsgBeginRedelegate{DelegatorAddress: S.Addr.String(), ValidatorSrcAddress: val, ValidatorDstAddress: st.dstAddr(c), Amount: cn}}
	case "cancelUnbonding":
		h := int64(1)
		if c.Height == "wrong" {
			h = 2
		}
		msgs = []sdk.Msg{&stakingtypes.MsgCancelUnbondingDelegation{DelegatorAddress: S.Addr.String(), ValidatorAddress: val, Amount: cn, CreationHeight: h}}
	case "withdrawRewards":
		msgs = []sdk.Msg{&distrtypes.MsgWithdrawDelegatorReward{DelegatorAddress: S.Addr.String(), ValidatorAddress: val}}
	case "claimRewards":
		for _, v := range st.r.n.App.StakingKeeper.GetDelegatorValidators(ctx, S.Addr, 10) {
			msgs = append(msgs, &distrtypes.MsgWithdrawDelegatorReward{DelegatorAddress: S.Addr.String(), ValidatorAddress: v.OperatorAddress})
		}
	case "setWithdrawAddress":
		msgs = []sdk.Msg{&distrtypes.MsgSetWithdrawAddress{DelegatorAddress: S.Addr.String(), WithdrawAddress: st.wdTarget(c).String()}}
	case "withdrawCommission":
		msgs = []sdk.Msg{&distrtypes.MsgWithdrawValidatorCommission{ValidatorAddress: sdk.ValAddress(S.Addr).String()}}
	case "createValidator":
		pk := ed25519.GenPrivKeyFromSecret([]byte("hv-pceq-cons-key")).PubKey()
		m, err := stakingtypes.NewMsgCreateValidator(sdk.ValAddress(S.Addr), pk, cn, stakingtypes.Description{Moniker: "s"},
			stakingtypes.NewCommissionRates(sdkmath.LegacyNewDecWithPrec(5, 2), sdkmath.LegacyNewDecWithPrec(20, 2), sdkmath.LegacyNewDecWithPrec(1, 2)),
			sdkmath.OneInt())
		if err != nil {
			return false, err.Error()
		}
		msgs = []sdk.Msg{m}
	case "ibcTransfer":
		a := pceqIcsArgs(ctx, c)
		msgs = []sdk.Msg{transfertypes.NewMsgTransfer(a.Port, a.Channel, sdk.Coin{Denom: a.Denom, Amount: cn.Amount}, S.Addr.String(), a.Receiver,
			a.Height, a.Timestamp, a.Memo)}
	default:
		panic("native: " + c.M)
	}
	for _, m := range msgs {
		if err := m.ValidateBasic(); err != nil {
			return false, err.Error()
		}
		h := st.r.n.App.MsgServiceRouter().Handler(m)
		if _, err := h(ctx, m); err != nil {
			return false, err.Error()
		}
	}
	return true, ""
}

func (st *pceqState) evmCall(ctx sdk.Context, to common.Address, data []byte) (*evmtypes.MsgEthereumTxResponse, error) {
	from := ethAddr(st.S)
	nonce := st.r.n.App.EvmKeeper.GetNonce(ctx, from)
	msg := ethtypes.NewMessage(from, &to, nonce, big.NewInt(0), 20_000_000, big.NewInt(0), big.NewInt(0), big.NewInt(0), data, ethtypes.AccessList{}, false)
	return st.r.n.App.EvmKeeper.ApplyMessage(ctx, msg, evmtypes.NewNoOpTracer(), true)
}

// precompile executes the precompile call by the owner on ctx.
func (st *pceqState) precompile(ctx sdk.Context, c pceqCase, amt *big.Int) (ok bool, errs string) {
	defer func() {
		if r := recover(); r != nil {
			ok, errs = false, fmt.Sprint("panic: ", r)
		}
	}()
	who := ethAddr(st.S)
	val := st.valAddr(c.Val)
	var to common.Address
	var data []byte
	var err error
	switch c.M {
	case "delegate", "undelegate":
		to = stakingPC
		data, err = stakingABI.Pack(c.M, who, val, amt)
	case "redelegate":
		to = stakingPC
		data, err = stakingABI.Pack("redelegate", who, val, st.dstAddr(c), amt)
	case "cancelUnbonding":
		h := int64(1)
		if c.Height == "wrong" {
			h = 2
		}
		to = stakingPC
		data, err = stakingABI.Pack("cancelUnbondingDelegation", who, val, amt, big.NewInt(h))
	case "withdrawRewards":
		to = distrPC
		data, err = distrABI.Pack("withdrawDelegatorRewards", who, val)
	case "claimRewards":
		to = distrPC
		data, err = distrABI.Pack("claimRewards", who, uint32(10))
	case "setWithdrawAddress":
		to = distrPC
		data, err = distrABI.Pack("setWithdrawAddress", who, st.wdTarget(c).String())
	case "withdrawCommission":
		to = distrPC
		data, err = distrABI.Pack("withdrawValidatorCommission", sdk.ValAddress(st.S.Addr).String())
	case "createValidator":
		pk := ed25519.GenPrivKeyFromSecret([]byte("hv-pceq-cons-key")).PubKey()
		d16 := func(n int64) *big.Int {
			return new(big.Int).Mul(big.NewInt(n), new(big.Int).Exp(big.NewInt(10), big.NewInt(16), nil))
		}
		to = stakingPC
		data, err = stakingABI.Pack("createValidator", stakingprecompile.Description{Moniker: "s"},
			stakingprecompile.Commission{Rate: d16(5), MaxRate: d16(20), MaxChangeRate: d16(1)},
			big.NewInt(1), who, sdk.ValAddress(st.S.Addr).String(), base64.StdEncoding.EncodeToString(pk.Bytes()), amt)
	case "ibcTransfer":
		to = ics20PC
		a := pceqIcsArgs(ctx, c)
		data, err = ics20ABI.Pack("transfer", a.Port, a.Channel, a.Denom, amt, who, a.Receiver,
			icsHeight{RevisionNumber: a.Height.RevisionNumber, RevisionHeight: a.Height.RevisionHeight}, a.Timestamp, a.Memo)
	default:
		panic("precompile: " + c.M)
	}
	if err != nil {
		return false, "pack: " + err.Error()
	}
	res, err := st.evmCall(ctx, to, data)
	if err != nil {
		return false, err.Error()
	}
	if res.Failed() {
		return false, res.VmError
	}
	return true, ""
}

// queries compares read-only precompile methods with the native queriers on ctx; returns
// per-query {native, precompile} strings.
func (st *pceqState) queries(ctx sdk.Context) M {
	app := st.r.n.App
	out := M{}
	q := stakingkeeper.Querier{Keeper: app.StakingKeeper.Keeper}
	gctx := sdk.WrapSDKContext(ctx)
	who := ethAddr(st.S)
	call := func(to common.Address, a abi.ABI, method string, args ...interface{}) ([]interface{}, string) {
		data, err := a.Pack(method, args...)
		if err != nil {
			return nil, "pack:" + err.Error()
		}
		cctx, _ := ctx.CacheContext()
		cctx = cctx.WithGasMeter(sdk.NewInfiniteGasMeter())
		res, err := st.evmCall(cctx, to, data)
		if err != nil {
			return nil, "err:" + err.Error()
		}
		if res.Failed() {
			return nil, "vm:" + res.VmError
		}
		vals, err := a.Unpack(method, res.Ret)
		if err != nil {
			return nil, "unpack:" + err.Error()
		}
		return vals, ""
	}
	for _, v := range []string{"V1", "V2", "V3", "unknown"} {
		va := st.valAddr(v)
		// delegation
		nat := "none"
		if r, err := q.Delegation(gctx, &stakingtypes.QueryDelegationRequest{DelegatorAddr: st.S.Addr.String(), ValidatorAddr: va}); err == nil {
			nat = fmt.Sprintf("shares=%s,bal=%s%s", r.DelegationResponse.Delegation.Shares.BigInt(), r.DelegationResponse.Balance.Amount, r.DelegationResponse.Balance.Denom)
		} else {
			nat = fmt.Sprintf("shares=0,bal=0%s", utils.BaseDenom)
		}
		pre := ""
		if vals, e := call(stakingPC, stakingABI, "delegation", who, va); e == "" {
			pre = fmt.Sprintf("shares=%v,bal=%s", vals[0], coinStr(vals[1]))
		} else {
			pre = e
		}
		out["delegation:"+v] = M{"native": nat, "precompile": pre}
		// unbonding delegation
		nat = "entries="
		if r, err := q.UnbondingDelegation(gctx, &stakingtypes.QueryUnbondingDelegationRequest{DelegatorAddr: st.S.Addr.String(), ValidatorAddr: va}); err == nil {
			var es []string
			for _, e := range r.Unbond.Entries {
				es = append(es, fmt.Sprintf("%d/%d/%s/%s", e.CreationHeight, e.CompletionTime.UTC().Unix(), e.InitialBalance, e.Balance))
			}
			nat = "entries=" + strings.Join(es, ";")
		}
		if vals, e := call(stakingPC, stakingABI, "unbondingDelegation", who, va); e == "" {
			pre = "entries=" + ubdEntries(vals[0])
		} else {
			pre = e
		}
		out["unbonding:"+v] = M{"native": nat, "precompile": pre}
		// validator
		nat = "notfound"
		if r, err := q.Validator(gctx, &stakingtypes.QueryValidatorRequest{ValidatorAddr: va}); err == nil {
			x := r.Validator
			nat = fmt.Sprintf("%s/%v/%d/%s/%s/%s", x.OperatorAddress, x.Jailed, stakingtypes.BondStatus_value[x.Status.String()], x.Tokens, x.DelegatorShares.BigInt(), x.Commission.CommissionRates.Rate.BigInt())
		}
		if vals, e := call(stakingPC, stakingABI, "validator", va); e == "" {
			pre = validatorStr(vals[0])
		} else {
			pre = e
		}
		out["validator:"+v] = M{"native": nat, "precompile": pre}
	}
	// one redelegation (delegator, source, destination)
	for _, pr := range [][2]string{{"V1", "V3"}, {"V2", "V3"}, {"V1", "V2"}, {"V1", "unknown"}} {
		src, dst := st.valAddr(pr[0]), st.valAddr(pr[1])
		nat := "entries="
		if r, err := q.Redelegations(gctx, &stakingtypes.QueryRedelegationsRequest{DelegatorAddr: st.S.Addr.String(), SrcValidatorAddr: src, DstValidatorAddr: dst}); err == nil && len(r.RedelegationResponses) == 1 {
			var es []string
			// (the native response carries the entries next to the redelegation, with their balances)
			for _, x := range r.RedelegationResponses[0].Entries {
				e := x.RedelegationEntry
				es = append(es, pceqRedEntryStr(e.CreationHeight, e.CompletionTime.Unix(), e.InitialBalance.String(), e.SharesDst.BigInt().String()))
			}
			nat = "entries=" + strings.Join(es, ";")
		}
		pre := ""
		if vals, e := st.view(ctx, stakingPC, stakingABI, "redelegation", who, src, dst); e == "" {
			var es []string
			for _, e := range jl(vals[0], "entries") {
				es = append(es, fmt.Sprintf("%s/%s/%s/%s", js(e, "creationHeight"), js(e, "completionTime"), js(e, "initialBalance"), js(e, "sharesDst")))
			}
			pre = "entries=" + strings.Join(es, ";")
		} else {
			pre = e
		}
		out["redelegation:"+pr[0]+">"+pr[1]] = M{"native": nat, "precompile": pre}
	}
	// bank precompile: every denomination that has an ERC20 address
	if bankABI.Methods == nil {
		bankABI = loadRepoABI("precompiles/bank/abi.json")
	}
	var nb, ns []string
	for _, c := range app.BankKeeper.GetAllBalances(ctx, st.S.Addr) {
		if a, err := app.Erc20Keeper.GetCoinAddress(ctx, c.Denom); err == nil {
			nb = append(nb, fmt.Sprintf("%s=%s", strings.ToLower(a.Hex()), c.Amount))
		}
	}
	app.BankKeeper.IterateTotalSupply(ctx, func(c sdk.Coin) bool {
		if a, err := app.Erc20Keeper.GetCoinAddress(ctx, c.Denom); err == nil {
			ns = append(ns, fmt.Sprintf("%s=%s", strings.ToLower(a.Hex()), c.Amount))
		}
		return false
	})
	sort.Strings(nb)
	sort.Strings(ns)
	pre := ""
	if vals, e := call(bankPC, bankABI, "balances", who); e == "" {
		pre = balancesStr(vals[0])
	} else {
		pre = e
	}
	out["bank.balances"] = M{"native": strings.Join(nb, ","), "precompile": pre}
	if vals, e := call(bankPC, bankABI, "totalSupply"); e == "" {
		pre = balancesStr(vals[0])
	} else {
		pre = e
	}
	out["bank.totalSupply"] = M{"native": strings.Join(ns, ","), "precompile": pre}
	_ = banktypes.ModuleName
	return out
}

func coinStr(v interface{}) string {
	s := fmt.Sprintf("%+v", v)
	// {Denom:aISLM Amount:+123}
	s = strings.TrimSuffix(strings.TrimPrefix(s, "{"), "}")
	var denom, amt string
	for _, f := range strings.Fields(s) {
		if strings.HasPrefix(f, "Denom:") {
			denom = strings.TrimPrefix(f, "Denom:")
		}
		if strings.HasPrefix(f, "Amount:") {
			amt = strings.TrimPrefix(strings.TrimPrefix(f, "Amount:"), "+")
		}
	}
	return amt + denom
}

func fieldsOf(v interface{}) map[string]string {
	out := map[string]string{}
	s := fmt.Sprintf("%+v", v)
	s = strings.TrimSuffix(strings.TrimPrefix(s, "{"), "}")
	for _, f := range strings.Fields(s) {
		if i := strings.Index(f, ":"); i > 0 {
			out[f[:i]] = strings.TrimPrefix(f[i+1:], "+")
		}
	}
	return out
}

func validatorStr(v interface{}) string {
	f := fieldsOf(v)
	if f["OperatorAddress"] == "" {
		return "notfound"
	}
	return fmt.Sprintf("%s/%s/%s/%s/%s/%s", f["OperatorAddress"], f["Jailed"], f["Status"], f["Tokens"], f["DelegatorShares"], f["Commission"])
}

func ubdEntries(v interface{}) string {
	s := fmt.Sprintf("%+v", v)
	i := strings.Index(s, "Entries:[")
	if i < 0 {
		return ""
	}
	s = s[i+len("Entries:["):]
	if j := strings.Index(s, "]"); j >= 0 {
		s = s[:j]
	}
	var es []string
	for _, e := range strings.Split(s, "} {") {
		f := fieldsOf("{" + strings.Trim(e, "{}") + "}")
		if f["CreationHeight"] == "" {
			continue
		}
		es = append(es, fmt.Sprintf("%s/%s/%s/%s", f["CreationHeight"], f["CompletionTime"], f["InitialBalance"], f["Balance"]))
	}
	return strings.Join(es, ";")
}

func balancesStr(v interface{}) string {
	s := fmt.Sprintf("%+v", v)
	s = strings.Trim(s, "[]")
	var out []string
	for _, e := range strings.Split(s, "} {") {
		f := fieldsOf("{" + strings.Trim(e, "{}") + "}")
		if f["ContractAddress"] == "" {
			continue
		}
		out = append(out, fmt.Sprintf("%s=%s", strings.ToLower(f["ContractAddress"]), f["Amount"]))
	}
	sort.Strings(out)
	return strings.Join(out, ",")
}

// project: the projection shared with the EvmCosmos driver plus what the argument and state dimensions of this
// specification can touch: other denominations, redelegations, the validators themselves, the IBC packet store.
func (st *pceqState) project(ctx sdk.Context) M {
	p := st.r.project(ctx)
	app := st.r.n.App
	w := st.r.n.W
	valName := map[string]string{}
	for i, v := range w.Vals {
		valName[v.ValAddr().String()] = fmt.Sprintf("V%d", i+1)
	}
	nm := func(a string) string {
		if x, ok := valName[a]; ok {
			return x
		}
		return a
	}
	// balances in every other denomination (accounts, the escrow accounts of both channels), and the supplies
	others := func(a sdk.AccAddress) string {
		var out []string
		for _, c := range app.BankKeeper.GetAllBalances(ctx, a) {
			if c.Denom != utils.BaseDenom {
				out = append(out, c.Denom+"="+c.Amount.String())
			}
		}
		return strings.Join(out, ",")
	}
	den := M{}
	for _, n := range st.r.names {
		den[n] = others(st.r.addrs[n])
	}
	den["escrow0"] = others(transfertypes.GetEscrowAddress("transfer", "channel-0"))
	esc1 := app.BankKeeper.GetAllBalances(ctx, transfertypes.GetEscrowAddress("transfer", "channel-1"))
	den["escrow1"] = esc1.String()
	den["transferModule"] = app.BankKeeper.GetAllBalances(ctx, app.AccountKeeper.GetModuleAddress(transfertypes.ModuleName)).String()
	var sup []string
	app.BankKeeper.IterateTotalSupply(ctx, func(c sdk.Coin) bool {
		if c.Denom != utils.BaseDenom {
			sup = append(sup, c.Denom+"="+c.Amount.String())
		}
		return false
	})
	sort.Strings(sup)
	den["supply"] = strings.Join(sup, ",")
	var tesc []string
	for _, c := range app.TransferKeeper.GetAllTotalEscrowed(ctx) {
		tesc = append(tesc, c.String())
	}
	den["totalEscrow"] = strings.Join(tesc, ",")
	p["denoms"] = den
	// redelegations of the accounts
	red := M{}
	for _, n := range st.r.names {
		var out []string
		for _, rd := range app.StakingKeeper.GetRedelegations(ctx, st.r.addrs[n], 100) {
			var es []string
			for _, e := range rd.Entries {
				es = append(es, fmt.Sprintf("%d/%d/%s/%s", e.CreationHeight, e.CompletionTime.UTC().Unix(), e.InitialBalance, e.SharesDst.BigInt()))
			}
			out = append(out, nm(rd.ValidatorSrcAddress)+">"+nm(rd.ValidatorDstAddress)+":"+strings.Join(es, ";"))
		}
		sort.Strings(out)
		red[n] = strings.Join(out, " ")
	}
	p["red"] = red
	// every validator in the store
	vals := M{}
	for _, v := range app.StakingKeeper.GetAllValidators(ctx) {
		vals[nm(v.OperatorAddress)] = fmt.Sprintf("%s/%v/%s/%s/%d/%d", v.Status, v.Jailed, v.Tokens, v.DelegatorShares.BigInt(), v.UnbondingHeight, v.UnbondingTime.UTC().Unix())
	}
	p["vals"] = vals
	// packets sent: next sequence and the commitment of the last one, per channel
	ibc := M{}
	ck := app.IBCKeeper.ChannelKeeper
	for _, ch := range []string{"channel-0", "channel-1"} {
		seq, _ := ck.GetNextSequenceSend(ctx, "transfer", ch)
		cm := "none"
		if seq > 1 {
			cm = hex.EncodeToString(ck.GetPacketCommitment(ctx, "transfer", ch, seq-1))
		}
		ibc[ch] = fmt.Sprintf("next=%d,last=%s", seq, cm)
	}
	p["ibc"] = ibc
	// grants of the three accounts to each other (no call of an owner may touch them): one canonical string
	p["grants"] = fmt.Sprint(M{"limit": p["grants"], "vals": p["grantVals"], "exp": p["grantExp"]})
	// fields of the EvmCosmos projection that this specification does not compare
	for _, k := range []string{"grantVals", "grantExp", "storage", "nonce", "code"} {
		delete(p, k)
	}
	return p
}

// ---------------------------------------------------------------------------------------
// paginated read-only methods: walks

type pceqWalk struct {
	State      string `json:"state"`
	Q          string `json:"q"`     // validators | redelegations | validatorSlashes
	Sel        string `json:"sel"`   // selector (see specs/PrecompileEq.tla)
	Limit      string `json:"limit"` // "0" = default page size
	CountTotal bool   `json:"countTotal"`
	Reverse    bool   `json:"reverse"`
	Mode       string `json:"mode"` // key | offset
}

type pceqPage struct {
	Items   []string `json:"items"`
	Next    string   `json:"next"` // continuation key (hex), "" = none
	Total   string   `json:"total"`
	Err     string   `json:"err"` // "yes" if the call failed
	next    []byte
	errText string
}

type pceqPageReq struct {
	Key        []byte `abi:"key"`
	Offset     uint64 `abi:"offset"`
	Limit      uint64 `abi:"limit"`
	CountTotal bool   `abi:"countTotal"`
	Reverse    bool   `abi:"reverse"`
}

func pceqErrPage(why string) pceqPage {
	return pceqPage{Items: []string{}, Total: "0", Err: "yes", errText: why}
}

func pceqPageOf(items []string, pr *query.PageResponse) pceqPage {
	if items == nil {
		items = []string{}
	}
	pg := pceqPage{Items: items, Total: "0"}
	if pr != nil {
		pg.next = pr.NextKey
		pg.Next = hex.EncodeToString(pr.NextKey)
		pg.Total = fmt.Sprint(pr.Total)
	}
	return pg
}

// pceqDoWalk asks for page after page as the walk prescribes, following the continuation that `fetch` itself returned.
func pceqDoWalk(w pceqWalk, fetch func(pr query.PageRequest) pceqPage) []pceqPage {
	limit, err := strconv.ParseUint(w.Limit, 10, 64)
	if err != nil {
		panic(err)
	}
	var pages []pceqPage
	var key []byte
	for i := 0; i < 12; i++ {
		pr := query.PageRequest{Limit: limit, CountTotal: w.CountTotal, Reverse: w.Reverse}
		if w.Mode == "key" {
			pr.Key = key
		} else {
			pr.Offset = uint64(i) * limit
		}
		pg := fetch(pr)
		pages = append(pages, pg)
		if pg.Err != "" {
			break
		}
		if w.Mode == "key" {
			if len(pg.next) == 0 {
				break
			}
			key = pg.next
		} else if len(pg.Items) == 0 || limit == 0 {
			break
		}
	}
	return pages
}

// pceqUnpack decodes the return data of a precompile method into generic JSON values (tuples become objects keyed by
// the ABI component names, integers stay exact, byte strings are base64).
func pceqUnpack(a abi.ABI, method string, ret []byte) ([]interface{}, error) {
	vals, err := a.Unpack(method, ret)
	if err != nil {
		return nil, err
	}
	bz, err := json.Marshal(vals)
	if err != nil {
		return nil, err
	}
	dec := json.NewDecoder(bytes.NewReader(bz))
	dec.UseNumber()
	var out []interface{}
	if err := dec.Decode(&out); err != nil {
		return nil, err
	}
	return out, nil
}

func jf(v interface{}, path ...string) interface{} {
	for _, k := range path {
		m, ok := v.(map[string]interface{})
		if !ok {
			return nil
		}
		v = m[k]
	}
	return v
}

func js(v interface{}, path ...string) string { return fmt.Sprint(jf(v, path...)) }

func jl(v interface{}, path ...string) []interface{} {
	l, _ := jf(v, path...).([]interface{})
	return l
}

func pceqRedEntryStr(creation int64, completion int64, initial, shares string) string {
	return fmt.Sprintf("%d/%d/%s/%s", creation, completion, initial, shares)
}

// read-only call of a precompile method on a branch of ctx
func (st *pceqState) view(ctx sdk.Context, to common.Address, a abi.ABI, method string, args ...interface{}) ([]interface{}, string) {
	data, err := a.Pack(method, args...)
	if err != nil {
		return nil, "pack:" + err.Error()
	}
	cctx, _ := ctx.CacheContext()
	cctx = cctx.WithGasMeter(sdk.NewInfiniteGasMeter())
	res, err := st.evmCall(cctx, to, data)
	if err != nil {
		return nil, "err:" + err.Error()
	}
	if res.Failed() {
		return nil, "vm:" + res.VmError
	}
	vals, err := pceqUnpack(a, method, res.Ret)
	if err != nil {
		return nil, "unpack:" + err.Error()
	}
	return vals, ""
}

func pceqPcPage(items []string, pageResp interface{}) pceqPage {
	if items == nil {
		items = []string{}
	}
	pg := pceqPage{Items: items, Total: js(pageResp, "total")}
	if k, _ := jf(pageResp, "nextKey").(string); k != "" {
		bz, err := base64.StdEncoding.DecodeString(k)
		if err != nil {
			panic(err)
		}
		pg.next = bz
		pg.Next = hex.EncodeToString(bz)
	}
	return pg
}

// walk runs one walk natively and through the precompile on ctx.
func (st *pceqState) walk(ctx sdk.Context, w pceqWalk) (native, pre []pceqPage) {
	app := st.r.n.App
	gctx := sdk.WrapSDKContext(ctx)
	who := ethAddr(st.S)
	req := func(pr query.PageRequest) pceqPageReq {
		k := pr.Key
		if k == nil {
			k = []byte{}
		}
		return pceqPageReq{Key: k, Offset: pr.Offset, Limit: pr.Limit, CountTotal: pr.CountTotal, Reverse: pr.Reverse}
	}
	switch w.Q {
	case "validators":
		status := w.Sel
		if status == "all" {
			status = ""
		}
		q := stakingkeeper.Querier{Keeper: app.StakingKeeper.Keeper}
		native = pceqDoWalk(w, func(pr query.PageRequest) pceqPage {
			r, err := q.Validators(gctx, &stakingtypes.QueryValidatorsRequest{Status: status, Pagination: &pr})
			if err != nil {
				return pceqErrPage(err.Error())
			}
			var items []string
			for _, x := range r.Validators {
				items = append(items, fmt.Sprintf("%s/%v/%d/%s/%s/%s/%d/%d/%s", x.OperatorAddress, x.Jailed, stakingtypes.BondStatus_value[x.Status.String()], x.Tokens,
					x.DelegatorShares.BigInt(), x.Commission.CommissionRates.Rate.BigInt(), x.UnbondingHeight, x.UnbondingTime.UTC().Unix(), x.MinSelfDelegation))
			}
			return pceqPageOf(items, r.Pagination)
		})
		pre = pceqDoWalk(w, func(pr query.PageRequest) pceqPage {
			vals, e := st.view(ctx, stakingPC, stakingABI, "validators", status, req(pr))
			if e != "" {
				return pceqErrPage(e)
			}
			var items []string
			for _, x := range vals[0].([]interface{}) {
				items = append(items, fmt.Sprintf("%s/%s/%s/%s/%s/%s/%s/%s/%s", js(x, "operatorAddress"), js(x, "jailed"), js(x, "status"), js(x, "tokens"),
					js(x, "delegatorShares"), js(x, "commission"), js(x, "unbondingHeight"), js(x, "unbondingTime"), js(x, "minSelfDelegation")))
			}
			return pceqPcPage(items, vals[1])
		})
	case "redelegations":
		del, delHex, src, dst := "", common.Address{}, "", ""
		parts := strings.SplitN(w.Sel, ":", 2)
		switch parts[0] {
		case "del":
			del, delHex = st.S.Addr.String(), who
		case "src":
			src = st.valAddr(parts[1])
		case "delSrc":
			del, delHex, src = st.S.Addr.String(), who, st.valAddr(parts[1])
		case "exact":
			vv := strings.SplitN(parts[1], ">", 2)
			del, delHex, src, dst = st.S.Addr.String(), who, st.valAddr(vv[0]), st.valAddr(vv[1])
		case "none":
		default:
			panic("redelegations selector " + w.Sel)
		}
		q := stakingkeeper.Querier{Keeper: app.StakingKeeper.Keeper}
		native = pceqDoWalk(w, func(pr query.PageRequest) pceqPage {
			r, err := q.Redelegations(gctx, &stakingtypes.QueryRedelegationsRequest{DelegatorAddr: del, SrcValidatorAddr: src, DstValidatorAddr: dst, Pagination: &pr})
			if err != nil {
				return pceqErrPage(err.Error())
			}
			var items []string
			for _, x := range r.RedelegationResponses {
				var es, rs []string
				for _, e := range x.Redelegation.Entries {
					es = append(es, pceqRedEntryStr(e.CreationHeight, e.CompletionTime.Unix(), e.InitialBalance.String(), e.SharesDst.BigInt().String()))
				}
				for _, e := range x.Entries {
					rs = append(rs, pceqRedEntryStr(e.RedelegationEntry.CreationHeight, e.RedelegationEntry.CompletionTime.Unix(), e.RedelegationEntry.InitialBalance.String(),
						e.RedelegationEntry.SharesDst.BigInt().String())+"="+e.Balance.String())
				}
				items = append(items, fmt.Sprintf("%s>%s>%s[%s][%s]", x.Redelegation.DelegatorAddress, x.Redelegation.ValidatorSrcAddress, x.Redelegation.ValidatorDstAddress,
					strings.Join(es, ";"), strings.Join(rs, ";")))
			}
			return pceqPageOf(items, r.Pagination)
		})
		entry := func(e interface{}) string {
			return fmt.Sprintf("%s/%s/%s/%s", js(e, "creationHeight"), js(e, "completionTime"), js(e, "initialBalance"), js(e, "sharesDst"))
		}
		pre = pceqDoWalk(w, func(pr query.PageRequest) pceqPage {
			vals, e := st.view(ctx, stakingPC, stakingABI, "redelegations", delHex, src, dst, req(pr))
			if e != "" {
				return pceqErrPage(e)
			}
			var items []string
			for _, x := range vals[0].([]interface{}) {
				var es, rs []string
				for _, e := range jl(x, "redelegation", "entries") {
					es = append(es, entry(e))
				}
				for _, e := range jl(x, "entries") {
					rs = append(rs, entry(jf(e, "redelegationEntry"))+"="+js(e, "balance"))
				}
				items = append(items, fmt.Sprintf("%s>%s>%s[%s][%s]", js(x, "redelegation", "delegatorAddress"), js(x, "redelegation", "validatorSrcAddress"),
					js(x, "redelegation", "validatorDstAddress"), strings.Join(es, ";"), strings.Join(rs, ";")))
			}
			return pceqPcPage(items, vals[1])
		})
	case "validatorSlashes":
		va := st.valAddr(w.Sel)
		q := distrkeeper.Querier{Keeper: app.DistrKeeper}
		native = pceqDoWalk(w, func(pr query.PageRequest) pceqPage {
			r, err := q.ValidatorSlashes(gctx, &distrtypes.QueryValidatorSlashesRequest{ValidatorAddress: va, StartingHeight: 0, EndingHeight: 1_000_000, Pagination: &pr})
			if err != nil {
				return pceqErrPage(err.Error())
			}
			var items []string
			for _, x := range r.Slashes {
				items = append(items, fmt.Sprintf("%d/%s", x.ValidatorPeriod, x.Fraction.BigInt()))
			}
			return pceqPageOf(items, r.Pagination)
		})
		pre = pceqDoWalk(w, func(pr query.PageRequest) pceqPage {
			vals, e := st.view(ctx, distrPC, distrABI, "validatorSlashes", va, uint64(0), uint64(1_000_000), req(pr))
			if e != "" {
				return pceqErrPage(e)
			}
			var items []string
			for _, x := range vals[0].([]interface{}) {
				items = append(items, fmt.Sprintf("%s/%s", js(x, "validatorPeriod"), js(x, "fraction", "value")))
			}
			return pceqPcPage(items, vals[1])
		})
	default:
		panic("walk of " + w.Q)
	}
	return native, pre
}

func pceqMain(args []string) error {
	fs := flag.NewFlagSet("pceq", flag.ExitOnError)
	cases := fs.String("cases", "", "JSON file: array of cases")
	walksF := fs.String("walks", "", "JSON file: array of walks of paginated queries (each names its state)")
	seed := fs.Int64("seed", 1, "seed")
	out := fs.String("out", "trace.ndjson", "trace output")
	fs.Parse(args)
	var all []pceqCase
	if *cases != "" {
		if err := readJSONFile(*cases, &all); err != nil {
			return err
		}
	}
	var walks []pceqWalk
	if *walksF != "" {
		if err := readJSONFile(*walksF, &walks); err != nil {
			return err
		}
	}
	tw, err := NewTraceWriter(*out)
	if err != nil {
		return err
	}
	defer tw.Close()
	states := map[string]*pceqState{}
	scn := 0
	get := func(name string) *pceqState {
		st, ok := states[name]
		if !ok {
			st = pceqBuild(*seed, name)
			states[name] = st
			// queries are compared once per state, and once more after a state-changing case
			tw.Emit(M{"ev": "queries", "scn": scn, "state": name, "q": st.queries(st.ctx)})
		}
		return st
	}
	for i, c := range all {
		scn = i + 1
		c = c.norm()
		st := get(c.State)
		amt := st.amount(st.ctx, c)
		// every fork gets a fresh gas meter (the precompiles account against ctx.GasMeter())
		c1, _ := st.ctx.CacheContext()
		c1 = c1.WithGasMeter(sdk.NewInfiniteGasMeter())
		okN, errN := st.native(c1, c, amt)
		c2, _ := st.ctx.CacheContext()
		c2 = c2.WithGasMeter(sdk.NewInfiniteGasMeter())
		okP, errP := st.precompile(c2, c, amt)
		cut := func(s string) string {
			if len(s) > 140 {
				return s[:140]
			}
			return s
		}
		// a failed execution has no effect by construction (its fork is dropped): only successful ones are projected
		nat, pre := M{"ok": okN, "err": cut(errN)}, M{"ok": okP, "err": cut(errP)}
		if okN {
			nat["post"] = st.project(c1)
		}
		if okP {
			pre["post"] = st.project(c2)
		}
		line := M{"ev": "case", "scn": scn, "case": c, "amount": amt.String(), "native": nat, "precompile": pre}
		if okN != okP || (okN && i%50 == 0) {
			line["pre"] = st.project(st.ctx) // diagnostic only
		}
		tw.Emit(line)
		if okP && i%7 == 0 {
			tw.Emit(M{"ev": "queries", "scn": scn, "state": c.State + "+" + c.M, "q": st.queries(c2)})
		}
	}
	for _, w := range walks {
		scn++
		st := get(w.State)
		nat, pre := st.walk(st.ctx, w)
		// (the texts of the failures are diagnostic: the two sides word them differently)
		errs := func(ps []pceqPage) string {
			for _, p := range ps {
				if p.errText != "" {
					if len(p.errText) > 160 {
						return p.errText[:160]
					}
					return p.errText
				}
			}
			return ""
		}
		tw.Emit(M{"ev": "walk", "scn": scn, "state": w.State, "walk": w, "native": nat, "precompile": pre, "errs": M{"native": errs(nat), "precompile": errs(pre)}})
	}
	fmt.Printf("pceq: cases=%d walks=%d lines=%d\n", len(all), len(walks), tw.N)
	return nil
}
