package main

// Driver for specs/PrecompileEq.tla (C16): the same operation executed twice on forks
// (CacheContext) of the same real state - once as the native Cosmos message through the
// message service router, once as a call of the precompile by the account owner through the
// EVM (x/evm ApplyMessage with commit, zero gas price) - with the projected Cosmos state of
// both forks logged in one line.  Read-only precompile methods are compared with the native
// gRPC queriers.

import (
	"encoding/base64"
	"flag"
	"time"
	"fmt"
	"math/big"
	"sort"
	"strings"

	sdkmath "cosmossdk.io/math"
	dbm "github.com/cometbft/cometbft-db"
	"github.com/cosmos/cosmos-sdk/crypto/keys/ed25519"
	sdk "github.com/cosmos/cosmos-sdk/types"
	sdkvesting "github.com/cosmos/cosmos-sdk/x/auth/vesting/types"
	banktypes "github.com/cosmos/cosmos-sdk/x/bank/types"
	distrtypes "github.com/cosmos/cosmos-sdk/x/distribution/types"
	stakingkeeper "github.com/cosmos/cosmos-sdk/x/staking/keeper"
	transfertypes "github.com/cosmos/ibc-go/v7/modules/apps/transfer/types"
	clienttypes "github.com/cosmos/ibc-go/v7/modules/core/02-client/types"
	stakingtypes "github.com/cosmos/cosmos-sdk/x/staking/types"
	"github.com/ethereum/go-ethereum/accounts/abi"
	"github.com/ethereum/go-ethereum/common"
	ethtypes "github.com/ethereum/go-ethereum/core/types"

	stakingprecompile "github.com/haqq-network/haqq/precompiles/staking"
	"github.com/haqq-network/haqq/utils"
	liquidvestingtypes "github.com/haqq-network/haqq/x/liquidvesting/types"
	vestingtypes "github.com/haqq-network/haqq/x/vesting/types"
	evmtypes "github.com/haqq-network/haqq/x/evm/types"
)

func init() { register("pceq", pceqMain) }

type pceqCase struct {
	State  string `json:"state"`  // base | wdOther | noDeleg | operator
	M      string `json:"m"`      // method
	Val    string `json:"val"`    // V1 | V2 | unknown | badbech32
	Amt    string `json:"amt"`    // amount class
	Height string `json:"height"` // ok | wrong (cancelUnbonding)
	To     string `json:"to"`     // T | self (setWithdrawAddress)
}

type pceqState struct {
	r   *evmcRun
	ew  *EvmWorld
	ctx sdk.Context // deliver ctx of the block in progress
	S   Key
}

var bankABI abi.ABI
var bankPC = common.HexToAddress("0x0000000000000000000000000000000000000804")

func pceqBuild(seed int64, kind string) *pceqState {
	cfg := DefaultGenesisCfg(seed)
	w := NewWorld(cfg)
	n := NewNode(w, dbm.NewMemDB())
	ew := &EvmWorld{N: n, Roles: map[string]Key{}}
	signer := "a1"
	if kind == "operator" || kind == "operatorWd" {
		signer = "v1"
	}
	ew.Roles["S"] = w.Acct(signer)
	ew.Roles["T"] = w.Acct("a2")
	ew.Roles["W"] = w.Acct("a3")
	r := &evmcRun{n: n, w: ew, addrs: map[string]sdk.AccAddress{}, frames: map[int]string{}}
	r.names = []string{"S", "T", "W"}
	for _, nm := range r.names {
		r.addrs[nm] = ew.Roles[nm].Addr
	}
	S, T := ew.Roles["S"], ew.Roles["T"]
	gp := big.NewInt(2_000_000_000)
	n.BeginBlock(BlockIn{DtMs: 5000, Proposer: 0})
	add := func(k Key, msgs ...sdk.Msg) {
		bz, err := n.CosmosTxFor(k, 900000, gp, msgs...)
		if err != nil {
			panic(err)
		}
		if res := n.Deliver(bz); res.Code != 0 {
			panic("set-up tx failed: " + res.Log)
		}
	}
	if kind != "noDeleg" && kind != "operator" && kind != "operatorWd" {
		// (also for "slashed", "vesting")
		add(S, stakingtypes.NewMsgDelegate(S.Addr, w.Vals[0].ValAddr(), coin("1000000000000000000000")))
		add(S, stakingtypes.NewMsgDelegate(S.Addr, w.Vals[1].ValAddr(), coin("300000000000000000000")))
		add(S, stakingtypes.NewMsgUndelegate(S.Addr, w.Vals[0].ValAddr(), coin("5000000")))
	}
	add(T, stakingtypes.NewMsgDelegate(T.Addr, w.Vals[0].ValAddr(), coin("1000000000000000000000")))
	if kind == "wdOther" || kind == "operatorWd" {
		add(S, distrtypes.NewMsgSetWithdrawAddress(S.Addr, ew.Roles["W"].Addr))
	}
	if kind == "vesting" {
		// T turns S into a clawback vesting account: 5000 ISLM on top of S's own (free) balance, nothing vested yet
		a := sdk.NewCoins(coin("5000000000000000000000"))
		add(T, vestingtypes.NewMsgConvertIntoVestingAccount(T.Addr, S.Addr, n.Time.Add(-20*time.Second),
			sdkvesting.Periods{{Length: 30, Amount: a}}, sdkvesting.Periods{{Length: 100000, Amount: a}}, false, false, nil))
	}
	OpenLoopbackChannel(n)
	if kind == "slashed" {
		// a vesting account past its vesting but inside its lockup, funded for fees
		vx := w.Acct("vx1")
		a := sdk.NewCoins(coin("3000000000000000000000"))
		add(S, vestingtypes.NewMsgCreateClawbackVestingAccount(S.Addr, vx.Addr, n.Time.Add(-20*time.Second),
			sdkvesting.Periods{{Length: 3000, Amount: a}}, sdkvesting.Periods{{Length: 1, Amount: a}}, false))
		add(S, banktypes.NewMsgSend(S.Addr, vx.Addr, sdk.NewCoins(coin("1000000000000000000"))))
		// an unregistered denomination that sorts before the registered ones
		odd := sdk.NewCoins(sdk.NewCoin("aAAA", sdkmath.NewInt(4242)))
		if err := n.App.BankKeeper.MintCoins(n.Ctx(), "coinomics", odd); err != nil {
			panic(err)
		}
		if err := n.App.BankKeeper.SendCoinsFromModuleToAccount(n.Ctx(), "coinomics", S.Addr, odd); err != nil {
			panic(err)
		}
		// ... and a registered coin (token pair) that sorts after it, also held by S
		reg := sdk.NewCoins(sdk.NewCoin("azzz", sdkmath.NewInt(777000)))
		if err := n.App.BankKeeper.MintCoins(n.Ctx(), "coinomics", reg); err != nil {
			panic(err)
		}
		if err := n.App.BankKeeper.SendCoinsFromModuleToAccount(n.Ctx(), "coinomics", S.Addr, reg); err != nil {
			panic(err)
		}
		md := banktypes.Metadata{Description: "registered test coin", Base: "azzz", Display: "zzz", Name: "azzz", Symbol: "ZZZ",
			DenomUnits: []*banktypes.DenomUnit{{Denom: "azzz", Exponent: 0}, {Denom: "zzz", Exponent: 18}}}
		if _, err := n.App.Erc20Keeper.RegisterCoin(n.Ctx(), md); err != nil {
			panic(err)
		}
	}
	n.EndBlock()
	n.Commit()
	if kind == "slashed" {
		// liquid tokens (a registered coin/token pair) end up with S; then the validator S delegated to and
		// is unbonding from double-signs: the unbonding entry's balance drops below its initial balance
		vx := w.Acct("vx1")
		n.BeginBlock(BlockIn{DtMs: 5000, Proposer: 0})
		bz, err := n.CosmosTxFor(vx, 12000000, gp, liquidvestingtypes.NewMsgLiquidate(vx.Addr, S.Addr, coin("1000000000000000000000")))
		if err != nil {
			panic(err)
		}
		if res := n.Deliver(bz); res.Code != 0 {
			panic("liquidate failed: " + res.Log)
		}
		n.EndBlock()
		n.Commit()
		n.BeginBlock(BlockIn{DtMs: 5000, Proposer: 1, Evidence: []int{0}})
		n.EndBlock()
		n.Commit()
	}
	for i := 0; i < 3; i++ {
		r.block()
	}
	n.BeginBlock(BlockIn{DtMs: 5000, Proposer: 0})
	return &pceqState{r: r, ew: ew, ctx: n.Ctx(), S: S}
}

func (st *pceqState) wdTarget(c pceqCase) sdk.AccAddress {
	if c.To == "self" {
		return st.S.Addr
	}
	return st.ew.Roles["T"].Addr
}

func (st *pceqState) valAddr(v string) string {
	w := st.r.n.W
	switch v {
	case "V1":
		return w.Vals[0].ValAddr().String()
	case "V2":
		return w.Vals[1].ValAddr().String()
	case "V3":
		return w.Vals[2].ValAddr().String()
	case "unknown":
		return sdk.ValAddress(DetKey(w.Cfg.Seed, "nobody").Addr).String()
	}
	return "haqqvaloper1notbech32"
}

func (st *pceqState) amount(ctx sdk.Context, class string, v string) *big.Int {
	app := st.r.n.App
	bal := app.BankKeeper.GetBalance(ctx, st.S.Addr, utils.BaseDenom).Amount
	del := sdkmath.ZeroInt()
	if va, err := sdk.ValAddressFromBech32(st.valAddr(v)); err == nil {
		if d, ok := app.StakingKeeper.GetDelegation(ctx, st.S.Addr, va); ok {
			if val, ok := app.StakingKeeper.GetValidator(ctx, va); ok {
				del = val.TokensFromShares(d.Shares).TruncateInt()
			}
		}
	}
	switch class {
	case "0":
		return big.NewInt(0)
	case "1":
		return big.NewInt(1)
	case "small":
		return big.NewInt(1234567)
	case "ubd":
		return big.NewInt(5000000)
	case "eqDeleg":
		return del.BigInt()
	case "gtDeleg":
		return del.AddRaw(1).BigInt()
	case "eqFree", "gtFree":
		// what a vesting account may bond: its balance minus the unvested coins
		free := bal
		if va, ok := app.AccountKeeper.GetAccount(ctx, st.S.Addr).(*vestingtypes.ClawbackVestingAccount); ok {
			free = bal.Sub(va.GetVestingCoins(ctx.BlockTime()).AmountOf(utils.BaseDenom))
		}
		if class == "gtFree" {
			free = free.AddRaw(1)
		}
		return free.BigInt()
	case "eqBal":
		return bal.BigInt()
	case "gtBal":
		return bal.AddRaw(1).BigInt()
	case "2^255":
		return new(big.Int).Lsh(big.NewInt(1), 255)
	case "max":
		return new(big.Int).Sub(new(big.Int).Lsh(big.NewInt(1), 256), big.NewInt(1))
	}
	panic("amount class " + class)
}

// native executes the native counterpart on ctx.
func (st *pceqState) native(ctx sdk.Context, c pceqCase, amt *big.Int) (ok bool, errs string) {
	defer func() {
		if r := recover(); r != nil {
			ok, errs = false, fmt.Sprint("panic: ", r)
		}
	}()
	S := st.S
	val := st.valAddr(c.Val)
	cn := sdk.Coin{Denom: utils.BaseDenom, Amount: sdkmath.NewIntFromBigInt(amt)}
	var msgs []sdk.Msg
	switch c.M {
	case "delegate":
		msgs = []sdk.Msg{&stakingtypes.MsgDelegate{DelegatorAddress: S.Addr.String(), ValidatorAddress: val, Amount: cn}}
	case "undelegate":
		msgs = []sdk.Msg{&stakingtypes.MsgUndelegate{DelegatorAddress: S.Addr.String(), ValidatorAddress: val, Amount: cn}}
	case "redelegate":
		msgs = []sdk.Msg{&stakingtypes.MsgBeginRedelegate{DelegatorAddress: S.Addr.String(), ValidatorSrcAddress: val, ValidatorDstAddress: st.valAddr("V3"), Amount: cn}}
	case "cancelUnbonding":
		h := int64(1)
		if c.Height == "wrong" {
			h = 2
		}
		msgs = []sdk.Msg{&stakingtypes.MsgCancelUnbondingDelegation{DelegatorAddress: S.Addr.String(), ValidatorAddress: val, Amount: cn, CreationHeight: h}}
	case "withdrawRewards":
		msgs = []sdk.Msg{&distrtypes.MsgWithdrawDelegatorReward{DelegatorAddress: S.Addr.String(), ValidatorAddress: val}}
	case "claimRewards":
		for _, v := range st.r.n.App.StakingKeeper.GetDelegatorValidators(ctx, S.Addr, 10) {
			msgs = append(msgs, &distrtypes.MsgWithdrawDelegatorReward{DelegatorAddress: S.Addr.String(), ValidatorAddress: v.OperatorAddress})
		}
	case "setWithdrawAddress":
		msgs = []sdk.Msg{&distrtypes.MsgSetWithdrawAddress{DelegatorAddress: S.Addr.String(), WithdrawAddress: st.wdTarget(c).String()}}
	case "withdrawCommission":
		msgs = []sdk.Msg{&distrtypes.MsgWithdrawValidatorCommission{ValidatorAddress: sdk.ValAddress(S.Addr).String()}}
	case "createValidator":
		pk := ed25519.GenPrivKeyFromSecret([]byte("hv-pceq-cons-key")).PubKey()
		m, err := stakingtypes.NewMsgCreateValidator(sdk.ValAddress(S.Addr), pk, cn, stakingtypes.Description{Moniker: "s"},
			stakingtypes.NewCommissionRates(sdkmath.LegacyNewDecWithPrec(5, 2), sdkmath.LegacyNewDecWithPrec(20, 2), sdkmath.LegacyNewDecWithPrec(1, 2)),
			sdkmath.OneInt())
		if err != nil {
			return false, err.Error()
		}
		msgs = []sdk.Msg{m}
	case "ibcTransfer":
		msgs = []sdk.Msg{transfertypes.NewMsgTransfer("transfer", "channel-0", cn, S.Addr.String(), "haqq1receiveronotherside",
			clienttypes.NewHeight(1, 1_000_000), 0, "")}
	default:
		panic("native: " + c.M)
	}
	for _, m := range msgs {
		if err := m.ValidateBasic(); err != nil {
			return false, err.Error()
		}
		h := st.r.n.App.MsgServiceRouter().Handler(m)
		if _, err := h(ctx, m); err != nil {
			return false, err.Error()
		}
	}
	return true, ""
}

func (st *pceqState) evmCall(ctx sdk.Context, to common.Address, data []byte) (*evmtypes.MsgEthereumTxResponse, error) {
	from := ethAddr(st.S)
	nonce := st.r.n.App.EvmKeeper.GetNonce(ctx, from)
	msg := ethtypes.NewMessage(from, &to, nonce, big.NewInt(0), 20_000_000, big.NewInt(0), big.NewInt(0), big.NewInt(0), data, ethtypes.AccessList{}, false)
	return st.r.n.App.EvmKeeper.ApplyMessage(ctx, msg, evmtypes.NewNoOpTracer(), true)
}

// precompile executes the precompile call by the owner on ctx.
func (st *pceqState) precompile(ctx sdk.Context, c pceqCase, amt *big.Int) (ok bool, errs string) {
	defer func() {
		if r := recover(); r != nil {
			ok, errs = false, fmt.Sprint("panic: ", r)
		}
	}()
	who := ethAddr(st.S)
	val := st.valAddr(c.Val)
	var to common.Address
	var data []byte
	var err error
	switch c.M {
	case "delegate", "undelegate":
		to = stakingPC
		data, err = stakingABI.Pack(c.M, who, val, amt)
	case "redelegate":
		to = stakingPC
		data, err = stakingABI.Pack("redelegate", who, val, st.valAddr("V3"), amt)
	case "cancelUnbonding":
		h := int64(1)
		if c.Height == "wrong" {
			h = 2
		}
		to = stakingPC
		data, err = stakingABI.Pack("cancelUnbondingDelegation", who, val, amt, big.NewInt(h))
	case "withdrawRewards":
		to = distrPC
		data, err = distrABI.Pack("withdrawDelegatorRewards", who, val)
	case "claimRewards":
		to = distrPC
		data, err = distrABI.Pack("claimRewards", who, uint32(10))
	case "setWithdrawAddress":
		to = distrPC
		data, err = distrABI.Pack("setWithdrawAddress", who, st.wdTarget(c).String())
	case "withdrawCommission":
		to = distrPC
		data, err = distrABI.Pack("withdrawValidatorCommission", sdk.ValAddress(st.S.Addr).String())
	case "createValidator":
		pk := ed25519.GenPrivKeyFromSecret([]byte("hv-pceq-cons-key")).PubKey()
		d16 := func(n int64) *big.Int { return new(big.Int).Mul(big.NewInt(n), new(big.Int).Exp(big.NewInt(10), big.NewInt(16), nil)) }
		to = stakingPC
		data, err = stakingABI.Pack("createValidator", stakingprecompile.Description{Moniker: "s"},
			stakingprecompile.Commission{Rate: d16(5), MaxRate: d16(20), MaxChangeRate: d16(1)},
			big.NewInt(1), who, sdk.ValAddress(st.S.Addr).String(), base64.StdEncoding.EncodeToString(pk.Bytes()), amt)
	case "ibcTransfer":
		to = ics20PC
		data, err = ics20ABI.Pack("transfer", "transfer", "channel-0", "aISLM", amt, who, "haqq1receiveronotherside",
			icsHeight{RevisionNumber: 1, RevisionHeight: 1_000_000}, uint64(0), "")
	default:
		panic("precompile: " + c.M)
	}
	if err != nil {
		return false, "pack: " + err.Error()
	}
	res, err := st.evmCall(ctx, to, data)
	if err != nil {
		return false, err.Error()
	}
	if res.Failed() {
		return false, res.VmError
	}
	return true, ""
}

// queries compares read-only precompile methods with the native queriers on ctx; returns
// per-query {native, precompile} strings.
func (st *pceqState) queries(ctx sdk.Context) M {
	app := st.r.n.App
	out := M{}
	q := stakingkeeper.Querier{Keeper: app.StakingKeeper.Keeper}
	gctx := sdk.WrapSDKContext(ctx)
	who := ethAddr(st.S)
	call := func(to common.Address, a abi.ABI, method string, args ...interface{}) ([]interface{}, string) {
		data, err := a.Pack(method, args...)
		if err != nil {
			return nil, "pack:" + err.Error()
		}
		cctx, _ := ctx.CacheContext()
		cctx = cctx.WithGasMeter(sdk.NewInfiniteGasMeter())
		res, err := st.evmCall(cctx, to, data)
		if err != nil {
			return nil, "err:" + err.Error()
		}
		if res.Failed() {
			return nil, "vm:" + res.VmError
		}
		vals, err := a.Unpack(method, res.Ret)
		if err != nil {
			return nil, "unpack:" + err.Error()
		}
		return vals, ""
	}
	for _, v := range []string{"V1", "V2", "V3", "unknown"} {
		va := st.valAddr(v)
		// delegation
		nat := "none"
		if r, err := q.Delegation(gctx, &stakingtypes.QueryDelegationRequest{DelegatorAddr: st.S.Addr.String(), ValidatorAddr: va}); err == nil {
			nat = fmt.Sprintf("shares=%s,bal=%s%s", r.DelegationResponse.Delegation.Shares.BigInt(), r.DelegationResponse.Balance.Amount, r.DelegationResponse.Balance.Denom)
		} else {
			nat = fmt.Sprintf("shares=0,bal=0%s", utils.BaseDenom)
		}
		pre := ""
		if vals, e := call(stakingPC, stakingABI, "delegation", who, va); e == "" {
			pre = fmt.Sprintf("shares=%v,bal=%s", vals[0], coinStr(vals[1]))
		} else {
			pre = e
		}
		out["delegation:"+v] = M{"native": nat, "precompile": pre}
		// unbonding delegation
		nat = "entries="
		if r, err := q.UnbondingDelegation(gctx, &stakingtypes.QueryUnbondingDelegationRequest{DelegatorAddr: st.S.Addr.String(), ValidatorAddr: va}); err == nil {
			var es []string
			for _, e := range r.Unbond.Entries {
				es = append(es, fmt.Sprintf("%d/%d/%s/%s", e.CreationHeight, e.CompletionTime.UTC().Unix(), e.InitialBalance, e.Balance))
			}
			nat = "entries=" + strings.Join(es, ";")
		}
		if vals, e := call(stakingPC, stakingABI, "unbondingDelegation", who, va); e == "" {
			pre = "entries=" + ubdEntries(vals[0])
		} else {
			pre = e
		}
		out["unbonding:"+v] = M{"native": nat, "precompile": pre}
		// validator
		nat = "notfound"
		if r, err := q.Validator(gctx, &stakingtypes.QueryValidatorRequest{ValidatorAddr: va}); err == nil {
			x := r.Validator
			nat = fmt.Sprintf("%s/%v/%d/%s/%s/%s", x.OperatorAddress, x.Jailed, stakingtypes.BondStatus_value[x.Status.String()], x.Tokens, x.DelegatorShares.BigInt(), x.Commission.CommissionRates.Rate.BigInt())
		}
		if vals, e := call(stakingPC, stakingABI, "validator", va); e == "" {
			pre = validatorStr(vals[0])
		} else {
			pre = e
		}
		out["validator:"+v] = M{"native": nat, "precompile": pre}
	}
	// bank precompile: every denomination that has an ERC20 address
	if bankABI.Methods == nil {
		bankABI = loadRepoABI("precompiles/bank/abi.json")
	}
	var nb, ns []string
	for _, c := range app.BankKeeper.GetAllBalances(ctx, st.S.Addr) {
		if a, err := app.Erc20Keeper.GetCoinAddress(ctx, c.Denom); err == nil {
			nb = append(nb, fmt.Sprintf("%s=%s", strings.ToLower(a.Hex()), c.Amount))
		}
	}
	app.BankKeeper.IterateTotalSupply(ctx, func(c sdk.Coin) bool {
		if a, err := app.Erc20Keeper.GetCoinAddress(ctx, c.Denom); err == nil {
			ns = append(ns, fmt.Sprintf("%s=%s", strings.ToLower(a.Hex()), c.Amount))
		}
		return false
	})
	sort.Strings(nb)
	sort.Strings(ns)
	pre := ""
	if vals, e := call(bankPC, bankABI, "balances", who); e == "" {
		pre = balancesStr(vals[0])
	} else {
		pre = e
	}
	out["bank.balances"] = M{"native": strings.Join(nb, ","), "precompile": pre}
	if vals, e := call(bankPC, bankABI, "totalSupply"); e == "" {
		pre = balancesStr(vals[0])
	} else {
		pre = e
	}
	out["bank.totalSupply"] = M{"native": strings.Join(ns, ","), "precompile": pre}
	_ = banktypes.ModuleName
	return out
}

func coinStr(v interface{}) string {
	s := fmt.Sprintf("%+v", v)
	// {Denom:aISLM Amount:+123}
	s = strings.TrimSuffix(strings.TrimPrefix(s, "{"), "}")
	var denom, amt string
	for _, f := range strings.Fields(s) {
		if strings.HasPrefix(f, "Denom:") {
			denom = strings.TrimPrefix(f, "Denom:")
		}
		if strings.HasPrefix(f, "Amount:") {
			amt = strings.TrimPrefix(strings.TrimPrefix(f, "Amount:"), "+")
		}
	}
	return amt + denom
}

func fieldsOf(v interface{}) map[string]string {
	out := map[string]string{}
	s := fmt.Sprintf("%+v", v)
	s = strings.TrimSuffix(strings.TrimPrefix(s, "{"), "}")
	for _, f := range strings.Fields(s) {
		if i := strings.Index(f, ":"); i > 0 {
			out[f[:i]] = strings.TrimPrefix(f[i+1:], "+")
		}
	}
	return out
}

func validatorStr(v interface{}) string {
	f := fieldsOf(v)
	if f["OperatorAddress"] == "" {
		return "notfound"
	}
	return fmt.Sprintf("%s/%s/%s/%s/%s/%s", f["OperatorAddress"], f["Jailed"], f["Status"], f["Tokens"], f["DelegatorShares"], f["Commission"])
}

func ubdEntries(v interface{}) string {
	s := fmt.Sprintf("%+v", v)
	i := strings.Index(s, "Entries:[")
	if i < 0 {
		return ""
	}
	s = s[i+len("Entries:["):]
	if j := strings.Index(s, "]"); j >= 0 {
		s = s[:j]
	}
	var es []string
	for _, e := range strings.Split(s, "} {") {
		f := fieldsOf("{" + strings.Trim(e, "{}") + "}")
		if f["CreationHeight"] == "" {
			continue
		}
		es = append(es, fmt.Sprintf("%s/%s/%s/%s", f["CreationHeight"], f["CompletionTime"], f["InitialBalance"], f["Balance"]))
	}
	return strings.Join(es, ";")
}

func balancesStr(v interface{}) string {
	s := fmt.Sprintf("%+v", v)
	s = strings.Trim(s, "[]")
	var out []string
	for _, e := range strings.Split(s, "} {") {
		f := fieldsOf("{" + strings.Trim(e, "{}") + "}")
		if f["ContractAddress"] == "" {
			continue
		}
		out = append(out, fmt.Sprintf("%s=%s", strings.ToLower(f["ContractAddress"]), f["Amount"]))
	}
	sort.Strings(out)
	return strings.Join(out, ",")
}

func pceqMain(args []string) error {
	fs := flag.NewFlagSet("pceq", flag.ExitOnError)
	cases := fs.String("cases", "", "JSON file: array of cases")
	seed := fs.Int64("seed", 1, "seed")
	out := fs.String("out", "trace.ndjson", "trace output")
	fs.Parse(args)
	var all []pceqCase
	if err := readJSONFile(*cases, &all); err != nil {
		return err
	}
	tw, err := NewTraceWriter(*out)
	if err != nil {
		return err
	}
	defer tw.Close()
	states := map[string]*pceqState{}
	for i, c := range all {
		st, ok := states[c.State]
		if !ok {
			st = pceqBuild(*seed, c.State)
			states[c.State] = st
			// queries are compared once per state, and once more after a state-changing case
			tw.Emit(M{"ev": "queries", "scn": i + 1, "state": c.State, "q": st.queries(st.ctx)})
		}
		amt := st.amount(st.ctx, c.Amt, c.Val)
		pre := st.r.project(st.ctx)
		// every fork gets a fresh gas meter (the precompiles account against ctx.GasMeter())
		c1, _ := st.ctx.CacheContext()
		c1 = c1.WithGasMeter(sdk.NewInfiniteGasMeter())
		okN, errN := st.native(c1, c, amt)
		postN := pre
		if okN {
			postN = st.r.project(c1)
		}
		c2, _ := st.ctx.CacheContext()
		c2 = c2.WithGasMeter(sdk.NewInfiniteGasMeter())
		okP, errP := st.precompile(c2, c, amt)
		postP := pre
		if okP {
			postP = st.r.project(c2)
		}
		cut := func(s string) string {
			if len(s) > 140 {
				return s[:140]
			}
			return s
		}
		tw.Emit(M{"ev": "case", "scn": i + 1, "case": c, "amount": amt.String(), "pre": pre,
			"native": M{"ok": okN, "err": cut(errN), "post": postN}, "precompile": M{"ok": okP, "err": cut(errP), "post": postP}})
		if okP && i%7 == 0 {
			tw.Emit(M{"ev": "queries", "scn": i + 1, "state": c.State + "+" + c.M, "q": st.queries(c2)})
		}
	}
	fmt.Printf("pceq: cases=%d lines=%d\n", len(all), tw.N)
	return nil
}
