#!/usr/bin/env python3
"""Generates MANIFEST.json from the table below (single source of truth for the interface)."""
import json, os
V = os.path.dirname(os.path.dirname(os.path.abspath(__file__)))
BASE = json.load(open("/root/.vp/BASELINE.json")) if os.path.exists("/root/.vp/BASELINE.json") else {}

import importlib, sys
sys.path.insert(0, os.path.join(V, "lib"))

def load_checks():
    """every lib/props/cNN.py carries its own MANIFEST_ENTRY"""
    out = {}
    for f in sorted(os.listdir(os.path.join(V, "lib", "props"))):
        if f.startswith("c") and f.endswith(".py"):
            mod = importlib.import_module("props." + f[:-3])
            if hasattr(mod, "MANIFEST_ENTRY"):
                out[f[:-3].upper()] = mod.MANIFEST_ENTRY
    return out

CHECKS = load_checks()

NOT_YET = {}

def main():
    props = [json.loads(l) for l in open(os.path.join(V, "properties.jsonl"))]
    checks = []
    na = []
    for p in props:
        i = p["id"]
        if i in CHECKS:
            c = CHECKS[i]
            checks.append({
                "property_id": i,
                "quick_cmd": "bin/check %s quick" % i,
                "thorough_cmd": "bin/check %s thorough" % i,
                "evidence_file": "/verif/evidence/%s.json" % i,
                "replay_cmd_template": "bin/check %s --replay {path}" % i,
                "engine": c["engine"],
                "level_claimed": {"category": c.get("category", "model_checking"), "text": c["text"], "design_ref": c["design"]},
                "level_note": c["note"],
                "technique": c["technique"],
            })
        else:
            na.append({"property_id": i, "reason": NOT_YET.get(i, "not yet covered by a registered check in this revision: the specification and harness for it are still being built (see DESIGN.md §4 for the plan); no claim is made")})
    m = {
        "version": 1,
        "setup_cmd": "bin/setup",
        "hooks": {
            "guard": "verif",
            "enable": "go build -tags verif -overlay build/overlay.json (the harness is compiled inside the haqq module; no instrumentation hooks are needed: the system is sequential and the abstract state is read through keepers at the public call's return)",
            "baseline_off_cmd": BASE.get("cmd", "cd /repo && go test -mod=mod -vet=off -count=1 ./..."),
            "source_commits": [],
            "add_only": True,
        },
        "engines": [],
        "checks": checks,
        "not_applicable": na,
        "notes": "Exit codes of every check: 0 pass (KNOWN-FINDING lines allowed), 1 VIOLATION (reproduced on the real code, not listed in known_findings.json), 2 infrastructure problem. /repo carries 'fix:' commits for genuine defects found by these checks; they are listed in known_findings.json as fixed entries.",
    }
    eng = {}
    for i, c in CHECKS.items():
        eng.setdefault(c["engine"], []).append(i)
    for e, ps in sorted(eng.items()):
        m["engines"].append({"name": e, "path": "specs/%s.tla" % e, "serves_properties": sorted(ps),
                             "kind_free_text": "TLA+ specification (property layer + as-built machine) checked by TLC, bound to the code by harness/*.go (script replay + trace validation)"})
    with open(os.path.join(V, "MANIFEST.json"), "w") as fh:
        json.dump(m, fh, indent=1)
        fh.write("\n")

if __name__ == "__main__":
    main()
