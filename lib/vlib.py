"""Shared machinery of /verif/bin/check: harness build, TLC runs, trace validation,
known-findings filter, evidence files.  Exit codes: 0 pass, 1 VIOLATION (reproduced on the
real code and not a listed known finding), 2 infrastructure problem (never a violation)."""
import fcntl
import glob
import json
import os
import re
import shutil
import subprocess
import sys
import time

VERIF = os.path.dirname(os.path.dirname(os.path.abspath(__file__)))
REPO = os.environ.get("VERIF_REPO", "/repo")
BUILD = os.path.join(VERIF, "build")
SPECS = os.path.join(VERIF, "specs")
HARNESS = os.path.join(VERIF, "harness")
# (a run against a scratch tree builds its own binary, so that such runs can go on side by side)
HV = os.path.join(BUILD, "hv" if REPO == "/repo" else "hv-" + re.sub(r"[^A-Za-z0-9]+", "-", REPO).strip("-"))
TLA_CP = ":".join([os.path.join(BUILD, "classes"),
                   "/opt/veriftools/tla/tla2tools.jar",
                   "/opt/veriftools/tla/CommunityModules-deps.jar"])

GOENV = dict(os.environ, GOFLAGS="-mod=mod", GOPROXY="off", GOSUMDB="off", GOTOOLCHAIN="local")


class Infra(Exception):
    """infrastructure failure: exit 2"""


def log(*a):
    print(*a, flush=True)


def sh(cmd, cwd=None, env=None, timeout=None, check=True):
    p = subprocess.run(cmd, cwd=cwd, env=env, timeout=timeout, stdout=subprocess.PIPE,
                       stderr=subprocess.STDOUT, text=True)
    if check and p.returncode != 0:
        raise Infra("command failed (%d): %s\n%s" % (p.returncode, " ".join(cmd), p.stdout[-4000:]))
    return p


class Lock:
    def __init__(self, name):
        os.makedirs(BUILD, exist_ok=True)
        self.path = os.path.join(BUILD, name + ".lock")

    def __enter__(self):
        self.f = open(self.path, "w")
        fcntl.flock(self.f, fcntl.LOCK_EX)

    def __exit__(self, *a):
        fcntl.flock(self.f, fcntl.LOCK_UN)
        self.f.close()


def build_classes():
    """javac the TLC module overrides (idempotent)."""
    with Lock("classes"):
        out = os.path.join(BUILD, "classes")
        os.makedirs(out, exist_ok=True)
        srcs = sorted(glob.glob(os.path.join(VERIF, "java", "*.java")))
        stamp = os.path.join(out, ".stamp")
        newest = max(os.path.getmtime(s) for s in srcs)
        if os.path.exists(stamp) and os.path.getmtime(stamp) >= newest:
            return
        sh(["javac", "-cp", "/opt/veriftools/tla/tla2tools.jar", "-d", out] + srcs)
        open(stamp, "w").write("ok")


SKEW_GO = '''// Added to package time by the verification harness build (go build -overlay): the wall clock of the
// process can be shifted by HV_CLOCK_SKEW_SEC seconds, so that the replicas of one chain can run on machines
// whose clocks disagree.  The monotonic clock is untouched.
package time

import "syscall"

var verifClockSkew int64

func init() {
	s, ok := syscall.Getenv("HV_CLOCK_SKEW_SEC")
	if !ok || s == "" {
		return
	}
	var v int64
	neg := false
	for i := 0; i < len(s); i++ {
		ch := s[i]
		if i == 0 && ch == '-' {
			neg = true
			continue
		}
		if ch < '0' || ch > '9' {
			return
		}
		v = v*10 + int64(ch-'0')
	}
	if neg {
		v = -v
	}
	verifClockSkew = v
}
'''


def clock_overlay():
    """Overlay entries that give the harness binary a wall clock which HV_CLOCK_SKEW_SEC can shift: the toolchain's
    own time.go with one added line in Now(), generated from GOROOT at build time (nothing if it does not have the
    expected shape - the followers then simply share the machine's clock)."""
    try:
        goroot = sh(["go", "env", "GOROOT"], cwd=REPO, env=GOENV, check=False).stdout.strip()
        src = open(os.path.join(goroot, "src", "time", "time.go")).read()
        anchor = "\tsec, nsec, mono := now()\n\tmono -= startNano\n"
        if src.count(anchor) != 1:
            return {}
        d = os.path.join(BUILD, "stdoverlay")
        os.makedirs(d, exist_ok=True)
        with open(os.path.join(d, "time.go"), "w") as fh:
            fh.write(src.replace(anchor, "\tsec, nsec, mono := now()\n\tsec += verifClockSkew\n\tmono -= startNano\n"))
        with open(os.path.join(d, "zz_verif_skew.go"), "w") as fh:
            fh.write(SKEW_GO)
        return {os.path.join(goroot, "src", "time", "time.go"): os.path.join(d, "time.go"),
                os.path.join(goroot, "src", "time", "zz_verif_skew.go"): os.path.join(d, "zz_verif_skew.go")}
    except Exception:
        return {}


def build_harness():
    """(Re)build build/hv from /repo's current working tree + /verif/harness via -overlay."""
    t0 = time.time()
    with Lock("harness" if REPO == "/repo" else os.path.basename(HV)):
        repl = {}
        for f in sorted(glob.glob(os.path.join(HARNESS, "*.go"))):
            repl[os.path.join(REPO, "zzverif", os.path.basename(f))] = f
        for f in sorted(glob.glob(os.path.join(HARNESS, "embed", "*"))):
            repl[os.path.join(REPO, "zzverif", "embed", os.path.basename(f))] = f
        repl.update(clock_overlay())
        ov = os.path.join(BUILD, "overlay.json" if REPO == "/repo" else "overlay-" + os.path.basename(HV) + ".json")
        with open(ov, "w") as fh:
            json.dump({"Replace": repl}, fh, indent=1)
        p = sh(["go", "build", "-tags", "verif", "-overlay", ov, "-o", HV, "./zzverif/"],
               cwd=REPO, env=GOENV, timeout=3000, check=False)
        if p.returncode != 0:
            raise Infra("harness build failed:\n" + p.stdout[-6000:])
    return time.time() - t0


def scratch(name):
    d = os.path.join(BUILD, "run", name)
    shutil.rmtree(d, ignore_errors=True)
    os.makedirs(d)
    for f in glob.glob(os.path.join(SPECS, "*.tla")) + glob.glob(os.path.join(SPECS, "*.cfg")):
        shutil.copy(f, d)
    return d


STATS_RE = re.compile(r"(\d+) states generated, (\d+) distinct states found, (\d+) states left on queue")


class TlcResult:
    def __init__(self, out, rc, wall):
        self.out, self.rc, self.wall = out, rc, wall
        m = None
        for m in STATS_RE.finditer(out):
            pass
        self.generated = int(m.group(1)) if m else 0
        self.distinct = int(m.group(2)) if m else 0
        self.completed = "Model checking completed. No error has been found." in out
        self.invariant_violated = re.findall(r"Invariant (\S+) is violated", out)
        self.property_violated = "Action property" in out and "is violated" in out
        self.error = ("Error:" in out) and not self.invariant_violated and not self.property_violated

    def printed(self, tag):
        """values printed by PrintT(<<tag, "json">>)"""
        res = []
        pref = '<<"%s", "' % tag
        for line in self.out.splitlines():
            if line.startswith(pref) and line.endswith('">>'):
                body = line[len(pref):-3]
                body = body.replace('\\"', '"').replace("\\\\", "\\")
                res.append(json.loads(body))
        return res

    def coverage_zero(self):
        """action / operator lines with zero count from -coverage output"""
        return re.findall(r"^<(\w+) line .*>: 0:0$", self.out, re.M)


def tlc(workdir, module, cfg, workers=8, timeout=1800, extra=(), heap=None, name="md"):
    build_classes()
    meta = os.path.join(workdir, name + "_" + os.path.splitext(cfg)[0])
    cmd = ["java", "-XX:+UseParallelGC"]
    if heap:
        cmd.append("-Xmx" + heap)
    cmd += ["-Xss64m", "-cp", TLA_CP, "tlc2.TLC", "-workers", str(workers), "-metadir", meta,
            "-config", cfg] + list(extra) + [module]
    t0 = time.time()
    try:
        p = subprocess.run(cmd, cwd=workdir, stdout=subprocess.PIPE, stderr=subprocess.STDOUT,
                           text=True, timeout=timeout)
    except subprocess.TimeoutExpired:
        raise Infra("TLC timeout on %s/%s" % (module, cfg))
    out = "\n".join(l for l in p.stdout.splitlines() if not l.startswith("Loading "))
    with open(os.path.join(workdir, os.path.splitext(cfg)[0] + ".out"), "w") as fh:
        fh.write(out)
    shutil.rmtree(meta, ignore_errors=True)
    return TlcResult(out, p.returncode, time.time() - t0)


def tlc_exhaustive(workdir, module, cfg, must="pass", **kw):
    """Run an exhaustive config.  must='pass': no error; must='fail': an invariant must be violated
    (non-vacuity witness of a known defect).  Anything else is a spec bug / infra problem (exit 2)."""
    r = tlc(workdir, module, cfg, **kw)
    if must == "pass":
        if not r.completed:
            raise Infra("exhaustive config %s did not pass (spec problem, not a verdict):\n%s" % (cfg, r.out[-3000:]))
    else:
        if not (r.invariant_violated or r.property_violated):
            raise Infra("config %s was expected to exhibit a counterexample but did not:\n%s" % (cfg, r.out[-2000:]))
    return r


def tlc_scripts(workdir, module, cfg, num, depth, seed, timeout=900, tag="SCRIPT"):
    """-simulate run that prints behaviours as JSON scripts; returns de-duplicated scripts."""
    r = tlc(workdir, module, cfg, workers=1, timeout=timeout,
            extra=["-simulate", "num=%d" % num, "-depth", str(depth + 2), "-seed", str(seed)])
    if r.error and "SCRIPT" not in r.out:
        raise Infra("script generation failed:\n" + r.out[-3000:])
    seen, scripts = set(), []
    for s in r.printed(tag):
        k = json.dumps(s, sort_keys=True)
        if k not in seen:
            seen.add(k)
            scripts.append(s)
    return scripts, r


def hv(args, cwd, timeout=3000, env=None):
    t0 = time.time()
    p = sh([HV] + args, cwd=cwd, env=env, timeout=timeout, check=False)
    if p.returncode != 0:
        raise Infra("harness driver failed: hv %s\n%s" % (" ".join(args), p.stdout[-4000:]))
    return p.stdout, time.time() - t0


def validate_trace(workdir, module, cfg, timeout=1800):
    """Runs a deterministic trace spec; returns its RESULT record."""
    r = tlc(workdir, module, cfg, workers=1, timeout=timeout, name="mdt")
    res = r.printed("RESULT")
    if not res:
        raise Infra("trace validation produced no RESULT (%s):\n%s" % (cfg, r.out[-4000:]))
    return res[-1], r


def count_lines(path):
    n = 0
    with open(path) as fh:
        for _ in fh:
            n += 1
    return n


def load_known():
    p = os.path.join(VERIF, "known_findings.json")
    if not os.path.exists(p):
        return []
    return json.load(open(p))["findings"]


def sig_of(v):
    return "%s|%s|%s" % (v["prop"], v["kind"], v["class"])


class Check:
    """One run of one property's check."""

    def __init__(self, prop, tier, seed):
        self.prop, self.tier, self.seed = prop, tier, seed
        self.t0 = time.time()
        self.states = 0
        self.transitions = 0
        self.traces = 0
        self.samples = []
        self.extra = {}
        self.assumptions = []
        self.viol = {}      # signature -> first occurrence record
        self.replays = {}   # signature -> path
        self.level = "model_checking"

    def add_tlc(self, name, r):
        self.states += r.distinct
        self.transitions += r.generated
        self.extra.setdefault("tlc_runs", []).append(
            {"config": name, "distinct_states": r.distinct, "states_generated": r.generated,
             "wall_s": round(r.wall, 1)})

    def add_violations(self, vs, replay_for=None):
        for v in vs:
            s = sig_of(v)
            if s not in self.viol:
                self.viol[s] = v
                if replay_for:
                    self.replays[s] = replay_for(v)

    def finish(self):
        known = [k for k in load_known() if k["property"] == self.prop]
        known_sigs = {k["signature"]: k for k in known if k.get("status", "known") == "known"}
        new = []
        for s, v in sorted(self.viol.items()):
            if s in known_sigs:
                log("KNOWN-FINDING: property=%s %s: %s" % (self.prop, s, known_sigs[s]["what_fails"]))
            else:
                new.append(s)
        ev = {
            "property_id": self.prop, "tier": self.tier, "seed": self.seed, "level": self.level,
            "coverage": dict({
                "states": self.states, "transitions": self.transitions,
                "traces_validated_against_impl": self.traces,
                "samples": self.samples[:6],
                "signatures_observed": sorted(self.viol.keys()),
                "known_findings_observed": sorted(s for s in self.viol if s in known_sigs),
                "known_findings_not_observed": sorted(s for s in known_sigs if s not in self.viol),
            }, **self.extra),
            "assumptions": self.assumptions,
            "wall_s": round(time.time() - self.t0, 1),
            "violations": len(new),
        }
        # evidence of runs against a scratch tree (VERIF_REPO=...) is kept apart from the registered one
        evdir = os.path.join(VERIF, "evidence") if REPO == "/repo" else os.path.join(BUILD, "evidence-scratch")
        os.makedirs(evdir, exist_ok=True)
        with open(os.path.join(evdir, self.prop + ".json"), "w") as fh:
            json.dump(ev, fh, indent=1, sort_keys=True)
            fh.write("\n")
        for s in new:
            log("VIOLATION property=%s replay=%s   (%s)" % (self.prop, self.replays.get(s, "-"), s))
        log("%s %s seed=%d: states=%d transitions=%d traces=%d new_violations=%d wall=%.0fs" % (
            self.prop, self.tier, self.seed, self.states, self.transitions, self.traces, len(new),
            time.time() - self.t0))
        return 1 if new else 0


def scenario_lines(trace_path, scn):
    out = []
    with open(trace_path) as fh:
        for line in fh:
            o = json.loads(line)
            if o.get("scn") == scn:
                out.append(o)
    return out


def save_replay(prop, n, obj):
    d = os.path.join(BUILD, "replay")
    os.makedirs(d, exist_ok=True)
    p = os.path.join(d, "%s-%s.json" % (prop, n))
    with open(p, "w") as fh:
        json.dump(obj, fh, indent=1, sort_keys=True)
    return p
