import json,re,sys
sd,prop,breaks,needs,demo,conf=sys.argv[1:7]
log=open(sd+'/detect.log').read()
sigs=sorted(set(re.findall(r'\((%s\|[^)]*)\)'%prop, log)))
det=len(sigs)>0
m={"property":prop,"breaks":breaks,"needs_to_manifest":needs,
 "origin":"independent sub-agent given only the property text and a scratch worktree (no access to /verif)",
 "confirmed":conf,"demo":demo,"detected":det,
 "detected_by":("bin/check %s quick (exit 1)"%prop) if det else "not detected",
 "signatures":sigs[:12],"signature_count":len(sigs)}
json.dump(m,open(sd+'/meta.json','w'),indent=1)
print(sd,det,len(sigs))
