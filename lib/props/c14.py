"""C14 Slashing and deposit burns go to the community pool, not to zero
(specs/BurnRedirect.tla, specs/BurnRedirectTrace.tla, harness/burnredirect.go)."""
import concurrent.futures
import json
import os
from vlib import *

TRACE_CFG = "BurnRedirectTrace.cfg"
DEFECTS = ["staking_plain_bank", "gov_plain_bank", "no_feepool_update", "bonded_only", "redirect_all", "bond_denom_only",
           "gate_send_enabled", "gate_community_tax", "gate_deposit_denoms", "gate_network"]
# the chain id the driver runs a network of the model as (the epoch number after the dash is free)
NET_IDS = {"main": "haqq_11235-1", "testedge1": "haqq_53211-1", "testedge2": "haqq_54211-3", "local": "haqq_121799-1",
           "other": "haqq_7777-2"}
SIM_AMT = "25000000000000000007"

MANIFEST_ENTRY = dict(engine="BurnRedirect", design="§4 C14",
   technique="TLA+ spec BurnRedirect.tla: TLC exhaustive model checking of the redirect equations over sequences of slashes, deposit burns and control burns; TLC-simulated behaviours executed as full ABCI block histories on the real application (downtime through absent votes, double signs through duplicate-vote evidence, gov transactions and block time, parameter changes through passed proposals that carry the modules' authority messages); every BeginBlock, transaction and EndBlock validated by TLC against the property layer (trace validation)",
   text="Exhaustive TLC model checking of the design (all sequences of up to 5 events over double-sign and downtime slashes of 2 validators with bonded, unbonding and redelegating stake, proposals vetoed / expired / without quorum / rejected with deposits in 1-2 denominations, burns by erc20 / liquidvesting / evm, and one change of a chain parameter: bank send-enabled per denomination and default, community tax 0 / 2 % / 1, the three gov burn switches, the deposit denominations, the erc20 switch; and, in a configuration of its own, every network the code base knows by name - main, TestEdge1, TestEdge2, local - or an unknown one, with histories that start at height 1 or later) proves on the model that a slash or deposit burn leaves the supply unchanged and moves exactly the destroyed amount into the community pool and the distribution account while other modules' burns reduce the supply, and that each of ten mis-wirings of the bank wrapper (four of them make the redirect depend on the environment: real burn while sending is disabled, while the community tax is zero, for non-deposit denominations, on the test networks below a height) breaks these equations; the binding to the code is two-way: TLC-generated behaviours and seeded random histories are executed through InitChain/BeginBlock/DeliverTx/EndBlock/Commit of the real app with real slashing, evidence, staking, gov and distribution modules, from default and non-default genesis parameters and across parameter changes executed by gov, under the chain ids of the main network, the two test networks, the local network and an unlisted network (chain id of the application, of InitChain and of every block header; transactions signed for it) and with genesis initial heights 1, 2, 1 000 000 and 5 000 000, and TLC checks the equations around every single BeginBlock, transaction and EndBlock, taking the destroyed amount from the staking and gov records (never from the bank); the property layer never reads the parameters, the chain id or the height, and the run is vacuous unless slashes and deposit burns were checked while sending was disabled, with community tax 0 and 1, with erc20 disabled, for non-deposit denominations, on each of the five networks and in histories that start above height 1.",
   note="Bounded by the constants in specs/BurnRedirect_*.cfg and by the sampled histories; the destroyed amount of a slash is the loss of validator tokens plus unbonding-entry balances between the projections before and after BeginBlock, that of a deposit burn is the deposit records of the proposals the gov queues and gov's own Tally (run on a discarded cache context) say end with a burn; fee allocation, reward pay-outs reported by distribution events and the coinomics mint of the same ABCI call are subtracted; CometBFT itself is not run (votes and evidence are fed through ABCI); TLC, the Json community module and the BigNum override are trusted.")


def genesis_cfg(seed):
    return {"seed": seed, "naccts": 6, "nvals": 3, "acctBalance": "1000000000000000000000000",
            "valStake": "1000000000000000000000", "baseFee": "1000000000", "minGasPrice": "0",
            "maxGas": 40000000, "noBaseFee": False, "coinomics": False, "votingSecs": 300}


def script_cfg(seed):
    """genesis variant matching the constants of BurnRedirect_sim.cfg"""
    return {"genesis": genesis_cfg(seed), "denom2": "utest", "denom2Balance": "1000000000000000000000000",
            "minDeposit": [{"denom": "aISLM", "amt": SIM_AMT}], "burnVeto": True, "burnPrevote": True,
            "burnQuorum": False, "unbondingSecs": 100000, "slashDouble": "0.05", "slashDowntime": "0.01"}


# configurations the behaviours of the model start from on the chain (the model's SetParam events
# change them further): the default one and four that a redirect must not notice
GENESIS_PARAMS = [None, None, None, None,
                  {"sendDefaultOff": True},
                  {"communityTax": "0", "erc20Off": True},
                  {"send": {"aISLM": False}, "communityTax": "1"},
                  {"sendDefaultOff": True, "send": {"utest": True}, "evmHookOff": True, "withdrawAddrOff": True}]


def to_scripts(behaviours, seed):
    """the model starts with delegator a1 holding 4 Amt at v1 and at v2"""
    four = str(4 * int(SIM_AMT))
    prelude = [{"op": "delegate", "del": "a1", "val": "v1", "amt": four},
               {"op": "delegate", "del": "a1", "val": "v2", "amt": four},
               {"op": "blocks", "n": 1}]
    out = []
    for i, ops in enumerate(behaviours):
        cfg = script_cfg(seed * 1000 + i)
        # the first entry of a behaviour is the network and the first height the model chose in Init
        if not ops or ops[0].get("op") != "chain":
            raise Infra("behaviour without chain entry")
        cfg["chainId"], cfg["initialHeight"] = NET_IDS[ops[0]["net"]], ops[0]["h0"]
        ops = ops[1:]
        pr = GENESIS_PARAMS[i % len(GENESIS_PARAMS)]
        if pr:
            cfg["params"] = pr
        out.append({"cfg": cfg, "ops": prelude + ops})
    return out


def run_batch(wd, name, scripts, nrandom, seed):
    """one harness process + one trace-validation JVM"""
    d = os.path.join(wd, name)
    os.makedirs(d, exist_ok=True)
    for f in ("BurnRedirect.tla", "BurnRedirectTrace.tla", "BigNum.tla", TRACE_CFG):
        shutil.copy(os.path.join(wd, f), d)
    args = ["burnredirect", "--random", str(nrandom), "--seed", str(seed), "--out", "trace.ndjson", "--stats", "stats.json"]
    if scripts:
        with open(os.path.join(d, "scripts.json"), "w") as fh:
            json.dump(scripts, fh)
        args += ["--scripts", "scripts.json"]
    hv(args, cwd=d)
    res, r = validate_trace(d, "BurnRedirectTrace.tla", TRACE_CFG, timeout=3000)
    n = count_lines(os.path.join(d, "trace.ndjson"))
    if res["consumed"] != n:
        raise Infra("trace spec consumed %d of %d lines (%s)" % (res["consumed"], n, name))
    return d, res, json.load(open(os.path.join(d, "stats.json")))


FLOORS = ["hit:doubleSign:bonded", "hit:doubleSign:unbonding", "hit:doubleSign:redelegating",
          "hit:downtime:bonded", "hit:downtime:unbonding", "hit:downtime:redelegating",
          "depburn:veto", "depburn:expired", "depburn:2denoms", "control:liquidvesting", "control:evm",
          "setparam:applied"]
# slashes / deposit burns that TLC checked while the chain was in a non-default configuration
# (BurnRedirect!EnvClasses evaluated on the logged parameters before the call)
ENV_FLOORS = {"paramchange": 5, "slash/sendOff": 3, "deposit-burn/sendOff": 2, "slash/tax0": 1, "slash/tax1": 1,
              "deposit-burn/tax0": 1, "deposit-burn/tax1": 1, "slash/erc20Off": 1, "deposit-burn/erc20Off": 1,
              "deposit-burn/nonDepositDenom": 1,
              "slash/net:main": 2, "slash/net:testedge1": 2, "slash/net:testedge2": 2, "slash/net:local": 2, "slash/net:other": 2,
              "deposit-burn/net:main": 1, "deposit-burn/net:testedge1": 1, "deposit-burn/net:testedge2": 1,
              "deposit-burn/net:local": 1, "deposit-burn/net:other": 1, "slash/lateStart": 3, "deposit-burn/lateStart": 2}


def run(c):
    quick = c.tier == "quick"
    build_harness()
    wd = scratch("C14")

    # 1. the design: P on the intended machine (exhaustive), and each modelled mis-wiring of the
    #    bank wrapper must break P (non-vacuity of the step relation)
    cfg = "BurnRedirect_intended.cfg" if quick else "BurnRedirect_intended_thorough.cfg"
    r = tlc_exhaustive(wd, "BurnRedirect.tla", cfg, workers=4 if quick else 6, timeout=3000)
    c.add_tlc(cfg, r)
    if not quick:
        # the deeper configuration has no parameter changes; this one has up to two of them in behaviours of length 6
        r = tlc_exhaustive(wd, "BurnRedirect.tla", "BurnRedirect_intended_params_thorough.cfg", workers=6, timeout=3000)
        c.add_tlc("BurnRedirect_intended_params_thorough.cfg", r)
    r = tlc_exhaustive(wd, "BurnRedirect.tla", "BurnRedirect_intended_refund.cfg", workers=4, timeout=1500)
    c.add_tlc("BurnRedirect_intended_refund.cfg", r)
    # every network x first height (the other configurations run as the main network from height 1)
    ncfg = "BurnRedirect_intended_networks.cfg" if quick else "BurnRedirect_intended_networks_thorough.cfg"
    r = tlc_exhaustive(wd, "BurnRedirect.tla", ncfg, workers=4 if quick else 6, timeout=3000)
    c.add_tlc(ncfg, r)
    for d in DEFECTS:
        r = tlc_exhaustive(wd, "BurnRedirect.tla", "BurnRedirect_defect_%s.cfg" % d, must="fail", workers=2, timeout=900)
        c.add_tlc("BurnRedirect_defect_%s.cfg" % d, r)

    # 2. spec -> code: behaviours of the model as scripts for the driver
    nscripts = 60 if quick else 1800
    behaviours, r = tlc_scripts(wd, "BurnRedirect.tla", "BurnRedirect_sim.cfg", nscripts, 9, c.seed)
    behaviours = behaviours[:nscripts]
    if len(behaviours) < nscripts // 2:
        raise Infra("too few scripts generated: %d" % len(behaviours))
    scripts = to_scripts(behaviours, c.seed)
    nrandom = 30 if quick else 900

    # 3. code -> spec: batches of scenarios, each recorded by one driver process and validated by one JVM
    nb = 1 if quick else 30
    batches = []
    for b in range(nb):
        batches.append(("b%d" % b, scripts[b::nb], nrandom // nb, c.seed * 100 + b))
    results = []
    with concurrent.futures.ThreadPoolExecutor(max_workers=3) as ex:
        futs = [ex.submit(run_batch, wd, *b) for b in batches]
        for f in futs:
            results.append(f.result())

    stats, checked, ndiv, divs = {}, {}, 0, []
    viols = []
    c.traces = 0
    lines = 0
    for d, res, st in results:
        for k, v in st.items():
            stats[k] = stats.get(k, 0) + v
        for k, v in res["checked"].items():
            checked[k] = checked.get(k, 0) + v
        c.traces += res["scenarios"]
        lines += res["consumed"]
        ndiv += len(res["div"])
        divs += [dict(v, batch=os.path.basename(d)) for v in res["div"][:5]]
        viols += [dict(v, dir=d) for v in res["viol"]]
    c.extra["trace_lines"] = lines
    c.extra["scripts_replayed"] = len(scripts)
    c.extra["random_scenarios"] = nrandom // nb * nb
    c.extra["blocks_executed"] = stats.get("blocks", 0)
    c.extra["events_validated_by_kind"] = checked
    c.extra["coverage_counters"] = {k: v for k, v in sorted(stats.items())}
    c.extra["conformance_divergences"] = divs[:20]
    c.extra["conformance_divergence_count"] = ndiv
    missing = [k for k in FLOORS if stats.get(k, 0) < 1]
    if missing:
        raise Infra("vacuous run: nothing exercised for %s" % ", ".join(missing))
    thin = ["%s=%d" % (k, checked.get(k, 0)) for k, n in sorted(ENV_FLOORS.items()) if checked.get(k, 0) < n]
    if thin:
        raise Infra("vacuous run: too few events checked under changed parameters: %s" % ", ".join(thin))
    if checked.get("slash", 0) < 10 or checked.get("deposit-burn", 0) < 5 or checked.get("control-burn", 0) < 5:
        raise Infra("vacuous run: too few checked events %s" % checked)

    # a few real recorded steps
    d0 = results[0][0]
    with open(os.path.join(d0, "trace.ndjson")) as fh:
        seen = set()
        for line in fh:
            o = json.loads(line)
            kind = None
            if o["ev"] == "begin" and o["rep"]["slashes"]:
                kind = "slash"
            elif o["ev"] == "end" and any(p["burn"] for p in o["rep"]["ended"]):
                kind = "deposit-burn"
            elif o["ev"] == "tx" and o["args"].get("module", "-") != "-" and o["ok"]:
                kind = "control:" + o["args"]["module"]
            if kind and kind not in seen:
                seen.add(kind)
                p = o["post"]
                c.samples.append({"ev": o["ev"], "env": {k: v for k, v in p["env"].items() if k in ("chainId", "h0", "sendDefault", "send", "tax", "minDep", "erc20")},
                                  "args": {k: v for k, v in o["args"].items() if k in ("h", "k", "module", "burn", "evidence", "absent")},
                                  "rep": o["rep"], "post_supply": p["supply"], "post_community": p["community"],
                                  "post_distrBal": p["distrBal"], "post_pools": [p["bonded"], p["notBonded"]]})

    # 4. verdict: every signature is reproduced alone from its recorded scenario
    under = {}
    for v in viols:
        under.setdefault(sig_of(v), set()).add(v.get("under", "-"))
    if under:
        # diagnostic: the configuration classes (BurnRedirect!EnvClasses) every occurrence of a signature was seen under
        c.extra["violations_under_configuration"] = {k: sorted(u) for k, u in sorted(under.items())}
    first = {}
    for v in sorted(viols, key=lambda v: (v["dir"], v["line"])):
        first.setdefault(sig_of(v), v)
    confirmed = []
    for s, v in first.items():
        lines_ = scenario_lines(os.path.join(v["dir"], "trace.ndjson"), v["scn"])
        script = {"cfg": lines_[0]["cfg"], "ops": lines_[0]["ops"]}
        path = save_replay("C14", "%s-%s-scn%d" % (c.seed, os.path.basename(v["dir"]), v["scn"]),
                           {"property": "C14", "driver": "burnredirect", "script": script, "signature": s})
        if s in replay(path, quiet=True, build=False):
            confirmed.append(v)
            c.replays[s] = path
        else:
            raise Infra("signature %s did not reproduce from %s" % (s, path))
    c.add_violations(confirmed)
    c.assumptions += [
        "TLC and the BigNum Java override (java/BigNum.java) are trusted",
        "the destroyed amount x of a slash is what the staking records lost during BeginBlock (sum of validator tokens + sum of unbonding-delegation entry balances, read through the staking keeper before and after); the slashing events' burned_coins (= staking.Slash return value, validator part only) are logged next to it",
        "the destroyed amount of a deposit burn is the sum of the gov deposit records (GetDeposits) of the proposals that the gov inactive/active queues list as ending at this block time, for which gov's own decision (BurnProposalDepositPrevote, or Keeper.Tally on a discarded cache context) is to burn; it is read immediately before EndBlock",
        "the amount of a control burn is the amount of the message (liquidvesting MsgRedeem amount; value of an EVM transfer, which the evm module burns from the sender and mints to the recipient)",
        "unrelated flows of the same ABCI call are subtracted: fees leaving the fee collector (distribution AllocateTokens), rewards paid out as reported by distribution withdraw_rewards/withdraw_commission events (a redelegation slash unbonds at the destination validator, which pays out that delegation's rewards), and the coinomics mint (fee collector increase during EndBlock)",
        "the state before a BeginBlock is the projection after the previous EndBlock (Commit changes nothing); projections read the real stores through bank, staking, distribution and gov keepers",
        "votes, absent validators and duplicate-vote evidence are fed through ABCI RequestBeginBlock to the real slashing and evidence modules; CometBFT is not run",
        "the configuration (env) of a line is read from the parameter stores of bank, distribution, gov, erc20 and slashing after the call; parameter changes are made by proposals with the module's authority message and the minimum deposit in force, voted yes by all validators and executed by gov's EndBlock (the end of the voting period also ends the other proposals that are due); the model bounds the number of parameter changes per behaviour (MaxParamChanges)",
        "the network of a line is the chain id of the block context (application option, InitChain and every header carry the chain id of the scenario), classified by the code's own predicates utils.IsMainNetwork / IsTestEdge1Network / IsTestEdge2Network / IsLocalNetwork; five chain ids (haqq_11235-1, haqq_53211-1, haqq_54211-3, haqq_121799-1, haqq_7777-2) and four initial heights (1, 2, 1000000, 5000000) are sampled, other ids and heights are not",
        "exhaustive model checking is bounded by the constants in specs/BurnRedirect_*.cfg",
    ]


def replay(path, quiet=False, build=True):
    """re-executes one saved scenario on the real code and returns the signatures it shows"""
    if build:
        build_harness()
    wd = scratch("C14-replay")
    obj = json.load(open(path))
    with open(os.path.join(wd, "scripts.json"), "w") as fh:
        json.dump([obj["script"]], fh)
    hv(["burnredirect", "--scripts", "scripts.json", "--out", "trace.ndjson"], cwd=wd)
    res, _ = validate_trace(wd, "BurnRedirectTrace.tla", TRACE_CFG)
    sigs = sorted({sig_of(v) for v in res["viol"]})
    if not quiet:
        for s in sigs:
            log("replay shows: " + s)
    return sigs
