"""C03 Only the key holder can authorise a transaction, once (specs/SigNonce.tla, harness/signonce.go)."""
import json
import os
import shutil
import zlib
from vlib import *

TRACE_CFG = "SigNonceTrace.cfg"
DEFECT_CFGS = ["SigNonce_defect_no_increment.cfg", "SigNonce_defect_nonce_not_checked.cfg",
               "SigNonce_defect_chain_not_checked.cfg", "SigNonce_defect_sig_not_checked.cfg",
               "SigNonce_defect_check_leaks.cfg", "SigNonce_defect_rewrite_resets_sequence.cfg"]
ROUTES = ["eth-legacy", "eth-accesslist", "eth-dynamicfee", "cosmos-direct", "cosmos-amino-json", "eip712", "eip712-direct"]
CHUNK_LINES = 9000
MAX_CONFIRM = 12

MANIFEST_ENTRY = dict(engine="SigNonce", design="§4 C03",
   technique="TLA+ spec SigNonce.tla: TLC exhaustive model checking of the sequence/replay machine (CheckTx and deliver state, all orders of a pool of submissions) and TLC enumeration of the mutation matrix (route x field x mutation); TLC-simulated submission orders and every matrix case executed through the real CheckTx/DeliverTx (full ante chain) of the application; every recorded submission validated by TLC against the property layer (trace validation)",
   text="TLC proves on the model that with separate CheckTx and deliver sequences, nonce = sequence and increment-on-accept, no transaction is executed twice or with a wrong nonce in any order of valid, replayed, stale, future, badly signed and foreign-chain submissions over several blocks, and that each named way of breaking this is caught. The binding to the code: TLC enumerates the mutation matrix (every signed field, signature component, envelope field, foreign-chain signature and every position of one unauthorised message in 2-3 message Ethereum batches of the same or different senders, VM-level failures and contract creations at every position of a batch followed by the replay of each message, for legacy / access-list / dynamic-fee Ethereum transactions, Cosmos DIRECT and amino-JSON transactions, legacy Web3Tx EIP-712 and EIP-712-over-sign-doc transactions); for every case the harness signs a valid transaction, applies the one mutation without signing again, sends the bytes through the real CheckTx and DeliverTx, then delivers the unmutated transaction (which must be accepted, so the mutation was the reason of the rejection); TLC-simulated and seeded random orders of submissions with replays, interleaved with events that re-write the account object (x/vesting: conversion into a vesting account by a third party, merge, funder update, clawback, conversion back; EVM: a third party's Ethereum transaction pays 1 aISLM to the account, so the state commit stores the account again), are run the same way. All of this runs in the worlds TLC enumerates from SigNonce!Worlds - fee market priced or free (no base fee, minimum gas price 0, transactions without any fee) x signers stored as EthAccount or as plain BaseAccount in the genesis x chain state from genesis or upgraded in place (x/evm parameters put back into the x/params subspace, version map at 3, a scheduled software upgrade whose registered handler runs the store migrations in BeginBlock) - and is judged by the same property layer, which does not mention the world. TLC checks every recorded response and the sequences / balances / fee collector before and after against the property layer.",
   note="Cryptography itself (secp256k1, keccak) is trusted; one chain (haqq_11235-1), so replay onto a chain with the same EIP-155 number and another epoch is out of reach; multi-signer and multisig transactions are not in the matrix; bounds in specs/SigNonce_*.cfg.")


def _chunks(trace_path):
    """split a trace at scenario boundaries into pieces of at most ~CHUNK_LINES lines"""
    out, cur = [], []
    with open(trace_path) as fh:
        for line in fh:
            if line.startswith('{"cfg"') or '"ev":"reset"' in line[:200]:
                if len(cur) >= CHUNK_LINES:
                    out.append(cur)
                    cur = []
            cur.append(line)
    if cur:
        out.append(cur)
    return out


def _validate(wd, name):
    """validates wd/trace.ndjson (in chunks); returns the merged RESULT"""
    path = os.path.join(wd, "trace.ndjson")
    total = count_lines(path)
    merged = {"consumed": 0, "scenarios": 0, "viol": [], "div": [], "acc": {}, "cases_total": 0, "seen": set(), "all": None}
    for i, ch in enumerate(_chunks(path)):
        cwd = scratch("%s-v%d" % (name, i))
        with open(os.path.join(cwd, "trace.ndjson"), "w") as fh:
            fh.writelines(ch)
        res, r = validate_trace(cwd, "SigNonceTrace.tla", TRACE_CFG, timeout=3000)
        if res["consumed"] != len(ch):
            raise Infra("trace spec consumed %d of %d lines (chunk %d)" % (res["consumed"], len(ch), i))
        merged["consumed"] += res["consumed"]
        merged["scenarios"] += res["scenarios"]
        for v in res["viol"] + res["div"]:
            v["line"] += merged["consumed"] - res["consumed"]   # line numbers of the whole trace
        merged["viol"] += res["viol"]
        merged["div"] += res["div"]
        acc = res["acc"] if isinstance(res["acc"], dict) else {}
        for k, v in acc.items():
            merged["acc"][k] = merged["acc"].get(k, 0) + v
        merged["cases_total"] = res["cases_total"]
        missing = set(res["cases_missing"])
        merged["missing"] = missing if "missing" not in merged else (merged["missing"] & missing)
        shutil.rmtree(cwd, ignore_errors=True)
    if merged["consumed"] != total:
        raise Infra("trace spec consumed %d of %d lines" % (merged["consumed"], total))
    return merged


def _matrix_cases(wd):
    r = tlc(wd, "SigNonce.tla", "SigNonce_matrix.cfg", workers=1, timeout=900)
    if not r.completed:
        raise Infra("matrix enumeration failed:\n" + r.out[-3000:])
    cases = r.printed("CASE")
    cases.sort(key=lambda c: (c["route"], c["field"], c["mut"]))
    worlds = r.printed("WORLD")
    worlds.sort(key=_world_rank)
    return cases, worlds, r


def _world_rank(w):
    """default world first; then an order in which the first four worlds cover every pair of
    values of two dimensions (so that the quick tier meets every value of every dimension with
    every value of every other one)"""
    bits = (w["fees"] == "free", w["accts"] == "base", w["origin"] == "migrated")
    order = [(False, False, False), (True, True, False), (True, False, True), (False, True, True),
             (True, True, True), (True, False, False), (False, True, False), (False, False, True)]
    return order.index(bits)


def _wcfg(seed, w):
    return {"seed": seed, "fees": w["fees"], "accts": w["accts"], "origin": w["origin"]}


def _wname(cfg):
    return "%s/%s/%s" % (cfg.get("fees") or "priced", cfg.get("accts") or "eth", cfg.get("origin") or "genesis")


def run(c):
    quick = c.tier == "quick"
    build_harness()
    wd = scratch("C03")

    # 1. the design: exhaustive model checking of P on the as-built machine, all orders of a pool
    #    of submissions; each hypothetical defect must be caught (non-vacuity of P)
    cfg = "SigNonce_intended.cfg" if quick else "SigNonce_intended_thorough.cfg"
    r = tlc_exhaustive(wd, "SigNonce.tla", cfg, workers=4, timeout=3000)
    c.add_tlc(cfg, r)
    if not quick:
        r = tlc_exhaustive(wd, "SigNonce.tla", "SigNonce_intended.cfg", workers=4, timeout=3000)
        c.add_tlc("SigNonce_intended.cfg", r)
    for d in DEFECT_CFGS:
        r = tlc_exhaustive(wd, "SigNonce.tla", d, must="fail", workers=2)
        c.add_tlc(d, r)

    # 2. spec -> code: the enumerated mutation matrix and simulated submission orders
    cases, worlds, r = _matrix_cases(wd)
    c.add_tlc("SigNonce_matrix.cfg", r)
    if len(cases) < 300:
        raise Infra("mutation matrix too small: %d cases" % len(cases))
    if len(worlds) != 8:
        raise Infra("scenario space: %d worlds enumerated, 8 expected" % len(worlds))
    nscripts = 300 if quick else 5000
    scripts, r = tlc_scripts(wd, "SigNonce.tla", "SigNonce_sim.cfg", nscripts, 12, c.seed, timeout=1800)
    if len(scripts) < nscripts // 2:
        raise Infra("too few scripts generated: %d" % len(scripts))
    # the whole matrix in every world of the tier (quick: the four worlds that cover all pairs of
    # dimension values; thorough: all eight, the default world several times with other contents)
    reps = 4 if quick else 12
    mworlds = [worlds[rep % len(worlds)] if rep < len(worlds) else worlds[0] for rep in range(reps)]
    scenarios = [{"cfg": _wcfg(c.seed * 100 + rep, mworlds[rep]), "cases": cases, "rep": rep} for rep in range(reps)]
    for i, s in enumerate(scripts):
        steps = [{"ev": "commit"} if st["ev"] == "commit" else
                 {"ev": "event", "kind": st["kind"], "target": st["target"]} if st["ev"] == "event" else
                 {"ev": "submit", "mode": st["mode"], "tx": {k: st["tx"][k] for k in ("id", "signer", "nonce", "nm", "route", "q", "qpos") if k in st["tx"]}}
                 for st in s]
        scenarios.append({"cfg": _wcfg(c.seed * 100000 + i, worlds[i % len(worlds)]), "steps": steps})
    with open(os.path.join(wd, "scripts.json"), "w") as fh:
        json.dump(scenarios, fh)
    nrandom = 40 if quick else 600
    hv(["signonce", "--scripts", "scripts.json", "--random", str(nrandom), "--steps", "30" if quick else "60",
        "--seed", str(c.seed), "--out", "trace.ndjson"], cwd=wd, timeout=6000)

    # 3. code -> spec: every recorded submission checked against P (verdict) and M (diagnostic)
    res = _validate(wd, "C03")
    c.traces = res["scenarios"]
    c.extra["trace_lines"] = res["consumed"]
    c.extra["matrix_cases"] = len(cases)
    c.extra["matrix_repetitions"] = reps
    c.extra["order_scripts_replayed"] = len(scripts)
    c.extra["random_order_scenarios"] = nrandom
    c.extra["conformance_divergences"] = res["div"][:20]
    c.extra["conformance_divergence_count"] = len(res["div"])
    if res["missing"]:
        raise Infra("matrix cases never executed: %s" % sorted(res["missing"])[:10])

    # measured coverage and vacuity floors
    per_route = {rt: {"order_deliver_accepted": 0, "order_deliver_rejected": 0, "order_check_accepted": 0,
                      "order_check_rejected": 0, "mutated_rejected": 0, "mutated_accepted": 0,
                      "original_accepted": 0, "original_rejected_as_replay": 0} for rt in ROUTES}
    for k, v in res["acc"].items():
        rt, role, mode, outcome = k.split("|")
        p = per_route.setdefault(rt, {})
        if role == "order":
            key = "order_%s_%s" % (mode, outcome)
        elif role == "mut":
            if mode != "deliver":
                continue
            key = "mutated_" + outcome
        elif role == "replay":
            key = "batch_message_replay_" + outcome
        else:
            key = "original_accepted" if outcome == "accepted" else "original_rejected_as_replay"
        p[key] = p.get(key, 0) + v
    c.extra["per_route"] = per_route
    vacuous, by_class, nonce_classes, events, vm_batches = [], {}, {}, {}, {}
    cur = {}
    world_of, per_world, upgrades = {}, {}, 0
    with open(os.path.join(wd, "trace.ndjson")) as fh:
        for line in fh:
            o = json.loads(line)
            if o["ev"] == "reset":
                world_of[o["scn"]] = _wname(o["cfg"])
                pw = per_world.setdefault(world_of[o["scn"]], {"scenarios": 0, "matrix_runs": 0, "delivered_accepted": 0,
                                                               "delivered_rejected": 0, "touch_ok_on_account_with_history": 0})
                pw["scenarios"] += 1
                pw["matrix_runs"] += o["src"] == "matrix"
                continue
            if o["ev"] == "setup" and o["what"].startswith("upgrade-scheduled"):
                upgrades += 1
            if o["ev"] == "event":
                k = o["kind"] + ("/ok" if o["ok"] else "/failed")
                events[k] = events.get(k, 0) + 1
                if o["ok"] and o["pre"]["seq"][o["target"]] > 0:
                    events["ok-on-account-with-history"] = events.get("ok-on-account-with-history", 0) + 1
                    if o["kind"] == "touch":
                        per_world[world_of[o["scn"]]]["touch_ok_on_account_with_history"] += 1
                continue
            if o["ev"] != "submit":
                continue
            if o["mode"] == "deliver" and o["role"] in ("order", "orig"):
                per_world[world_of[o["scn"]]]["delivered_accepted" if o["ok"] else "delivered_rejected"] += 1
            if o["role"] == "mut" and o["mode"] == "deliver" and o["case"]["field"] == "batch" and "@" in o["case"]["mut"] \
                    and o["case"]["mut"].split("@")[0] in ("revert", "oog", "create"):
                # authorised batch with a VM-level failure / a creation: it must have been included,
                # and the failure must really have happened inside the virtual machine
                kind, pos = o["case"]["mut"].split("@")[0], int(o["case"]["mut"].split("@")[1].split("/")[0])
                bad = not o["ok"] or (kind != "create" and not (len(o["vmErrors"]) >= pos and o["vmErrors"][pos - 1]))
                if bad:
                    vacuous.append("%s:%s:%s" % (o["case"]["route"], o["case"]["field"], o["case"]["mut"]))
                vm_batches[kind] = vm_batches.get(kind, 0) + 1
                cur = {"case": o["case"], "mut_ok": True}
            elif o["role"] == "mut" and o["mode"] == "deliver":
                cur = {"case": o["case"], "mut_ok": o["ok"]}
                if len(c.samples) < 3 and o["case"]["field"] in ("value", "feeGranter", "signedFor"):
                    c.samples.append({k: o[k] for k in ("mode", "role", "case", "tx", "code", "err")} |
                                     {"pre_seq": o["pre"]["seq"], "post_seq": o["post"]["seq"]})
            elif o["role"] == "orig":
                if not (o["ok"] or cur.get("mut_ok")):
                    vacuous.append("%s:%s:%s" % (o["case"]["route"], o["case"]["field"], o["case"]["mut"]))
            elif o["role"] == "order" and o["mode"] == "deliver":
                n, s = o["tx"]["nonce"], o["pre"]["seq"][o["tx"]["signer"]]
                k = "valid" if n == s else ("future" if n > s else "replayed-or-stale")
                k = "%s/%s/%s" % (o["tx"]["q"], k, "accepted" if o["ok"] else "rejected")
                nonce_classes[k] = nonce_classes.get(k, 0) + 1
                if len(c.samples) < 6 and n < s and o["tx"]["q"] == "good":
                    c.samples.append({k2: o[k2] for k2 in ("mode", "role", "tx", "code", "err")} |
                                     {"pre_seq": o["pre"]["seq"], "post_seq": o["post"]["seq"]})
    for cs in cases:
        by_class[cs["class"]] = by_class.get(cs["class"], 0) + 1
    c.extra["matrix_cases_by_class"] = by_class
    c.extra["order_deliver_outcomes"] = nonce_classes
    c.extra["vacuous_cases"] = vacuous[:20]
    c.extra["account_rewriting_events"] = events
    c.extra["vm_level_batches"] = vm_batches
    c.extra["per_world"] = per_world
    c.extra["upgrades_run"] = upgrades
    if len(per_world) != len(worlds):
        raise Infra("vacuous run: only the worlds %s were visited" % sorted(per_world))
    for wn, pw in per_world.items():
        # every world must execute valid transactions (in a free world they carry no fee at all)
        # and see third-party EVM touches of accounts that have signed before
        if pw["delivered_accepted"] < 20:
            raise Infra("vacuous run: world %s accepted only %d valid transactions" % (wn, pw["delivered_accepted"]))
        if pw["touch_ok_on_account_with_history"] < 3:
            raise Infra("vacuous run: world %s has too few EVM touches of accounts with history (%s)" % (wn, pw))
    if sum(pw["matrix_runs"] for wn, pw in per_world.items() if wn.endswith("/migrated")) < 1 or \
            sum(pw["matrix_runs"] for wn, pw in per_world.items() if wn.startswith("free/")) < 1 or \
            sum(pw["matrix_runs"] for wn, pw in per_world.items() if "/base/" in wn) < 1:
        raise Infra("vacuous run: the mutation matrix did not visit a free, a base-account and a migrated world")
    for kind in ("convert", "merge", "funder", "clawback", "back", "touch"):
        if events.get(kind + "/ok", 0) < 1:
            raise Infra("vacuous run: no successful %s event (%s)" % (kind, events))
    if events.get("ok-on-account-with-history", 0) < 20:
        raise Infra("vacuous run: too few account-rewriting events on accounts that had sent transactions (%s)" % events)
    if vacuous:
        raise Infra("vacuous matrix cases (neither the mutated nor the original transaction was accepted): %s" % vacuous[:8])
    for rt in ROUTES:
        p = per_route[rt]
        if p["order_deliver_accepted"] < 1 or p["original_accepted"] < 1:
            raise Infra("vacuous run: route %s has no accepted valid transaction (%s)" % (rt, p))
        if p["mutated_rejected"] < 10:
            raise Infra("vacuous run: route %s has only %d rejected mutations" % (rt, p["mutated_rejected"]))
    if sum(v for k, v in nonce_classes.items() if k.startswith("good/replayed-or-stale/")) < 20:
        raise Infra("vacuous run: too few replayed submissions")

    # 4. verdict: every signature is reproduced alone from its recorded scenario
    with open(os.path.join(wd, "trace.ndjson")) as fh:
        all_lines = fh.readlines()

    def replay_for(v, whole=False):
        lines = scenario_lines(os.path.join(wd, "trace.ndjson"), v["scn"])
        head = lines[0]
        if head["src"] == "matrix" and whole:
            # the complete matrix run of that world (a case may need the history the earlier cases left)
            script = {"cfg": head["cfg"], "cases": cases, "rep": scenarios[v["scn"] - 1].get("rep", 0)}
            return save_replay("C03", "%s-scn%d-whole" % (c.seed, v["scn"]),
                               {"property": "C03", "driver": "signonce", "script": script, "signature": "(whole matrix run)"})
        if head["src"] == "matrix":
            at = json.loads(all_lines[v["line"] - 1])
            sel = cases
            if at["ev"] == "submit":    # the case this submission belongs to, alone
                cs = at["case"]
                sel = [x for x in cases if (x["route"], x["field"], x["mut"]) == (cs["route"], cs["field"], cs["mut"])]
            script = {"cfg": head["cfg"], "cases": sel, "rep": scenarios[v["scn"] - 1].get("rep", 0)}
        else:
            steps = []
            for ln in lines[1:]:
                if ln["ev"] == "commit":
                    steps.append({"ev": "commit"})
                elif ln["ev"] == "event":
                    steps.append({"ev": "event", "kind": ln["kind"], "target": ln["target"]})
                elif ln["ev"] == "submit":
                    steps.append({"ev": "submit", "mode": ln["mode"], "tx": {k: ln["tx"][k] for k in ("id", "signer", "nonce", "nm", "route", "q", "qpos") if k in ln["tx"]}})
            script = {"cfg": head["cfg"], "steps": steps}
        return save_replay("C03", "%s-scn%d-%s" % (c.seed, v["scn"], zlib.crc32(sig_of(v).encode()) % 100000),
                           {"property": "C03", "driver": "signonce", "script": script, "signature": sig_of(v)})

    first = {}
    for v in sorted(res["viol"], key=lambda v: v["line"]):
        first.setdefault(sig_of(v), v)
    known = {k["signature"] for k in load_known() if k["property"] == "C03" and k.get("status", "known") == "known"}
    confirmed, skipped, whole_runs = [], [], {}
    for s, v in first.items():
        # a broad breakage shows up under very many classes: the listed findings and the first
        # MAX_CONFIRM others are reproduced alone (and only those are reported), the rest is counted
        if s not in known and len([x for x in confirmed if sig_of(x) not in known]) >= MAX_CONFIRM:
            skipped.append(s)
            continue
        path = replay_for(v)
        shown = _replay(path)
        if s not in shown and v["scn"] <= len(scenarios) and scenarios[v["scn"] - 1].get("cases"):
            path = replay_for(v, whole=True)
            if path not in whole_runs:
                whole_runs[path] = _replay(path)
            shown = whole_runs[path]
        if s in shown:
            confirmed.append(v)
            c.replays[s] = path
        else:
            raise Infra("signature %s did not reproduce from %s" % (s, path))
    c.extra["signatures_seen_in_trace"] = len(first)
    c.extra["signatures_not_replayed"] = skipped[:60]
    c.add_violations(confirmed)
    c.assumptions += [
        "TLC 1.8.0, the Json community module and the BigNum Java override are trusted",
        "secp256k1 / keccak and the go-ethereum and Cosmos-SDK signing libraries used to build valid transactions are trusted; only what the ante chain does with them is checked",
        "the class of a matrix case (must be rejected / may be accepted with exactly the signed effect) is stated in specs/SigNonce.tla ClassOf from the property statement, not taken from the code",
        "the projection in harness/signonce.go reads sequences (deliver state and CheckTx state), EVM nonces and balances through keepers",
        "worlds: the in-place upgrade covers the store migrations of x/evm (consensus versions 3 -> current) started by the registered v1.8.2 handler; migrations of other modules and worlds where AllowUnprotectedTxs is switched on by a deliberate parameter decision are not run",
        "a single chain id (haqq_11235-1): replay between chains that share the EIP-155 number is out of reach; single-signer transactions only",
        "exhaustive model checking is bounded by the constants in specs/SigNonce_*.cfg",
    ]


def _replay(path):
    wd = scratch("C03-replay")
    obj = json.load(open(path))
    with open(os.path.join(wd, "scripts.json"), "w") as fh:
        json.dump([obj["script"]], fh)
    hv(["signonce", "--scripts", "scripts.json", "--out", "trace.ndjson"], cwd=wd)
    res = _validate(wd, "C03-replay")
    return sorted({sig_of(v) for v in res["viol"]})


def replay(path, quiet=False):
    """re-executes one saved scenario on the real code and returns the signatures it shows"""
    build_harness()
    sigs = _replay(path)
    if not quiet:
        for s in sigs:
            log("replay shows: " + s)
    return sigs
