"""C05 A reverted EVM call frame leaves no trace, precompiles included."""
import evmrun
from vlib import *

MANIFEST_ENTRY = dict(engine="EvmCosmos", design="§4 C05",
    technique="TLA+ spec EvmCosmos.tla (Ideal = meaning of the call tree without the sub-trees of reverted frames; M with the 'no_cosmos_revert' mechanism); EvmCosmosGen.tla enumerates every placement of the reverting frame (frame that made the precompile call, out of gas, sibling, grand-parent, top level, with value moved) x precompile methods, model-checked by TLC; each tree compiled to contracts and run by real DeliverTx; TLC trace spec compares all projected Cosmos and EVM state with Ideal; EvmCosmosRand.tla draws random call trees (150 in the quick tier, 15000 in the thorough tier) that are executed on the real chain and judged by the same trace specification",
    text="The specification makes the reverted frames explicit: contracts record the success flag of every call they make, so the recorded post-state tells which frames completed; Ideal applies the Cosmos-native effect only of calls in completed frames, and the trace specification compares delegations, unbondings, rewards, withdraw addresses, grants, balances, supply and contract storage with it. TLC checks on the model that the intended design satisfies this for every enumerated tree and that the as-built machine fails exactly through the modelled mechanisms (no Cosmos-side revert; authorization re-validated after the effect).",
    note="Bounded tree shapes (specs/EvmCosmosGen.tla C05Trees); staking/distribution methods only; known placements that leave a trace are listed per class in known_findings.json.")


def run(c):
    evmrun.run_family(c, "C05", "C05", nquick=200, nrand=(150, 15000))


def replay(path, quiet=False):
    sigs = [s for s in evmrun.replay_file(path, "C05") if s.startswith("C05|")]
    if not quiet:
        for s in sigs:
            log("replay shows: " + s)
    return sigs
