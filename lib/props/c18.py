"""C18 Ethereum transactions survive the Cosmos envelope unchanged
(specs/Envelope.tla, specs/EnvelopeTrace.tla, harness/envelope.go).

A pure input space (BUILDING.md section 1): Envelope.tla is a depth-1 machine whose Next picks a case; TLC
enumerates the cases and prints them, the harness executes one real transaction per case.  One trace line is
one scenario (there is no state to reset): the line's "cfg" (src, cls, seed) re-executes it alone, which is
what a replay file contains.  The trace is validated in shards of SHARD lines, one JVM each."""
import collections
import glob
import json
import os
import shutil
from concurrent.futures import ThreadPoolExecutor

from vlib import *

TRACE_CFG = "EnvelopeTrace.cfg"
SHARD = 20000          # trace lines per validating JVM

MANIFEST_ENTRY = dict(engine="Envelope", design="§4 C18",
   technique="TLA+ spec Envelope.tla: TLC enumerates the case space of a depth-1 input machine (product of field classes of the three transaction types, restricted to the combinations that exist) and proves the derived-figure definitions mutually consistent on it; every enumerated case plus seeded random cases is executed as one real signed transaction through FromEthereumTx / ValidateBasic / BuildTx / TxEncoder / TxDecoder / AsTransaction; TLC validates every recorded case against the identities and the figures it computes itself with exact integers (trace validation)",
   text="Model-driven case enumeration with real-code replay. TLC enumerates the product of field classes (type x nonce x gas x amount {nil,0,1,2^64,2^256-1} x gasPrice or feeCap x tip/cap relation x data {empty,1B,64KiB} x access list {nil,empty,3x3} x to {create,call,zero address} x legacy signature form x chain id {1,11235,2^63} x base-fee class), quick tier: factored product (all numeric combinations x 3 structural backgrounds, all structural combinations x 3 numeric backgrounds, 6269 cases), thorough tier: the full product (324014 cases), plus out-of-range cases; on the model it proves that fee, cost and effective price/fee/cost as defined from the statement are mutually consistent (effective <= static, cost - fee = value, min(tip+base,cap) - base = min(tip,cap-base), the class decides the side of the min, EIP-155 chain-id derivation). The harness signs one go-ethereum transaction per case (seeded value inside the class, fresh key), runs the real wrap/encode/decode/unwrap path with the node's TxConfig and logs every field before and after; TLC checks on every recorded case: hash after = hash before = MsgEthereumTx.Hash, recovered sender = original sender = key address (also through the message's GetSender/GetSigners), every field and the type equal, and GetFee / Cost / EffectiveGasPrice / GetEffectiveFee / EffectiveCost of the message (before encoding and after decoding) and the envelope's fee and gas limit equal the figures TLC computes from the original transaction. RLP, protobuf, Any packing and signature recovery are observed through the real calls (before/after), not modelled.",
   note="Fidelity is checked on the enumerated classes and seeded instances, not on all field values; the specification contributes the case analysis, the figures and the acceptance-rule transcription (diagnostic), it does not model the codecs. Transactions the code refuses at construction (values above 2^256-1) or whose envelope cannot be built after ValidateBasic refused them (fee above 2^256-1) are counted, not judged. Dynamic-fee transactions without a base fee have no effective price in the statement (the code panics there; logged). The receiving side is TxDecoder + GetMsgs + AsTransaction, not a full CheckTx. TLC, the Json community module, the BigNum override and go-ethereum's signer / hash as the reference for the original transaction are trusted.")


def _dedupe(cases):
    seen, out = set(), []
    for cs in cases:
        k = json.dumps(cs, sort_keys=True)
        if k not in seen:
            seen.add(k)
            out.append(cs)
    return out


def _emit_cases(wd, full):
    cfg = "Envelope_emit_full.cfg" if full else "Envelope_emit.cfg"
    r = tlc(wd, "Envelope.tla", cfg, workers=1, timeout=2400, name="emit")
    if not r.completed:
        raise Infra("case emission did not complete:\n" + r.out[-3000:])
    cases = _dedupe(r.printed("CASE"))
    if len(cases) != r.distinct - 1:
        raise Infra("TLC found %d cases but %d were printed" % (r.distinct - 1, len(cases)))
    return cases, r


def _shard_dir(wd, i):
    d = os.path.join(wd, "shard%03d" % i)
    os.makedirs(d)
    for f in glob.glob(os.path.join(wd, "*.tla")) + glob.glob(os.path.join(wd, "*.cfg")):
        shutil.copy(f, d)
    return d


def _validate(wd, trace="trace.ndjson", parallel=4):
    """Splits the trace into shards (one JVM each) and merges the RESULT records."""
    path = os.path.join(wd, trace)
    shards, offset = [], 0
    with open(path) as fh:
        out, n, i = None, 0, 0
        for line in fh:
            if out is None:
                d = _shard_dir(wd, i)
                out = open(os.path.join(d, "trace.ndjson"), "w")
                shards.append([d, offset, 0])
            out.write(line)
            n += 1
            if n == SHARD:
                out.close()
                shards[-1][2] = n
                offset += n
                out, n, i = None, 0, i + 1
        if out is not None:
            out.close()
            shards[-1][2] = n
            offset += n
    total = offset

    def one(s):
        res, r = validate_trace(s[0], "EnvelopeTrace.tla", TRACE_CFG, timeout=2400)
        if res["consumed"] != s[2]:
            raise Infra("trace spec consumed %d of %d lines in %s" % (res["consumed"], s[2], s[0]))
        return res, r

    build_classes()
    with ThreadPoolExecutor(max_workers=parallel) as ex:
        results = list(ex.map(one, shards))
    merged = {"consumed": 0, "viol": [], "div": [], "bad": [], "cnt": collections.Counter(), "wall": 0.0}
    for s, (res, r) in zip(shards, results):
        merged["consumed"] += res["consumed"]
        for v in res["viol"]:
            v["line"] += s[1]
            merged["viol"].append(v)
        merged["div"] += res["div"]
        merged["bad"] += res["bad"]
        merged["cnt"].update(res["cnt"])
        merged["wall"] += r.wall
        shutil.rmtree(s[0], ignore_errors=True)
    if merged["consumed"] != total:
        raise Infra("trace spec consumed %d of %d lines" % (merged["consumed"], total))
    merged["cnt"] = dict(merged["cnt"])
    return merged


def _sample(o):
    keep = {k: o[k] for k in ("scn", "src", "base", "exp", "wrap", "vbCls", "build", "fig", "fig2", "env")}
    keep["cls"] = o["cfg"]["cls"]
    keep["seed"] = o["cfg"]["seed"]
    for side in ("o", "a"):
        keep[side] = {k: o[side][k] for k in ("type", "hash", "sender", "nonce", "gas", "gasPrice", "tipCap", "feeCap",
                                             "value", "to", "dataLen", "access", "chainId", "v")}
    keep["msgHash"] = o["m"]["hash"]
    keep["msgHashAfter"] = o["m2"]["hash"]
    keep["getSender"] = o["m2"]["getSender"]
    return keep


def _replay_file(seed, line, sig):
    kind = "".join(ch if ch.isalnum() else "_" for ch in sig.split("|")[1])
    return save_replay("C18", "%s-scn%d-%s" % (seed, line["scn"], kind),
                       {"property": "C18", "driver": "envelope", "case": line["cfg"], "signature": sig})


def _run_cases(wd_name, cfgs):
    """Executes the given recorded cases (src, cls, seed) alone and returns the signatures they show."""
    wd = scratch(wd_name)
    with open(os.path.join(wd, "cases.json"), "w") as fh:
        json.dump({"cases": cfgs}, fh)
    hv(["envelope", "--cases", "cases.json", "--out", "trace.ndjson", "--workers", "2"], cwd=wd)
    res = _validate(wd, parallel=1)
    if res["bad"]:
        raise Infra("replay: harness/specification problem: %s" % res["bad"][:5])
    return res


def run(c):
    quick = c.tier == "quick"
    build_harness()
    wd = scratch("C18")

    # 1. the case space, enumerated exhaustively by TLC; on every case and every end-point valuation of its
    #    classes the derived-figure definitions of the property layer are proved mutually consistent
    cfg = "Envelope_cases.cfg" if quick else "Envelope_cases_full.cfg"
    r = tlc_exhaustive(wd, "Envelope.tla", cfg, workers=4, timeout=3000)
    c.add_tlc(cfg, r)
    cases, r = _emit_cases(wd, not quick)
    c.add_tlc("Envelope_emit%s.cfg" % ("" if quick else "_full"), r)
    by_type = collections.Counter(cs["type"] for cs in cases)
    if len(cases) < (5000 if quick else 300000) or min(by_type[t] for t in ("legacy", "accesslist", "dynamic")) < 1000:
        raise Infra("case space smaller than expected: %d %s" % (len(cases), dict(by_type)))
    with open(os.path.join(wd, "cases.json"), "w") as fh:
        json.dump({"cases": [{"src": "grid", "cls": cs} for cs in cases]}, fh)

    # 2. spec -> code: one real signed transaction per case through the real wrap/encode/decode/unwrap path,
    #    plus seeded random cases beyond the class grid
    nrandom = 2500 if quick else 30000
    out, hv_wall = hv(["envelope", "--cases", "cases.json", "--random", str(nrandom), "--seed", str(c.seed),
                       "--out", "trace.ndjson", "--workers", "4" if quick else "8"], cwd=wd, timeout=6000)
    trace = os.path.join(wd, "trace.ndjson")
    nlines = count_lines(trace)
    if nlines != len(cases) + nrandom:
        raise Infra("harness wrote %d lines for %d cases" % (nlines, len(cases) + nrandom))

    # 3. code -> spec: every recorded case validated by TLC against P (verdict) and M (diagnostic)
    res = _validate(wd, parallel=4)
    if res["bad"]:
        raise Infra("harness/specification problem (not a verdict): %d, e.g. %s" % (len(res["bad"]), res["bad"][:5]))

    # bookkeeping from the recorded outcomes (counts only; no verdict is derived here)
    want = {json.dumps(cs, sort_keys=True) for cs in cases}
    got = set()
    stat = collections.Counter()
    vbcls = collections.Counter()
    wrapcls = collections.Counter()
    figchecks = 0
    with open(trace) as fh:
        for line in fh:
            o = json.loads(line)
            t = o["cfg"]["cls"]["type"]
            if o["src"] == "grid":
                got.add(json.dumps(o["cfg"]["cls"], sort_keys=True))
            wrapcls[o["wrapCls"]] += 1
            if not o["wrap"]["ok"]:
                stat["refused_at_construction"] += 1
            else:
                vbcls[o["vbCls"]] += 1
                if o["unwrap"]["ok"]:
                    stat["roundtrip:" + t] += 1
                    stat["roundtrip_accepted" if o["vb"]["ok"] else "roundtrip_refused_by_validatebasic"] += 1
                    if o["vb"]["ok"]:
                        stat["accepted:" + t] += 1
                    if t == "dynamic" and o["base"] != "nil":
                        figchecks += 1
                else:
                    stat["envelope_not_built_after_validatebasic_refused" if not o["vb"]["ok"]
                         else "roundtrip_failed_on_accepted"] += 1
                if o["fig"]["effPrice"] == "panic":
                    stat["effective_price_undefined_no_base_fee"] += 1
            if len(c.samples) < 4 and o["unwrap"]["ok"] and o["scn"] % 997 == 1:
                c.samples.append(_sample(o))
    if got != want:
        raise Infra("recorded grid cases differ from the cases TLC emitted (%d vs %d)" % (len(got), len(want)))
    roundtrips = sum(v for k, v in stat.items() if k.startswith("roundtrip:"))
    c.traces = res["consumed"]
    c.extra.update({
        "cases_enumerated_by_tlc": len(cases), "cases_by_type": dict(by_type), "random_cases": nrandom,
        "trace_lines": res["consumed"], "tlc_counters": res["cnt"],
        "full_roundtrips_checked": roundtrips, "outcomes": dict(stat),
        "validatebasic_outcomes": dict(vbcls), "construction_outcomes": dict(wrapcls),
        "dynamic_effective_price_checks": figchecks,
        "harness_wall_s": round(hv_wall, 1), "trace_validation_cpu_s": round(res["wall"], 1),
        "conformance_divergences": res["div"][:20], "conformance_divergence_count": len(res["div"]),
    })
    # 4. verdict: every signature is reproduced alone from its recorded case before it counts
    first = {}
    for v in sorted(res["viol"], key=lambda v: v["line"]):
        first.setdefault(sig_of(v), v)
    if first:
        need = {v["scn"] for v in first.values()}
        lines = {}
        with open(trace) as fh:
            for line in fh:
                o = json.loads(line)
                if o["scn"] in need:
                    lines[o["scn"]] = o
        scns = sorted(need)
        rres = _run_cases("C18-replay", [lines[s]["cfg"] for s in scns])
        shown = collections.defaultdict(set)
        for v in rres["viol"]:
            shown[scns[v["scn"] - 1]].add(sig_of(v))
        confirmed = []
        for s, v in first.items():
            path = _replay_file(c.seed, lines[v["scn"]], s)
            if s not in shown[v["scn"]]:
                raise Infra("signature %s did not reproduce from %s" % (s, path))
            c.replays[s] = path
            confirmed.append(v)
        c.add_violations(confirmed)
    # 5. non-vacuity floors (exit 2).  They are consulted only when nothing was found: a change that makes
    #    the code refuse everything is reported through the identities it breaks, not hidden behind a floor
    if not c.viol:
        floor = 4000 if quick else 200000
        if roundtrips < floor or res["cnt"].get("roundtrips", 0) != roundtrips:
            raise Infra("vacuous run: %d full round trips (TLC counted %s)" % (roundtrips, res["cnt"].get("roundtrips")))
        for t in ("legacy", "accesslist", "dynamic"):
            if stat["accepted:" + t] < (300 if quick else 10000):
                raise Infra("vacuous run: only %d accepted %s transactions made the round trip" % (stat["accepted:" + t], t))
        if stat["refused_at_construction"] < 5 or figchecks < (500 if quick else 50000):
            raise Infra("vacuous run: refused=%d dynamic effective-price checks=%d" % (stat["refused_at_construction"], figchecks))
    c.assumptions += [
        "TLC 1.8.0, the Json community module and the BigNum Java override (java/BigNum.java) are trusted",
        "go-ethereum's signer, hash and accessors are the reference for the ORIGINAL transaction; its Cost / AsMessage figures are cross-checked against TLC's (a mismatch stops the run as an infrastructure problem)",
        "the round trip is FromEthereumTx -> BuildTx(encoding.MakeConfig(app.ModuleBasics).TxConfig builder) -> TxEncoder -> TxDecoder -> GetMsgs -> AsTransaction; the ante handler is not run",
        "codec internals (RLP, protobuf, Any) are observed before/after, not modelled; fidelity is established for the enumerated classes and the seeded instances inside them",
        "cases refused at construction or whose envelope cannot be built after ValidateBasic refused them are counted, not judged",
    ]


def replay(path, quiet=False):
    """re-executes one saved case on the real code and returns the signatures it shows"""
    build_harness()
    obj = json.load(open(path))
    res = _run_cases("C18-replay1", [obj["case"]])
    sigs = sorted({sig_of(v) for v in res["viol"]})
    if not quiet:
        for s in sigs:
            log("replay shows: " + s)
    return sigs
