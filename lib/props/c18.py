"""C18 Ethereum transactions survive the Cosmos envelope unchanged
(specs/Envelope.tla, specs/EnvelopeTrace.tla, harness/envelope.go).

A pure input space (BUILDING.md section 1): Envelope.tla is a depth-1 machine whose Next picks a case; TLC
enumerates the cases and prints them, the harness executes one real transaction per case.  One trace line is
one scenario (there is no state to reset): the line's "cfg" (src, cls, seed) re-executes it alone, which is
what a replay file contains.  The trace is validated in shards of SHARD lines, one JVM each.

Second part (specs/EnvelopeOps.tla, specs/EnvelopeOpsTrace.tla, harness/envelopeops.go): the same API used in
SEQUENCES on SHARED objects - a state machine over one re-used TxBuilder, the wrapped messages and decoded
Cosmos transactions with several Ethereum messages (build / pack / encode / decode / lookup by hash / getters).
TLC checks P on the model exhaustively, its simulated behaviours and seeded random scenarios are executed on the
real objects, and every recorded step is validated by TLC (StepOK with frame conditions + invariants)."""
import collections
import glob
import hashlib
import json
import os
import shutil
from concurrent.futures import ThreadPoolExecutor

from vlib import *

TRACE_CFG = "EnvelopeTrace.cfg"
SHARD = 20000          # trace lines per validating JVM
OPS_SHARD = 6000       # the same for the sequence traces (cut at scenario boundaries)
OPS_WITNESSES = ["buildkeepsfeewhenzero", "buildkeepslargergas", "buildappendsmsg", "lookupstampssearched"]

MANIFEST_ENTRY = dict(engine="Envelope", design="§4 C18",
   technique="TLA+ spec Envelope.tla: TLC enumerates the case space of a depth-1 input machine (product of field classes of the three transaction types, restricted to the combinations that exist) and proves the derived-figure definitions mutually consistent on it; every enumerated case plus seeded random cases is executed as one real signed transaction through FromEthereumTx / ValidateBasic / BuildTx / TxEncoder / TxDecoder / AsTransaction; TLC validates every recorded case against the identities and the figures it computes itself with exact integers (trace validation). Second machine EnvelopeOps.tla: the same API as OPERATIONS on shared objects (one re-used TxBuilder, wrapped messages, decoded multi-message Cosmos transactions): TLC model-checks the property layer (per-operation effect + frame condition, invariants) exhaustively on the as-built machine and refutes four named mutation witnesses; TLC-simulated behaviours and seeded random scenarios are executed on the real objects and every recorded step is validated by TLC",
   text="Model-driven case enumeration with real-code replay. TLC enumerates the product of field classes (type x nonce x gas x amount {nil,0,1,2^64,2^256-1} x gasPrice or feeCap x tip/cap relation x data {empty,1B,64KiB} x access list {nil,empty,3x3} x to {create,call,zero address} x legacy signature form x chain id {1,11235,2^63} x base-fee class), quick tier: factored product (all numeric combinations x 3 structural backgrounds, all structural combinations x 3 numeric backgrounds, 6269 cases), thorough tier: the full product (324014 cases), plus out-of-range cases; on the model it proves that fee, cost and effective price/fee/cost as defined from the statement are mutually consistent (effective <= static, cost - fee = value, min(tip+base,cap) - base = min(tip,cap-base), the class decides the side of the min, EIP-155 chain-id derivation). The harness signs one go-ethereum transaction per case (seeded value inside the class, fresh key), runs the real wrap/encode/decode/unwrap path with the node's TxConfig and logs every field before and after; TLC checks on every recorded case: hash after = hash before = MsgEthereumTx.Hash, recovered sender = original sender = key address (also through the message's GetSender/GetSigners), every field and the type equal, and GetFee / Cost / EffectiveGasPrice / GetEffectiveFee / EffectiveCost of the message (before encoding and after decoding) and the envelope's fee and gas limit equal the figures TLC computes from the original transaction. RLP, protobuf, Any packing and signature recovery are observed through the real calls (before/after), not modelled. The envelope itself is an input dimension: next to the signed transaction a MsgEthereumTx carries a recorded hash (a string) and a From field no signature covers; the wrapping API produces one point (canonical Hash.Hex(), empty From), a sender who builds the envelope by hand any other. TLC crosses the spelling of the recorded hash {canonical, upper case, mixed case, 0X prefix, no prefix, odd digit count, zero-padded, longer with foreign leading bytes, other 32 bytes, empty} x From {empty, signer, foreign address, not an address} x type on three backgrounds (full tier: also x signature form x chain id x to x data); the harness puts each such envelope on the wire with the builder's own setters and logs what the receiving side sees after TxDecoder / GetMsgs; P: whatever ValidateBasic ACCEPTS there records exactly the Ethereum hash (the string every wrapping function writes), carries the signed original (hash, recoverable sender) and answers the key holder from GetSender; which envelopes are refused is not judged; on the model the transcribed acceptance rule satisfies this and the witness 'recorded hash compared as parsed bytes' is refuted. Sequences (EnvelopeOps): a state machine whose state is the projection of the live objects - the wrapped messages of 2-4 signed originals (drawn from the same case product, about half of them free), THE shared TxBuilder, the encoded envelopes and the decoded Cosmos transactions - and whose operations are build (MsgEthereumTx.BuildTx on the shared builder, whatever it held before), pack (several Ethereum messages in one envelope, summed fee and gas limit), encode (builder or decoded transaction), decode, lookup (UnwrapEthereumMsg for the hash of any original at any position, or a foreign hash) and get (AsTransaction.Hash, GetMsgs, Marshal/Unmarshal, TxType, GetSender, GetSigners, AsMessage, GetFee, GetGas, Cost, GetEffectiveFee, ValidateBasic on any message of any object). P: every operation has exactly its effect (a build leaves an envelope of exactly that message with exactly its fee and gas limit; what is decoded is what was encoded; a lookup returns the message with that hash iff the envelope carries it; a getter returns the figure of the original) and changes nothing else anywhere; after every step every message object records its own Ethereum hash, shows hash / sender / type / field digest / fee / gas / cost / effective fee of the original it carries and passes ValidateBasic, and every envelope's fee and gas limit are the sums over the originals it carries. Quick: exhaustive to depth 6 on two pools (5k states), 400 TLC behaviours of 12 operations + 200 random scenarios of 14 (8200 validated steps); thorough: depth 7 with all getters (42k states), 3000 + 2000 scenarios.",
   note="Fidelity is checked on the enumerated classes and seeded instances, not on all field values; the specification contributes the case analysis, the figures and the acceptance-rule transcription (diagnostic), it does not model the codecs. Transactions the code refuses at construction (values above 2^256-1) or whose envelope cannot be built after ValidateBasic refused them (fee above 2^256-1) are counted, not judged. Dynamic-fee transactions without a base fee have no effective price in the statement (the code panics there; logged). The receiving side is TxDecoder + GetMsgs + AsTransaction, not a full CheckTx. In the sequence machine the unsigned From field (written by GetSender, cleared by BuildTx) is not part of the projection, builder attributes BuildTx never sets (memo, timeout, fee payer, signatures) are not driven, multi-message envelopes are assembled by the harness with the builder's own setters, and pools hold only transactions ValidateBasic accepts; the mutation witnesses (Defects of EnvelopeOps) are not known deviations of the code, they show that P separates such machines. TLC, the Json community module, the BigNum override and go-ethereum's signer / hash as the reference for the original transaction are trusted.")


def _dedupe(cases):
    seen, out = set(), []
    for cs in cases:
        k = json.dumps(cs, sort_keys=True)
        if k not in seen:
            seen.add(k)
            out.append(cs)
    return out


def _emit_cases(wd, full):
    cfg = "Envelope_emit_full.cfg" if full else "Envelope_emit.cfg"
    r = tlc(wd, "Envelope.tla", cfg, workers=1, timeout=2400, name="emit")
    if not r.completed:
        raise Infra("case emission did not complete:\n" + r.out[-3000:])
    cases = _dedupe(r.printed("CASE"))
    if len(cases) != r.distinct - 1:
        raise Infra("TLC found %d cases but %d were printed" % (r.distinct - 1, len(cases)))
    return cases, r


def _shard_dir(wd, i):
    d = os.path.join(wd, "shard%03d" % i)
    os.makedirs(d)
    for f in glob.glob(os.path.join(wd, "*.tla")) + glob.glob(os.path.join(wd, "*.cfg")):
        shutil.copy(f, d)
    return d


def _validate(wd, trace="trace.ndjson", parallel=4, module="EnvelopeTrace.tla", cfg=TRACE_CFG, shard=SHARD,
              by_scenario=False):
    """Splits the trace into shards (one JVM each; by_scenario: only in front of a reset line) and merges the
    RESULT records."""
    path = os.path.join(wd, trace)
    shards, offset = [], 0
    with open(path) as fh:
        out, n, i = None, 0, 0
        for line in fh:
            if out is not None and n >= shard and (not by_scenario or '"ev":"reset"' in line):
                out.close()
                shards[-1][2] = n
                offset += n
                out, n, i = None, 0, i + 1
            if out is None:
                d = _shard_dir(wd, i)
                out = open(os.path.join(d, "trace.ndjson"), "w")
                shards.append([d, offset, 0])
            out.write(line)
            n += 1
        if out is not None:
            out.close()
            shards[-1][2] = n
            offset += n
    total = offset

    def one(s):
        try:
            res, r = validate_trace(s[0], module, cfg, timeout=2400)
        except Infra as e:
            # a JVM that died at start-up under memory pressure (several validators run side by side): once more
            if "no RESULT" not in str(e):
                raise
            log("trace validation of %s produced no result, running it once more" % os.path.basename(s[0]))
            res, r = validate_trace(s[0], module, cfg, timeout=2400)
        if res["consumed"] != s[2]:
            raise Infra("trace spec consumed %d of %d lines in %s" % (res["consumed"], s[2], s[0]))
        return res, r

    build_classes()
    with ThreadPoolExecutor(max_workers=parallel) as ex:
        results = list(ex.map(one, shards))
    merged = {"consumed": 0, "scenarios": 0, "viol": [], "div": [], "bad": [], "cnt": collections.Counter(), "wall": 0.0}
    for s, (res, r) in zip(shards, results):
        merged["consumed"] += res["consumed"]
        merged["scenarios"] += res.get("scenarios", 0)
        for v in res["viol"]:
            v["line"] += s[1]
            merged["viol"].append(v)
        for d in res["div"]:
            if "line" in d:
                d["line"] += s[1]
        merged["div"] += res["div"]
        merged["bad"] += res["bad"]
        merged["cnt"].update(res["cnt"])
        merged["wall"] += r.wall
        shutil.rmtree(s[0], ignore_errors=True)
    if merged["consumed"] != total:
        raise Infra("trace spec consumed %d of %d lines" % (merged["consumed"], total))
    merged["cnt"] = dict(merged["cnt"])
    return merged


def _sample(o):
    keep = {k: o[k] for k in ("scn", "src", "base", "exp", "wrap", "vbCls", "build", "fig", "fig2", "env")}
    keep["cls"] = o["cfg"]["cls"]
    keep["seed"] = o["cfg"]["seed"]
    for side in ("o", "a"):
        keep[side] = {k: o[side][k] for k in ("type", "hash", "sender", "nonce", "gas", "gasPrice", "tipCap", "feeCap",
                                             "value", "to", "dataLen", "access", "chainId", "v")}
    keep["msgHash"] = o["m"]["hash"]
    keep["msgHashAfter"] = o["m2"]["hash"]
    keep["getSender"] = o["m2"]["getSender"]
    return keep


def _replay_file(seed, line, sig):
    kind = "".join(ch if ch.isalnum() else "_" for ch in sig.split("|")[1])
    return save_replay("C18", "%s-scn%d-%s" % (seed, line["scn"], kind),
                       {"property": "C18", "driver": "envelope", "case": line["cfg"], "signature": sig})


def _run_cases(wd_name, cfgs):
    """Executes the given recorded cases (src, cls, seed) alone and returns the signatures they show."""
    wd = scratch(wd_name)
    with open(os.path.join(wd, "cases.json"), "w") as fh:
        json.dump({"cases": cfgs}, fh)
    hv(["envelope", "--cases", "cases.json", "--out", "trace.ndjson", "--workers", "2"], cwd=wd)
    res = _validate(wd, parallel=1)
    if res["bad"]:
        raise Infra("replay: harness/specification problem: %s" % res["bad"][:5])
    return res


def _ops_script(pool, steps, src="script", seed=None):
    cfg = {"src": src}
    if src != "random":
        cfg["pool"] = pool
    if seed is not None:
        cfg["seed"] = seed
    return {"cfg": cfg, "steps": [{"ev": st["ev"], "args": st["args"]} for st in steps]}


def _ops_validate(wd, parallel=4):
    return _validate(wd, parallel=parallel, module="EnvelopeOpsTrace.tla", cfg="EnvelopeOpsTrace.cfg", shard=OPS_SHARD,
                     by_scenario=True)


def _ops_scenarios(trace, need):
    """the recorded scenarios (cfg + executed steps) with the given numbers, as scripts that re-execute them alone"""
    got = collections.defaultdict(list)
    with open(trace) as fh:
        for line in fh:
            if '"scn":' not in line:
                continue
            o = json.loads(line)
            if o["scn"] in need:
                got[o["scn"]].append(o)
    out = {}
    for scn, lines in got.items():
        cfg = lines[0]["cfg"]
        out[scn] = _ops_script(cfg.get("pool"), lines[1:], src=cfg["src"], seed=cfg["seed"])
    return out


def _run_ops_scripts(wd_name, scripts):
    """Executes the given sequence scenarios alone and returns the validation result."""
    wd = scratch(wd_name)
    with open(os.path.join(wd, "scripts.json"), "w") as fh:
        json.dump({"scripts": scripts}, fh)
    hv(["envops", "--scripts", "scripts.json", "--out", "trace.ndjson", "--workers", "2"], cwd=wd)
    res = _ops_validate(wd, parallel=1)
    if res["bad"]:
        raise Infra("replay: harness/specification problem: %s" % res["bad"][:5])
    return res


def _ops_sample(o):
    keep = {k: o[k] for k in ("scn", "ev", "args", "ok", "err", "ret")}
    b = o["post"]["bld"]
    keep["builder_after"] = {"msgs": [m["h"] for m in b["msgs"]], "fee": b["fee"], "gas": b["gas"], "ext": b["ext"]}
    keep["decoded_after"] = [{"msgs": [m["h"] for m in d["msgs"]], "recorded": [m["rec"] for m in d["msgs"]],
                              "fee": d["fee"], "gas": d["gas"]} for d in o["post"]["dec"]]
    return keep


def _run_ops(c, quick):
    """The sequence machine: model checking, scripts and random scenarios on the real objects, trace validation.
    Returns (validation result, trace path)."""
    wd = scratch("C18-ops")
    # 1. P on the model: exhaustive for the intended machine; every mutation witness must be refuted by P
    cfg = "EnvelopeOps_intended.cfg" if quick else "EnvelopeOps_intended_thorough.cfg"
    r = tlc_exhaustive(wd, "EnvelopeOps.tla", cfg, workers=4, timeout=3000)
    c.add_tlc(cfg, r)
    refuted = {}
    for w in OPS_WITNESSES:
        cfg = "EnvelopeOps_witness_%s.cfg" % w
        r = tlc_exhaustive(wd, "EnvelopeOps.tla", cfg, must="fail", workers=1)
        c.add_tlc(cfg, r)
        refuted[w] = r.invariant_violated or ["action property"]
    # 2. spec -> code: simulated behaviours of the model (pool drawn from Envelope's case product) and seeded
    #    random scenarios (values outside the class grid) on the real builder / messages / decoded transactions
    nscripts = 400 if quick else 3000
    scripts, r = tlc_scripts(wd, "EnvelopeOps.tla", "EnvelopeOps_sim.cfg", nscripts, 13, c.seed, timeout=1800)
    if len(scripts) < nscripts // 2:
        raise Infra("too few sequence scripts generated: %d" % len(scripts))
    with open(os.path.join(wd, "scripts.json"), "w") as fh:
        json.dump({"scripts": [_ops_script(s["pool"], s["steps"]) for s in scripts]}, fh)
    nrandom = 200 if quick else 2000
    out, hv_wall = hv(["envops", "--scripts", "scripts.json", "--random", str(nrandom), "--steps", "14" if quick else "20",
                       "--seed", str(c.seed), "--out", "trace.ndjson", "--workers", "4" if quick else "8"], cwd=wd, timeout=6000)
    trace = os.path.join(wd, "trace.ndjson")
    # 3. code -> spec
    res = _ops_validate(wd, parallel=4)
    if res["consumed"] != count_lines(trace):
        raise Infra("sequence trace: consumed %d of %d lines" % (res["consumed"], count_lines(trace)))
    if res["scenarios"] != len(scripts) + nrandom:
        raise Infra("sequence trace: %d scenarios recorded for %d scripts" % (res["scenarios"], len(scripts) + nrandom))
    if res["bad"]:
        raise Infra("sequence harness/specification problem (not a verdict): %d, e.g. %s" % (len(res["bad"]), res["bad"][:5]))
    want = {"build": 0, "lookup": 0}
    with open(trace) as fh:
        for line in fh:
            if not any(want[k] < 1 for k in want):
                break
            o = json.loads(line)
            if o["ev"] == "build" and want["build"] < 1 and o["scn"] > 3 and len(o["post"]["dec"]) > 0:
                want["build"] += 1
                c.samples.insert(0, _ops_sample(o))
            elif o["ev"] == "lookup" and want["lookup"] < 1 and o["ok"] and o["args"]["env"] != "bld" \
                    and o["post"]["dec"][int(o["args"]["env"][1:]) - 1]["msgs"][0]["h"] != o["ret"]["h"]:
                want["lookup"] += 1
                c.samples.insert(0, _ops_sample(o))
    c.extra["sequences"] = {
        "scripts_from_tlc": len(scripts), "random_scenarios": nrandom, "trace_lines": res["consumed"],
        "tlc_counters": res["cnt"], "mutation_witnesses_refuted_by_P": refuted,
        "harness_wall_s": round(hv_wall, 1), "trace_validation_cpu_s": round(res["wall"], 1),
        "conformance_divergences": res["div"][:20], "conformance_divergence_count": len(res["div"]),
    }
    return res, trace


def _ops_floors(cnt, quick, scenarios):
    if cnt.get("skipped", 0) * 20 > scenarios:
        raise Infra("vacuous run: the code refused the pool of %d of %d sequence scenarios" % (cnt.get("skipped", 0), scenarios))
    floors = {"freeAfterPaying": 30, "lessGasAfterMore": 30, "oneAfterSeveral": 30, "decodesMulti": 30, "lookupsLater": 30,
              "lookupsAbsentMulti": 10, "lookupsFound": 100, "getsDecoded": 20, "encodes": 100, "packs": 50}
    for k, v in floors.items():
        if cnt.get(k, 0) < (v if quick else 8 * v):
            raise Infra("vacuous run: sequence counter %s = %s (floor %d)" % (k, cnt.get(k), v if quick else 8 * v))


def run(c):
    quick = c.tier == "quick"
    build_harness()
    wd = scratch("C18")

    # 1. the case space, enumerated exhaustively by TLC; on every case and every end-point valuation of its
    #    classes the derived-figure definitions of the property layer are proved mutually consistent
    cfg = "Envelope_cases.cfg" if quick else "Envelope_cases_full.cfg"
    r = tlc_exhaustive(wd, "Envelope.tla", cfg, workers=4, timeout=3000)
    c.add_tlc(cfg, r)
    # the envelope dimension is able to tell machines apart: an acceptance rule that parses the recorded hash and
    # compares bytes is refuted by P on the model
    r = tlc_exhaustive(wd, "Envelope.tla", "Envelope_witness_hashasbytes.cfg", must="fail", workers=1)
    c.add_tlc("Envelope_witness_hashasbytes.cfg", r)
    if "Inv_RecordedHashOfAccepted" not in (r.invariant_violated or []):
        raise Infra("the mutation witness HashComparedAsBytes was refuted by %s, not by Inv_RecordedHashOfAccepted" % r.invariant_violated)
    cases, r = _emit_cases(wd, not quick)
    c.add_tlc("Envelope_emit%s.cfg" % ("" if quick else "_full"), r)
    by_type = collections.Counter(cs["type"] for cs in cases)
    hand_cases = sum(1 for cs in cases if cs["rec"] != "canon" or cs["from"] != "empty")
    if hand_cases < 300:
        raise Infra("only %d hand-built envelopes among the enumerated cases" % hand_cases)
    if len(cases) < (5000 if quick else 300000) or min(by_type[t] for t in ("legacy", "accesslist", "dynamic")) < 1000:
        raise Infra("case space smaller than expected: %d %s" % (len(cases), dict(by_type)))
    with open(os.path.join(wd, "cases.json"), "w") as fh:
        json.dump({"cases": [{"src": "grid", "cls": cs} for cs in cases]}, fh)

    # 2. spec -> code: one real signed transaction per case through the real wrap/encode/decode/unwrap path,
    #    plus seeded random cases beyond the class grid
    nrandom = 2500 if quick else 30000
    out, hv_wall = hv(["envelope", "--cases", "cases.json", "--random", str(nrandom), "--seed", str(c.seed),
                       "--out", "trace.ndjson", "--workers", "4" if quick else "8"], cwd=wd, timeout=6000)
    trace = os.path.join(wd, "trace.ndjson")
    nlines = count_lines(trace)
    if nlines != len(cases) + nrandom:
        raise Infra("harness wrote %d lines for %d cases" % (nlines, len(cases) + nrandom))

    # 3. code -> spec: every recorded case validated by TLC against P (verdict) and M (diagnostic)
    res = _validate(wd, parallel=4)
    if res["bad"]:
        raise Infra("harness/specification problem (not a verdict): %d, e.g. %s" % (len(res["bad"]), res["bad"][:5]))

    # bookkeeping from the recorded outcomes (counts only; no verdict is derived here)
    want = {json.dumps(cs, sort_keys=True) for cs in cases}
    got = set()
    stat = collections.Counter()
    vbcls = collections.Counter()
    wrapcls = collections.Counter()
    figchecks = 0
    hand_samples = 0
    with open(trace) as fh:
        for line in fh:
            o = json.loads(line)
            t = o["cfg"]["cls"]["type"]
            if o["src"] == "grid":
                got.add(json.dumps(o["cfg"]["cls"], sort_keys=True))
            wrapcls[o["wrapCls"]] += 1
            if not o["wrap"]["ok"]:
                stat["refused_at_construction"] += 1
            else:
                vbcls[o["vbCls"]] += 1
                if o["unwrap"]["ok"]:
                    stat["roundtrip:" + t] += 1
                    stat["roundtrip_accepted" if o["vb"]["ok"] else "roundtrip_refused_by_validatebasic"] += 1
                    if o["vb"]["ok"]:
                        stat["accepted:" + t] += 1
                    if t == "dynamic" and o["base"] != "nil":
                        figchecks += 1
                else:
                    stat["envelope_not_built_after_validatebasic_refused" if not o["vb"]["ok"]
                         else "roundtrip_failed_on_accepted"] += 1
                if o["fig"]["effPrice"] == "panic":
                    stat["effective_price_undefined_no_base_fee"] += 1
            if len(c.samples) < 4 and o["unwrap"]["ok"] and o["scn"] % 997 == 1:
                c.samples.append(_sample(o))
            if o["h"]["run"] and o["h"]["stage"]["ok"]:
                k = "hand_built:%s:%s" % (o["cfg"]["cls"]["rec"], o["h"]["vbCls"])
                stat[k] += 1
                if stat[k] == 1 and o["cfg"]["cls"]["from"] != "garbage" and hand_samples < 4 \
                        and o["cfg"]["cls"]["rec"] in ("canon", "upper", "longer", "wrong"):
                    hand_samples += 1
                    c.samples.append({"scn": o["scn"], "src": o["src"], "cls": o["cfg"]["cls"], "seed": o["cfg"]["seed"],
                                      "original_hash": o["o"]["hash"], "signer": o["exp"], "hand_built": o["h"]})
    if got != want:
        raise Infra("recorded grid cases differ from the cases TLC emitted (%d vs %d)" % (len(got), len(want)))
    roundtrips = sum(v for k, v in stat.items() if k.startswith("roundtrip:"))
    c.traces = res["consumed"]
    c.extra.update({
        "cases_enumerated_by_tlc": len(cases), "cases_by_type": dict(by_type), "random_cases": nrandom,
        "hand_built_envelope_cases_enumerated": hand_cases,
        "trace_lines": res["consumed"], "tlc_counters": res["cnt"],
        "full_roundtrips_checked": roundtrips, "outcomes": dict(stat),
        "validatebasic_outcomes": dict(vbcls), "construction_outcomes": dict(wrapcls),
        "dynamic_effective_price_checks": figchecks,
        "harness_wall_s": round(hv_wall, 1), "trace_validation_cpu_s": round(res["wall"], 1),
        "conformance_divergences": res["div"][:20], "conformance_divergence_count": len(res["div"]),
    })
    # 3b. the same API in sequences on shared objects (EnvelopeOps)
    ops_res, ops_trace = _run_ops(c, quick)
    c.traces += ops_res["scenarios"]

    # 4. verdict: every signature is reproduced alone from its recorded case before it counts
    first = {}
    for v in sorted(res["viol"], key=lambda v: v["line"]):
        first.setdefault(sig_of(v), v)
    if first:
        need = {v["scn"] for v in first.values()}
        lines = {}
        with open(trace) as fh:
            for line in fh:
                o = json.loads(line)
                if o["scn"] in need:
                    lines[o["scn"]] = o
        scns = sorted(need)
        rres = _run_cases("C18-replay", [lines[s]["cfg"] for s in scns])
        shown = collections.defaultdict(set)
        for v in rres["viol"]:
            shown[scns[v["scn"] - 1]].add(sig_of(v))
        confirmed = []
        for s, v in first.items():
            path = _replay_file(c.seed, lines[v["scn"]], s)
            if s not in shown[v["scn"]]:
                raise Infra("signature %s did not reproduce from %s" % (s, path))
            c.replays[s] = path
            confirmed.append(v)
        c.add_violations(confirmed)
    ofirst = {}
    for v in sorted(ops_res["viol"], key=lambda v: v["line"]):
        ofirst.setdefault(sig_of(v), v)
    if ofirst:
        scns = sorted({v["scn"] for v in ofirst.values()})
        recorded = _ops_scenarios(ops_trace, set(scns))
        rres = _run_ops_scripts("C18-ops-replay", [recorded[s] for s in scns])
        shown = collections.defaultdict(set)
        for v in rres["viol"]:
            shown[scns[v["scn"] - 1]].add(sig_of(v))
        confirmed = []
        for s, v in ofirst.items():
            kind = "".join(ch if ch.isalnum() else "_" for ch in s.split("|")[1])
            path = save_replay("C18", "%s-ops-scn%d-%s-%s" % (c.seed, v["scn"], kind, hashlib.sha1(s.encode()).hexdigest()[:6]),
                               {"property": "C18", "driver": "envops", "script": recorded[v["scn"]], "signature": s})
            if s not in shown[v["scn"]]:
                raise Infra("signature %s did not reproduce from %s" % (s, path))
            c.replays[s] = path
            confirmed.append(v)
        c.add_violations(confirmed)
    # 5. non-vacuity floors (exit 2).  They are consulted only when nothing was found: a change that makes
    #    the code refuse everything is reported through the identities it breaks, not hidden behind a floor
    if not c.viol:
        floor = 4000 if quick else 200000
        if roundtrips < floor or res["cnt"].get("roundtrips", 0) != roundtrips:
            raise Infra("vacuous run: %d full round trips (TLC counted %s)" % (roundtrips, res["cnt"].get("roundtrips")))
        for t in ("legacy", "accesslist", "dynamic"):
            if stat["accepted:" + t] < (300 if quick else 10000):
                raise Infra("vacuous run: only %d accepted %s transactions made the round trip" % (stat["accepted:" + t], t))
        if stat["refused_at_construction"] < 5 or figchecks < (500 if quick else 50000):
            raise Infra("vacuous run: refused=%d dynamic effective-price checks=%d" % (stat["refused_at_construction"], figchecks))
        hc = res["cnt"]
        if hc.get("handBuilt", 0) < 400 or hc.get("handAccepted", 0) < 50 or hc.get("handRefusedDenotingSame", 0) < 100:
            raise Infra("vacuous run: hand-built envelopes on the receiving side %s, accepted %s, refused for a spelling that "
                        "denotes the right bytes %s" % (hc.get("handBuilt"), hc.get("handAccepted"), hc.get("handRefusedDenotingSame")))
        _ops_floors(ops_res["cnt"], quick, ops_res["scenarios"])
    c.assumptions += [
        "TLC 1.8.0, the Json community module and the BigNum Java override (java/BigNum.java) are trusted",
        "go-ethereum's signer, hash and accessors are the reference for the ORIGINAL transaction; its Cost / AsMessage figures are cross-checked against TLC's (a mismatch stops the run as an infrastructure problem)",
        "hand-built envelopes: the sender's builder is the node's TxConfig builder (SetMsgs / SetFeeAmount / SetGasLimit / extension option), the receiving side is TxDecoder + GetMsgs + ValidateBasic + AsTransaction + GetSender; go-ethereum's HexToHash serves only to bind a spelling to its class (which bytes a lenient parser reads), never in a verdict; the deprecated Size_ field is not driven",
        "the round trip is FromEthereumTx -> BuildTx(encoding.MakeConfig(app.ModuleBasics).TxConfig builder) -> TxEncoder -> TxDecoder -> GetMsgs -> AsTransaction; the ante handler is not run",
        "codec internals (RLP, protobuf, Any) are observed before/after, not modelled; fidelity is established for the enumerated classes and the seeded instances inside them",
        "cases refused at construction or whose envelope cannot be built after ValidateBasic refused them are counted, not judged",
        "sequences: the projection (hash, recorded hash, type, sender, field digest, fee, gas, cost, effective fee, ValidateBasic of every message object; fee, gas limit, extension options of every envelope) is read after each call through read-only calls; the unsigned From field (filled by GetSender, cleared by BuildTx) is not an observable of the statement and is left out; multi-message envelopes are put together by the harness with the builder's own setters (summed fee and gas limit, as the ante handler requires)",
    ]


def replay(path, quiet=False):
    """re-executes one saved case on the real code and returns the signatures it shows"""
    build_harness()
    obj = json.load(open(path))
    if obj.get("driver") == "envops":
        res = _run_ops_scripts("C18-ops-replay1", [obj["script"]])
    else:
        res = _run_cases("C18-replay1", [obj["case"]])
    sigs = sorted({sig_of(v) for v in res["viol"]})
    if not quiet:
        for s in sigs:
            log("replay shows: " + s)
    return sigs
