"""C12 UC DAO ledger: shares always add up (specs/Ucdao.tla, harness/ucdao.go)."""
import json
import os
from vlib import *

TRACE_CFG = "UcdaoTrace.cfg"

MANIFEST_ENTRY = dict(engine="Ucdao", design="§4 C12",
   technique="TLA+ spec Ucdao.tla: TLC exhaustive model checking of the ledger invariants and step effects; TLC-simulated behaviours replayed on the real x/ucdao message server; every recorded step validated by TLC against the property layer (trace validation)",
   text="Exhaustive TLC model checking of the DAO ledger design (all sequences of fund/transfer messages over 3 accounts, 3 denominations, small amounts, including owner=newOwner, refused denominations and the disabled module; a second configuration interleaves bank MsgSend / MsgMultiSend whose recipients include the DAO module account, with the hypothetical unblocked module account as counterexample witness) proves the ledger invariants and exact step effects on the model; the binding to the code is two-way: TLC-generated behaviours are executed on the real message server and every step of those and of seeded random large-amount scenarios is checked by TLC against the effect functions and invariants of the property layer.",
   note="Bounded by the constants in specs/Ucdao_*.cfg; messages run through MsgServiceRouter handlers on a cached context (baseapp.runMsgs semantics) rather than full DeliverTx; TLC, the Json community module and the BigNum override are trusted.")



def _scripts_to_file(scripts, path):
    with open(path, "w") as fh:
        json.dump([{"steps": [{"ev": st["ev"], "args": st["args"]} for st in s]} for s in scripts], fh)


def _validate(c, wd, count=True):
    res, r = validate_trace(wd, "UcdaoTrace.tla", TRACE_CFG)
    n = count_lines(os.path.join(wd, "trace.ndjson"))
    if res["consumed"] != n:
        raise Infra("trace spec consumed %d of %d lines" % (res["consumed"], n))
    return res


def run(c):
    quick = c.tier == "quick"
    build_harness()
    wd = scratch("C12")

    # 1. the design: exhaustive model checking of P on the intended machine, and of the
    #    compensated invariants on the machine with the (formerly) known defect, whose
    #    strict variant must produce a counterexample (non-vacuity of the invariants)
    cfg = "Ucdao_intended.cfg" if quick else "Ucdao_intended_thorough.cfg"
    r = tlc_exhaustive(wd, "Ucdao.tla", cfg, workers=8, timeout=3000)
    c.add_tlc(cfg, r)
    # the DAO messages interleaved with messages of another module that moves coins (bank send / multi-send
    # whose recipients include the DAO module account); the hypothetical chain on which the module account is
    # not on the blocked list must produce a counterexample (non-vacuity of P for that class)
    cfg = "Ucdao_env.cfg" if quick else "Ucdao_env_thorough.cfg"
    r = tlc_exhaustive(wd, "Ucdao.tla", cfg, workers=8, timeout=3000)
    c.add_tlc(cfg, r)
    r = tlc_exhaustive(wd, "Ucdao.tla", "Ucdao_env_witness.cfg", must="fail", workers=4)
    c.add_tlc("Ucdao_env_witness.cfg", r)
    r = tlc_exhaustive(wd, "Ucdao.tla", "Ucdao_defect_comp.cfg", workers=4)
    c.add_tlc("Ucdao_defect_comp.cfg", r)
    r = tlc_exhaustive(wd, "Ucdao.tla", "Ucdao_defect_strict.cfg", must="fail", workers=4)
    c.add_tlc("Ucdao_defect_strict.cfg", r)

    # 2. spec -> code: behaviours of the model replayed on the real message server
    nscripts = 150 if quick else 3000
    scripts, r = tlc_scripts(wd, "Ucdao.tla", "Ucdao_sim.cfg", nscripts, 8, c.seed)
    if len(scripts) < nscripts // 2:
        raise Infra("too few scripts generated: %d" % len(scripts))
    _scripts_to_file(scripts, os.path.join(wd, "scripts.json"))
    nrandom = 100 if quick else 3000
    out, _ = hv(["ucdao", "--scripts", "scripts.json", "--random", str(nrandom), "--steps",
                 "14" if quick else "30", "--seed", str(c.seed), "--out", "trace.ndjson"], cwd=wd)

    # 3. code -> spec: every recorded step checked against P (verdict) and M (diagnostic)
    res = _validate(c, wd)
    c.traces = res["scenarios"]
    c.extra["trace_lines"] = res["consumed"]
    c.extra["scripts_replayed"] = len(scripts)
    c.extra["random_scenarios"] = nrandom
    c.extra["conformance_divergences"] = res["div"][:20]
    c.extra["conformance_divergence_count"] = len(res["div"])
    accepted = 0
    classes = set()
    foreign = {}         # (ev, some recipient is the DAO module account, accepted) -> count
    ratio_frac = {"exact": 0, "below_half": 0, "half_or_more": 0}   # accepted ratio transfers by the fractional part of balance x ratio
    prev = None
    with open(os.path.join(wd, "trace.ndjson")) as fh:
        for i, line in enumerate(fh):
            o = json.loads(line)
            if o["ev"] != "reset":
                accepted += 1 if o["ok"] else 0
                a = o["args"]
                classes.add((o["ev"], o["ok"], a.get("owner") == a.get("newOwner") if "owner" in a else None))
                if o["ev"] in ("bank_send", "bank_multisend"):
                    tos = [a["to"]] if o["ev"] == "bank_send" else [x["to"] for x in a["outs"]]
                    k = "%s,%s,%s" % (o["ev"], "to=dao" if "dao" in tos else "to=acct", "accepted" if o["ok"] else "refused")
                    foreign[k] = foreign.get(k, 0) + 1
                if o["ev"] == "transfer_ratio" and o["ok"] and a["owner"] != a["newOwner"]:
                    num, den = int(a["ratio"][0]), int(a["ratio"][1])
                    for bal in prev["share"][a["owner"]].values():
                        rem = int(bal) * num % den
                        ratio_frac["exact" if rem == 0 else "below_half" if 2 * rem < den else "half_or_more"] += 1
            prev = o["post"]
            if i in (1, 2, 3) or (o["ev"] == "transfer_ratio" and o["ok"] and len(c.samples) < 5):
                c.samples.append({k: o[k] for k in ("ev", "args", "ok", "err") if k in o} | {"post_share": o["post"]["share"], "post_total": o["post"]["total"]})
    c.extra["accepted_steps"] = accepted
    c.extra["foreign_messages"] = foreign
    c.extra["ratio_transfers_by_fraction"] = ratio_frac
    for k in ("bank_send,to=dao,refused", "bank_multisend,to=dao,refused", "bank_send,to=acct,accepted", "bank_multisend,to=acct,accepted"):
        if foreign.get(k, 0) < 5:
            raise Infra("vacuous run: foreign message class %s exercised %d times" % (k, foreign.get(k, 0)))
    if ratio_frac["half_or_more"] < 10 or ratio_frac["below_half"] < 10:
        raise Infra("vacuous run: ratio transfers with a fractional product: %r" % ratio_frac)
    c.extra["step_classes_exercised"] = len(classes)
    if accepted < 50:
        raise Infra("vacuous run: only %d accepted steps" % accepted)
    if not any(k[2] for k in classes if k[1]):
        raise Infra("vacuous run: no successful owner=newOwner transfer was exercised")

    # 4. verdict: every signature is reproduced alone from its recorded scenario
    def replay_for(v):
        lines = scenario_lines(os.path.join(wd, "trace.ndjson"), v["scn"])
        script = {"cfg": lines[0]["cfg"], "steps": [{"ev": l["ev"], "args": l["args"]} for l in lines[1:]]}
        return save_replay("C12", "%s-scn%d" % (c.seed, v["scn"]), {"property": "C12", "driver": "ucdao", "script": script, "signature": sig_of(v)})

    first = {}
    for v in sorted(res["viol"], key=lambda v: v["line"]):
        first.setdefault(sig_of(v), v)
    confirmed = []
    for s, v in first.items():
        path = replay_for(v)
        if s in replay(path, quiet=True):
            confirmed.append(v)
            c.replays[s] = path
        else:
            raise Infra("signature %s did not reproduce from %s" % (s, path))
    c.add_violations(confirmed)
    c.assumptions += [
        "a transfer by ratio states the amount ratio x balance; P reads 'exactly' over whole base units as: never more than ratio x balance and less than one unit short of it",
        "of the ways coins can reach an address only bank MsgSend and MsgMultiSend are interleaved with the DAO messages (not IBC receive, EVM value transfer, vesting or erc20 conversion)",
        "TLC 1.8.0 and the BigNum Java override (java/BigNum.java) are trusted",
        "the projection in harness/ucdao.go reads the real stores through keeper getters and the Holders query",
        "messages are executed through MsgServiceRouter handlers on a cached context (as baseapp.runMsgs does), not through full DeliverTx",
        "exhaustive model checking is bounded by the constants in specs/Ucdao_*.cfg",
    ]


def replay(path, quiet=False):
    """re-executes one saved scenario on the real code and returns the signatures it shows"""
    build_harness()
    wd = scratch("C12-replay")
    obj = json.load(open(path))
    with open(os.path.join(wd, "scripts.json"), "w") as fh:
        json.dump([obj["script"]], fh)
    hv(["ucdao", "--scripts", "scripts.json", "--out", "trace.ndjson"], cwd=wd)
    res, _ = validate_trace(wd, "UcdaoTrace.tla", TRACE_CFG)
    sigs = sorted({sig_of(v) for v in res["viol"]})
    if not quiet:
        for s in sigs:
            log("replay shows: " + s)
    return sigs
