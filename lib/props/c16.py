"""C16 A precompile call has exactly the effect of the native message."""
import json
import os
from vlib import *

MANIFEST_ENTRY = dict(engine="PrecompileEq", design="§4 C16",
    technique="TLA+ spec PrecompileEq.tla enumerates exhaustively with TLC (i) the case space: state kind (delegation / withdraw-address / vesting / operator states, the life cycle of the target validator: empty, empty but still bonded, jailed, unbonding, unbonded, and a state with several redelegations, slashes and IBC vouchers) x method x argument vector (validator class, amount class, creation height, redelegation destination, and for ICS-20 both timeouts, memo, receiver, port/channel, denomination) and (ii) the space of walks over the paginated read-only methods (selector x limit x countTotal x reverse x continuation by key / by offset); each case is executed twice on CacheContext forks of the same real state (native message via the message router; precompile via x/evm ApplyMessage as the owner), each walk twice on the same state (native querier; precompile), each following its own continuation; TLC trace spec PrecompileEqTrace.tla compares acceptance and every projected Cosmos field of the two forks, the walks page by page, and the remaining read-only methods against the native queriers",
    text="Differential check driven and decided by the specification: the native SDK message on a fork of the same state is the reference (the specification deliberately does not re-model staking validity), TLC enumerates all cases of the bounded space and validates every recorded pair: same accept/reject, identical delegations, unbondings, redelegations, rewards, withdraw addresses, commissions, grants, validators, balances and supply in every denomination, escrow and the IBC packet commitments; staking, distribution and bank query methods equal to the native queriers in every state (also after state-changing calls); every paginated query walked to exhaustion with page sizes 1, 2 and default, with and without countTotal, forwards and backwards, by key and by offset.",
    note="The spec supplies scenario space and comparator, not an independent model of SDK staking rules; ICS-20 runs over a loopback channel written into the store (localhost client: the receiving side's height and time are the chain's own); the precompile is called with zero gas price through ApplyMessage (no ante handler), by an EOA owner; bounded case space; the distribution precompile's paginated query (validatorSlashes) is walked although the statement's read-only clause names staking and bank only.",
    category="exploration")


def run(c):
    c.level = "exploration"
    build_harness()
    wd = scratch("C16")
    r = tlc_exhaustive(wd, "PrecompileEq.tla", "PrecompileEq.cfg", workers=2)
    c.add_tlc("PrecompileEq.cfg", r)
    cases = r.printed("SCRIPT")
    cases.sort(key=lambda s: json.dumps(s, sort_keys=True))
    total = len(cases)
    walks0 = sorted(r.printed("WALK"), key=lambda s: json.dumps(s, sort_keys=True))
    # (both tiers run the whole space: it costs seconds)
    cases.sort(key=lambda s: (s["state"], json.dumps(s, sort_keys=True)))
    states = sorted({s["state"] for s in cases})
    # every walk of the specification's space is run in every state
    walks = [dict(w, state=st) for st in states for w in walks0]
    with open(os.path.join(wd, "cases.json"), "w") as fh:
        json.dump(cases, fh)
    with open(os.path.join(wd, "walks.json"), "w") as fh:
        json.dump(walks, fh)
    hv(["pceq", "--cases", "cases.json", "--walks", "walks.json", "--seed", str(c.seed), "--out", "trace.ndjson"], cwd=wd)
    res, _ = validate_trace(wd, "PrecompileEqTrace.tla", "PrecompileEqTrace.cfg")
    n = count_lines(os.path.join(wd, "trace.ndjson"))
    if res["consumed"] != n:
        raise Infra("trace spec consumed %d of %d lines" % (res["consumed"], n))
    lines = [json.loads(l) for l in open(os.path.join(wd, "trace.ndjson"))]
    # non-vacuity: a fair share of the cases succeeds on both forks (most argument combinations of ICS-20 are invalid on
    # purpose), and so does at least one case of every method that was run
    okm = {}
    for o in lines:
        if o["ev"] == "case":
            okm.setdefault(o["case"]["m"], 0)
            okm[o["case"]["m"]] += 1 if o["native"]["ok"] and o["precompile"]["ok"] else 0
    if res["both_ok"] < len(cases) // 20 or (len(cases) > 500 and min(okm.values()) == 0):
        raise Infra("vacuous run: only %d of %d cases succeeded on both forks (per method: %s)" % (res["both_ok"], len(cases), okm))
    if res["walks"] != len(walks) or res["walks_multi"] < len(walks) // 10:
        raise Infra("vacuous run: %d of %d walks validated, %d with more than one page" % (res["walks"], len(walks), res["walks_multi"]))
    for o in lines:
        if o["ev"] == "case" and o["native"]["ok"] and len(c.samples) < 3:
            c.samples.append({"case": o["case"], "amount": o["amount"], "native_ok": True, "precompile_ok": o["precompile"]["ok"],
                              "native_deleg": o["native"]["post"]["deleg"]["S"], "precompile_deleg": o["precompile"].get("post", {}).get("deleg", {}).get("S")})
    c.traces = len(cases)
    c.extra.update({"evaluations": len(cases), "distinct_nontrivial": res["both_ok"], "case_space": total,
                    "queries_compared": res["queries"], "exhaustive": len(cases) == total, "both_ok_per_method": okm,
                    "walk_space": len(walks0), "walks_run": len(walks), "walks_with_several_pages": res["walks_multi"], "chain_states": states,
                    "rule": "one evaluation = one case of the TLC-enumerated space executed as native message and as precompile call on forks of the same state; non-trivial = both executions succeeded (effects compared field by field); the rest compare accept/reject only; one walk = one page-request pattern of the TLC-enumerated space followed to exhaustion natively and through the precompile in one state"})
    mine = {}
    for v in sorted(res["viol"], key=lambda v: v["line"]):
        mine.setdefault(sig_of(v), v)
    known = {k["signature"] for k in load_known() if k["property"] == "C16" and k.get("status", "known") == "known"}
    # every new signature is re-executed from its saved scenario before it counts.  A case or a walk runs on its own
    # fork of the state it names, independent of whatever else the file holds: the new ones are re-executed together in
    # one run; a query comparison after a state-changing case is re-executed alone.
    batch = {"property": "C16", "driver": "pceq", "seed": c.seed, "cases": [], "walks": []}
    pending = set()
    for s, v in mine.items():
        o = lines[v["line"] - 1]
        alone = False
        if o["ev"] == "case":
            path = save_replay("C16", "%s-l%d" % (c.seed, v["line"]), {"property": "C16", "driver": "pceq", "signature": s, "seed": c.seed, "cases": [o["case"]]})
        elif o["ev"] == "walk":
            path = save_replay("C16", "%s-l%d" % (c.seed, v["line"]), {"property": "C16", "driver": "pceq", "signature": s, "seed": c.seed, "cases": [], "walks": [o["walk"]]})
        else:
            # queries are compared when a state is first built (and after some state-changing cases)
            alone = True
            st0 = o["state"].split("+")[0]
            prev = [x["case"] for x in lines[:v["line"]] if x["ev"] == "case" and x["case"]["state"] == st0][-1:] if "+" in o["state"] else []
            path = save_replay("C16", "%s-l%d" % (c.seed, v["line"]), {"property": "C16", "driver": "pceq", "signature": s, "seed": c.seed,
                               "cases": prev or [{"state": st0, "m": "setWithdrawAddress", "val": "V1", "amt": "0", "height": "ok", "to": "T"}]})
        c.replays[s] = path
        if s in known:
            continue
        if alone:
            if s not in replay(path, quiet=True):
                raise Infra("signature %s did not reproduce from %s" % (s, path))
        else:
            pending.add(s)
            batch["cases" if o["ev"] == "case" else "walks"].append(o[o["ev"]])
    if pending:
        path = save_replay("C16", "%s-new" % c.seed, batch)
        missing = pending - set(replay(path, quiet=True))
        if missing:
            raise Infra("signatures %s did not reproduce from %s" % (sorted(missing)[:5], path))
    c.add_violations(mine.values())
    c.assumptions += ["the native message executed on a fork of the same state is the reference semantics",
                      "harness/pceq.go projections (shared with harness/evmc.go) are trusted; TLC and the Json module are trusted"]


def replay(path, quiet=False):
    build_harness()
    wd = scratch("C16-replay")
    obj = json.load(open(path))
    with open(os.path.join(wd, "cases.json"), "w") as fh:
        json.dump(obj["cases"], fh)
    with open(os.path.join(wd, "walks.json"), "w") as fh:
        json.dump(obj.get("walks", []), fh)
    hv(["pceq", "--cases", "cases.json", "--walks", "walks.json", "--seed", str(obj.get("seed", 1)), "--out", "trace.ndjson"], cwd=wd)
    res, _ = validate_trace(wd, "PrecompileEqTrace.tla", "PrecompileEqTrace.cfg")
    sigs = sorted({sig_of(v) for v in res["viol"]})
    if not quiet:
        for s in sigs:
            log("replay shows: " + s)
    return sigs
