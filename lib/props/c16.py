"""C16 A precompile call has exactly the effect of the native message."""
import json
import os
import random
from vlib import *

MANIFEST_ENTRY = dict(engine="PrecompileEq", design="§4 C16",
    technique="TLA+ spec PrecompileEq.tla enumerates the case space (state kind x method x validator class x amount class x creation height) exhaustively with TLC; each case is executed twice on CacheContext forks of the same real state (native message via the message router; precompile via x/evm ApplyMessage as the owner); TLC trace spec PrecompileEqTrace.tla compares acceptance and every projected Cosmos field of the two forks, and the read-only precompile methods against the native queriers",
    text="Differential check driven and decided by the specification: the native SDK message on a fork of the same state is the reference (the specification deliberately does not re-model staking validity), TLC enumerates all cases of the bounded space and validates every recorded pair: same accept/reject, identical delegations, unbondings, rewards, withdraw addresses, commissions, grants, balances and supply; staking and bank query methods equal to the native queriers in several states (also after state-changing calls).",
    note="The spec supplies scenario space and comparator, not an independent model of SDK staking rules; ICS-20 is not driven (needs an IBC channel); the precompile is called with zero gas price through ApplyMessage (no ante handler), by an EOA owner; bounded case space.",
    category="exploration")


def run(c):
    c.level = "exploration"
    quick = c.tier == "quick"
    build_harness()
    wd = scratch("C16")
    r = tlc_exhaustive(wd, "PrecompileEq.tla", "PrecompileEq.cfg", workers=2)
    c.add_tlc("PrecompileEq.cfg", r)
    cases = r.printed("SCRIPT")
    cases.sort(key=lambda s: json.dumps(s, sort_keys=True))
    total = len(cases)
    if quick and total > 1000:
        rnd = random.Random(c.seed)
        cases = sorted(rnd.sample(cases, 260), key=lambda s: (s["state"], json.dumps(s, sort_keys=True)))
    else:
        cases.sort(key=lambda s: (s["state"], json.dumps(s, sort_keys=True)))
    with open(os.path.join(wd, "cases.json"), "w") as fh:
        json.dump(cases, fh)
    hv(["pceq", "--cases", "cases.json", "--seed", str(c.seed), "--out", "trace.ndjson"], cwd=wd)
    res, _ = validate_trace(wd, "PrecompileEqTrace.tla", "PrecompileEqTrace.cfg")
    n = count_lines(os.path.join(wd, "trace.ndjson"))
    if res["consumed"] != n:
        raise Infra("trace spec consumed %d of %d lines" % (res["consumed"], n))
    if res["both_ok"] < len(cases) // 10:
        raise Infra("vacuous run: only %d of %d cases succeeded on both forks" % (res["both_ok"], len(cases)))
    lines = [json.loads(l) for l in open(os.path.join(wd, "trace.ndjson"))]
    for o in lines:
        if o["ev"] == "case" and o["native"]["ok"] and len(c.samples) < 3:
            c.samples.append({"case": o["case"], "amount": o["amount"], "native_ok": True, "precompile_ok": o["precompile"]["ok"],
                              "native_deleg": o["native"]["post"]["deleg"]["S"], "precompile_deleg": o["precompile"]["post"]["deleg"]["S"]})
    c.traces = len(cases)
    c.extra.update({"evaluations": len(cases), "distinct_nontrivial": res["both_ok"], "case_space": total,
                    "queries_compared": res["queries"], "exhaustive": len(cases) == total,
                    "rule": "one evaluation = one case of the TLC-enumerated space executed as native message and as precompile call on forks of the same state; non-trivial = both executions succeeded (effects compared field by field); the rest compare accept/reject only"})
    mine = {}
    for v in sorted(res["viol"], key=lambda v: v["line"]):
        mine.setdefault(sig_of(v), v)
    known = {k["signature"] for k in load_known() if k["property"] == "C16" and k.get("status", "known") == "known"}
    for s, v in mine.items():
        o = lines[v["line"] - 1]
        if o["ev"] == "case":
            path = save_replay("C16", "%s-l%d" % (c.seed, v["line"]), {"property": "C16", "driver": "pceq", "signature": s, "seed": c.seed, "cases": [o["case"]]})
        else:
            # queries are compared when a state is first built (and after some state-changing cases)
            st0 = o["state"].split("+")[0]
            prev = [x["case"] for x in lines[:v["line"]] if x["ev"] == "case" and x["case"]["state"] == st0][-1:] if "+" in o["state"] else []
            path = save_replay("C16", "%s-l%d" % (c.seed, v["line"]), {"property": "C16", "driver": "pceq", "signature": s, "seed": c.seed,
                               "cases": prev or [{"state": st0, "m": "setWithdrawAddress", "val": "V1", "amt": "0", "height": "ok", "to": "T"}]})
        c.replays[s] = path
        if s not in known and s not in replay(path, quiet=True):
            raise Infra("signature %s did not reproduce from %s" % (s, path))
    c.add_violations(mine.values())
    c.assumptions += ["the native message executed on a fork of the same state is the reference semantics",
                      "harness/pceq.go projections (shared with harness/evmc.go) are trusted; TLC and the Json module are trusted"]


def replay(path, quiet=False):
    build_harness()
    wd = scratch("C16-replay")
    obj = json.load(open(path))
    with open(os.path.join(wd, "cases.json"), "w") as fh:
        json.dump(obj["cases"], fh)
    hv(["pceq", "--cases", "cases.json", "--seed", str(obj.get("seed", 1)), "--out", "trace.ndjson"], cwd=wd)
    res, _ = validate_trace(wd, "PrecompileEqTrace.tla", "PrecompileEqTrace.cfg")
    sigs = sorted({sig_of(v) for v in res["viol"]})
    if not quiet:
        for s in sigs:
            log("replay shows: " + s)
    return sigs
