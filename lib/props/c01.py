"""C01 Deterministic state machine: replicas agree on every block."""
import chainrun
from vlib import *

MANIFEST_ENTRY = dict(engine="Chain", design="§4 C01",
    technique="TLA+ spec Chain.tla (replicated state machine with process-local memory; TLC exhaustive: agreement, local-action stuttering, named defect machines must fail) + ChainGen.tla scenario space; TLC-simulated block histories executed by independently constructed replica OS processes through real ABCI; commit records validated by TLC trace spec ChainTrace.tla",
    text="TLC proves on the model that agreement follows when block execution is a function of the database and the block input only, and that each named way of breaking this (memory read by execution, CheckTx leaking into committed state, unpersisted derived state) is caught by the invariants. The binding to the code: block histories simulated from the scenario-space specification (all module alphabets mixed, absent validators, double-sign evidence, failing transactions) are run through InitChain/BeginBlock/DeliverTx/EndBlock/Commit of the real application in separate OS processes that are constructed differently (extra discarded app instances, different GOMAXPROCS, replica-local CheckTx/query/simulate/export actions in between); every commit record (app hash, per-transaction code/gas/data/events, validator and consensus-parameter updates) is compared by the trace specification.",
    note="Same machine, OS and Go toolchain for all replicas; histories are bounded simulated samples, not exhaustive; MemDB backend.")


def run(c):
    quick = c.tier == "quick"
    chainrun.run_family(c, "C01", "C01", nscen=24 if quick else 800, maxlen=15 if quick else 29,
                        followers=2)


def replay(path, quiet=False):
    sigs = [s for s in chainrun.replay_file(path, "C01") if s.startswith("C01|")]
    if not quiet:
        for s in sigs:
            log("replay shows: " + s)
    return sigs
