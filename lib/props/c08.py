"""C08 Locked and unvested coins cannot leave a vesting account
(specs/VestingLock.tla on top of specs/Schedule.tla, harness/vestinglock.go)."""
import collections
import json
import os
from vlib import *

TRACE_CFG = "VestingLockTrace.cfg"

MANIFEST_ENTRY = dict(engine="VestingLock", design="§4 C08",
   technique="TLA+ spec VestingLock.tla (EXTENDS Schedule.tla): TLC exhaustive model checking of the lock invariant and of every clause of the property on the as-built machine over all small lockup/vesting schedules and action sequences; TLC-simulated histories and seeded random histories executed on a real ABCI node through DeliverTx over every debit and delegation path; every recorded step validated by TLC against a locked amount the specification computes itself from the logged schedule",
   text="The locked amount max(original - unlockedVested - trackedDelegated, unvested) is computed by the TLA+ specification from the schedule the chain stores (never by the code's LockedCoins). TLC proves on the model that no sequence of debit attempts (bank send/multi-send, ERC20-wrapped send, EVM value and contract-internal transfer, DAO funding, governance deposit, coin conversion, liquidation, fees on both routes and through a fee grant, authz-exec variants) interleaved with delegations over every entry point (message, authz, staking precompile as EOA and through a contract grant, create-validator, convert-into-vesting with stake), undelegation, unbonding completion, slashing, clawback and merged grants takes a balance below the lock or delegates unvested coins. The binding is two-way: TLC-drawn histories and seeded random histories run on a real chain (ante handlers, fee deduction, eth vesting ante check included), with amounts placed exactly at, one above and far above what the code considers spendable and block times placed on, just before and just after every release, and TLC judges every recorded transaction.",
   note="IBC transfer and the ICS-20 precompile are not driven (no channel in the single-chain harness). Exhaustive bounds are the constants of specs/VestingLock_*.cfg; simulated and random histories are samples. A transaction that takes nothing out of the account is not judged against the lock (a merged grant after a slash re-bases the tracked delegation); the literal invariant is reported as a diagnostic. TLC, the Json community module and the BigNum override are trusted.")

DEBIT = ["send", "send_erc20", "multisend", "dao_fund", "gov_deposit", "convert_coin", "fee_cosmos", "fee_eth", "fee_grant",
         "eth_value", "eth_internal", "liquidate", "exec_send", "exec_dao_fund", "exec_gov_deposit", "exec_convert_coin"]
DELEG = ["delegate", "exec_delegate", "pc_delegate", "pc_delegate_contract", "create_validator", "exec_create_validator",
         "pc_create_validator", "pc_create_validator_contract", "convert_into_stake"]
OTHER = ["undelegate", "clawback", "merge", "convert_into"]
INCOMING = ["fund_extra", "in_send_pair", "in_multisend", "in_eth", "in_convert_coin", "in_convert_erc20"]   # third parties pay into the account
CONVERT = ["convert_back", "exec_convert_back"]   # MsgConvertVestingAccount, by the account and through authz
REBOND = ["cancel_unbond", "exec_cancel_unbond", "pc_cancel_unbond"]   # driven, no floor: they cannot take coins from the account


def _convert(s, seed, fees):
    """a TLC-drawn behaviour -> a harness script (amounts stay in model units, the harness scales them)"""
    init = s["init"]
    extra = int(init["bank"]["aISLM"]) - int(init["orig"]["aISLM"])
    cfg = {"seed": seed, "fees": fees,
           "init": {"startOff": 0, "lockup": init["lockup"], "vesting": init["vesting"], "extra": str(extra),
                    "grants": bool(init["authz"]), "code": bool(init["code"])}}
    steps, now = [], 0
    for h in s["steps"]:
        ev, a = h["ev"], h["args"]
        if ev == "tick":
            steps.append({"ev": "tick", "args": {"dt": a["dt"]}})
            now += a["dt"]
        elif ev == "slash":
            steps.append({"ev": "slash", "args": {"how": "-"}})
        else:
            args = {"how": a["how"], "amt": a["amt"], "deleg": a["deleg"]}
            if "at" in a:
                args["at"] = a["at"]
            if ev in ("fee_cosmos", "fee_eth") and a["how"] == "-":
                args["amt"] = a["fee"]
            if "grant" in a:
                g = a["grant"]
                args["grant"] = {"startOff": g["start"] - now, "lockup": g["lockup"], "vesting": g["vesting"]}
            steps.append({"ev": ev, "args": args})
    return {"cfg": cfg, "steps": steps}


def _validate(wd):
    res, r = validate_trace(wd, "VestingLockTrace.tla", TRACE_CFG, timeout=3000)
    n = count_lines(os.path.join(wd, "trace.ndjson"))
    if res["consumed"] != n:
        raise Infra("trace spec consumed %d of %d lines" % (res["consumed"], n))
    return res


def _round(c, wd, scripts, nrandom, seed, counts, samples):
    with open(os.path.join(wd, "scripts.json"), "w") as fh:
        json.dump(scripts, fh)
    hv(["vestinglock", "--scripts", "scripts.json", "--random", str(nrandom), "--seed", str(seed),
        "--out", "trace.ndjson", "--dump", "used.json"], cwd=wd)
    res = _validate(wd)
    with open(os.path.join(wd, "trace.ndjson")) as fh:
        for line in fh:
            o = json.loads(line)
            if o["ev"] == "reset":
                counts["scenarios:" + o["src"]] += 1
                if o["cfg"]["init"].get("plain"):
                    counts["scenarios:plain-start"] += 1
                if not o["setupOK"]:
                    counts["setup-incomplete"] += 1
                continue
            if o["ev"] in ("begin", "end"):
                if o["ev"] == "begin" and o["args"]["evidence"]:
                    counts["slash-blocks"] += 1
                continue
            if o["code"] == -1:
                counts["unbuilt:" + o["ev"]] += 1
                continue
            counts[("ok:" if o["ok"] else "refused:") + o["ev"]] += 1
            counts["tx"] += 1
            if len(samples) < 6 and o["ev"] in ("dao_fund", "pc_delegate_contract", "eth_value", "exec_send") and o["args"]["how"] in ("sp", "sp+1", "max", "max+1"):
                v = o["post"]["va"]["vx1"]
                samples.append({"ev": o["ev"], "how": o["args"]["how"], "amt": o["args"]["amt"], "deleg": o["args"]["deleg"],
                                "ok": o["ok"], "err": o["err"][:80], "now": o["post"]["now"], "bank": v["bank"],
                                "start": v["start"], "lockup": v["lockup"], "vesting": v["vesting"], "df": v["df"]})
    used = json.load(open(os.path.join(wd, "used.json")))
    return res, used


def run(c):
    quick = c.tier == "quick"
    build_harness()
    wd = scratch("C08")

    # 1. the design: exhaustive model checking of P on the as-built machine; two named defect
    #    switches must each produce a counterexample (non-vacuity of the invariants)
    cfgs = ["VestingLock_intended.cfg", "VestingLock_intended_b.cfg"] if quick else \
           ["VestingLock_intended_thorough.cfg", "VestingLock_intended_thorough_b.cfg", "VestingLock_intended_b.cfg"]
    for cfg in cfgs:
        r = tlc_exhaustive(wd, "VestingLock.tla", cfg, workers=4, timeout=3000)
        c.add_tlc(cfg, r)
    for cfg in ("VestingLock_defect_strict_deleg.cfg", "VestingLock_defect_strict_lock.cfg", "VestingLock_defect_strict_convert.cfg"):
        r = tlc_exhaustive(wd, "VestingLock.tla", cfg, must="fail", workers=1)
        c.add_tlc(cfg, r)

    # 2. spec -> code and code -> spec, in rounds (one trace file and one validating JVM per round)
    rounds = 1 if quick else 5
    nscripts = 120 if quick else 400
    nrandom = 260 if quick else 700
    counts = collections.Counter()
    samples = []
    viol_first = {}
    ndiv = 0
    divs = collections.Counter()
    lines = 0
    for rd in range(rounds):
        seed = c.seed * 1000 + rd
        scripts, r = tlc_scripts(wd, "VestingLock.tla", "VestingLock_sim.cfg", nscripts, 12, seed, timeout=1500)
        if len(scripts) < nscripts // 2:
            raise Infra("too few scripts generated: %d" % len(scripts))
        conv = [_convert(s, seed, i % 3 == 2) for i, s in enumerate(scripts)]
        res, used = _round(c, wd, conv, nrandom, seed, counts, samples)
        c.traces += res["scenarios"]
        lines += res["consumed"]
        counts["scripts_replayed"] += len(scripts)
        ndiv += len(res["div"])
        for d in res["div"]:
            divs[d["ev"] + ":" + d["what"]] += 1
        for v in sorted(res["viol"], key=lambda v: v["line"]):
            s = sig_of(v)
            if s not in viol_first:
                viol_first[s] = (v, used[v["scn"] - 1], rd)

    c.samples = samples
    c.extra["trace_lines"] = lines
    c.extra["transactions_validated"] = counts["tx"]
    c.extra["by_path"] = {k: {"accepted": counts["ok:" + k], "refused": counts["refused:" + k]} for k in DEBIT + DELEG + OTHER + CONVERT + INCOMING + REBOND}
    c.extra["slash_blocks"] = counts["slash-blocks"]
    c.extra["plain_start_scenarios"] = counts["scenarios:plain-start"]
    c.extra["scenarios"] = {"script": counts["scenarios:script"], "random": counts["scenarios:random"], "setup_incomplete": counts["setup-incomplete"]}
    c.extra["conformance_divergence_count"] = ndiv
    c.extra["conformance_divergences_by_kind"] = dict(divs.most_common(25))
    if ndiv:
        log("C08 note: %d recorded steps diverge from the as-built machine M (diagnostic, not a verdict): %s" % (
            ndiv, ", ".join("%s x%d" % kv for kv in divs.most_common(6))))
    c.extra["paths_not_driven"] = ["ibc_transfer (MsgTransfer) and the ICS-20 precompile: no IBC channel in the single-chain harness"]

    # 3. verdict: every signature is reproduced alone from its saved scenario before it counts
    confirmed = []
    for s, (v, script, rd) in viol_first.items():
        path = save_replay("C08", "%s-%d-scn%d" % (c.seed, rd, v["scn"]),
                           {"property": "C08", "driver": "vestinglock", "script": script, "signature": s})
        if s in replay(path, quiet=True):
            confirmed.append(v)
            c.replays[s] = path
        else:
            raise Infra("signature %s did not reproduce from %s" % (s, path))
    # vacuity floors: every path was both accepted and refused at least once, on the real chain.
    # They guard a PASS: a confirmed violation is reported even if a floor is missed (a change that
    # breaks the property may also break the set-up of some scenarios).
    floor_msgs = []
    for k in DEBIT + DELEG + CONVERT:
        if counts["ok:" + k] < 1 or counts["refused:" + k] < 1:
            floor_msgs.append("path %s accepted=%d refused=%d" % (k, counts["ok:" + k], counts["refused:" + k]))
    for k in OTHER + INCOMING:
        if counts["ok:" + k] < 1:
            floor_msgs.append("%s never succeeded" % k)
    if counts["slash-blocks"] < 1:
        floor_msgs.append("no slashing block")
    if counts["setup-incomplete"] * 10 > c.traces:
        floor_msgs.append("set-up failed in %d of %d scenarios" % (counts["setup-incomplete"], c.traces))
    c.extra["floors_missed"] = floor_msgs
    if floor_msgs and not confirmed:
        raise Infra("vacuous run: " + "; ".join(floor_msgs))

    c.add_violations(confirmed)
    c.assumptions += [
        "TLC and the BigNum Java override (java/BigNum.java) are trusted",
        "the projection in harness/vestinglock.go reads the real stores (bank, auth account, staking, authz, feegrant keepers) on the deliver state right after each DeliverTx",
        "block time is scripted; slashing is double-sign evidence handed to BeginBlock by the harness",
        "amount labels (spendable, spendable+1, ...) are resolved with the code's own LockedCoins only to choose INPUTS; the verdict uses the lock computed by the specification from the logged schedule",
        "at the single instant t = start with a zero-length leading period the statement's step function has two readings; P judges with the weaker one",
        "exhaustive model checking is bounded by the constants in specs/VestingLock_*.cfg; IBC paths are not driven",
    ]


def replay(path, quiet=False):
    """re-executes one saved scenario on the real code and returns the signatures it shows"""
    build_harness()
    wd = scratch("C08-replay")
    obj = json.load(open(path))
    with open(os.path.join(wd, "scripts.json"), "w") as fh:
        json.dump([obj["script"]], fh)
    hv(["vestinglock", "--scripts", "scripts.json", "--out", "trace.ndjson"], cwd=wd)
    res, _ = validate_trace(wd, "VestingLockTrace.tla", TRACE_CFG)
    sigs = sorted({sig_of(v) for v in res["viol"]})
    if not quiet:
        for s in sigs:
            log("replay shows: " + s)
    return sigs
