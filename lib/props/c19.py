"""C19 Exported genesis re-imports to the same state."""
import chainrun
from vlib import *

MANIFEST_ENTRY = dict(engine="Chain", design="§4 C19",
    technique="TLA+ scenario space ChainGen.tla (with export points) simulated by TLC; real ExportAppStateAndValidators -> InitChain of a fresh NewHaqq -> Commit -> export again; the two documents are flattened leaf by leaf and compared by the TLC trace spec ChainTrace.tla modulo an explicit list of header-derived fields",
    text="Export/import is a fixed-point property of the concrete state, so the oracle is the real export and import code run on states reached by TLC-simulated block histories (contracts with storage, vesting accounts mid-schedule, liquid denoms with their token pairs, DAO holders, delegations/unbondings/redelegations, proposals, minting in progress); the trace specification decides, per module and field, which differences violate the property (everything except fields that are functions of the header at export time, each justified in the spec).",
    note="Bounded simulated histories; only JSON-visible state is compared (plus nothing byte-level); the HeaderDerived list in specs/ChainTrace.tla is part of the trusted base (one entry: IBC localhost client height).",
    category="exploration")


def run(c):
    quick = c.tier == "quick"
    c.level = "exploration"
    st = chainrun.run_family(c, "C19", "C19", nscen=16 if quick else 500, maxlen=14 if quick else 30,
                             followers=0, exhaustive=False)
    if st["exports"] < 5:
        raise Infra("vacuous run: only %d export/import cycles" % st["exports"])
    c.extra["evaluations"] = st["exports"]
    c.extra["distinct_nontrivial"] = st["exports"]
    c.extra["rule"] = ("one evaluation = one export -> import into a fresh app -> re-export cycle at a block boundary of a "
                       "TLC-simulated history; every cycle is at a distinct (history, height) and compares all genesis leaves")


def replay(path, quiet=False):
    sigs = [s for s in chainrun.replay_file(path, "C19") if s.startswith("C19|")]
    if not quiet:
        for s in sigs:
            log("replay shows: " + s)
    return sigs
