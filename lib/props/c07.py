"""C07 Every transaction pays the fee floor; EVM gas is charged exactly
(specs/EvmFees.tla, specs/EvmFeesGen.tla, specs/EvmFeesTrace.tla, harness/evmfees.go)."""
import concurrent.futures
import json
import os
import random
from collections import Counter

from vlib import *

TRACE_CFG = "EvmFeesTrace.cfg"
PROCS = 4

MANIFEST_ENTRY = dict(engine="EvmFees", design="§4 C07",
    technique="TLA+ spec EvmFees.tla (BigNum / 18-digit fixed point): property layer P (fee floor on provided and charged fee, fee cap >= base fee, gasUsed = max(evmGas, multiplier x gasLimit) <= gasLimit, every sender pays exactly its own gasUsed x effective price (+ its own value), the collector receives the sum, no other observed balance moves) and as-built machine M (ante decorators of both routes, up-front deduction, execution, clamp, refund); EvmFeesGen.tla enumerates a parameter grid and TLC checks M against P exhaustively (intended design passes, the machine with the DynamicFee-extension defect must fail); every grid scenario and seeded random parameter points are executed by real DeliverTx on fresh chains with those parameters; TLC trace spec decides P on the recorded balances and responses",
    text="TLC enumerates the grid tx type x gas limit (exact need, 2x, large) x price relations to base fee and floor x MinGasMultiplier x MinGasPrice x program (transfer, calldata + access list, revert, out of gas, SSTORE clearing with the refund counter below and above the EIP-3529 cap and with spare gas in the limit, creation), multi-message transactions of one sender and of 2-3 different senders (different programs, prices and gas limits per message), NoBaseFee, block gas limit, and Cosmos transactions through every entry point of the ante handler (default chain signed direct, amino-json or EIP-712; DynamicFee extension option; legacy EIP-712 chain selected by the Web3Tx extension option), and proves on the model that the intended design never accepts a fee below the floor and charges gas exactly; each scenario is then delivered in block 1 of a real chain whose genesis carries exactly those fee-market parameters, and the trace specification re-derives from the statement, with EVM gas known independently of the response, what gasUsed, the sender's payment and the fee collector's receipt must be.",
    note="EVM gas after refunds of every scripted program, the SSTORE-clearing one included, is computed by the specification from the gas schedule (EIP-2929 / EIP-3529: refund = min(counter, consumed / 5)), never taken from the code under test; the twin execution with MinGasMultiplier = 0 is a diagnostic only; scripted programs only (no precompiles, no erc20 hook failure, no staking-reward claim for fees); one transaction per chain, in block 1; CheckTx-only rules (mempool min gas price, intrinsic gas) are outside the property.")


def _run_scenarios(wd, scenarios, nrandom, seed, procs=PROCS):
    with open(os.path.join(wd, "scripts.json"), "w") as fh:
        json.dump(scenarios, fh)
    n = len(scenarios) + nrandom
    chunk = max(1, (n + procs - 1) // procs)
    parts = []
    with concurrent.futures.ThreadPoolExecutor(max_workers=procs) as ex:
        futs = []
        for k, lo in enumerate(range(0, n, chunk)):
            out = "part%d.ndjson" % k
            parts.append(out)
            futs.append(ex.submit(hv, ["evmfees", "--scripts", "scripts.json", "--random", str(nrandom), "--seed", str(seed),
                                       "--from", str(lo), "--to", str(min(n, lo + chunk)), "--out", out], wd))
        for f in futs:
            f.result()
    with open(os.path.join(wd, "trace.ndjson"), "w") as out:
        for p in parts:
            out.write(open(os.path.join(wd, p)).read())
    return n


def _validate(wd):
    res, r = validate_trace(wd, "EvmFeesTrace.tla", TRACE_CFG, timeout=3000)
    n = count_lines(os.path.join(wd, "trace.ndjson"))
    if res["consumed"] != n:
        raise Infra("trace spec consumed %d of %d lines" % (res["consumed"], n))
    return res, n


PROG_OUTCOME = {"transfer": "success", "calldata": "success", "stop": "success", "create": "success", "sstore": "refund",
                "revert": "revert", "invalid": "oog", "loop": "oog"}


def _kind_of(o):
    """(type, scripted outcome) of a transaction, for the vacuity floors - taken from the inputs
    (which program was sent), never from what the code answered"""
    if o["route"] == "cosmos":
        return ("cosmos-" + o["cos"]["ext"], "success")
    ms = o["msgs"]
    t = ms[0]["type"] if len(ms) == 1 else "multi"
    return (t, "+".join(PROG_OUTCOME[m["prog"]] for m in ms))


def _clamp_expected(o, m):
    """the statement's minimum (multiplier x gasLimit) exceeds the EVM gas the specification knows"""
    if m["prog"] not in ("transfer", "calldata", "stop", "revert"):
        return False
    known = 21000 + 16 * int(m["nz"]) + 4 * int(m["z"]) + 2400 * int(m["alAddrs"]) + 1900 * int(m["alKeys"]) + (6 if m["prog"] == "revert" else 0)
    return int(m["gas"]) >= known and int(o["par"]["mult18"]) * int(m["gas"]) // 10**18 > known


def _floor_only(o):
    """a Cosmos transaction whose fee satisfies the base fee in effect but not gasLimit x MinGasPrice"""
    c, par = o["cos"], o["par"]
    gas, fee = int(c["gas"]), int(c["fee"])
    base = 0 if par["noBaseFee"] else int(par["baseFee"])
    return gas > 0 and fee // gas >= base and fee * 10**18 < int(par["mgp18"]) * gas


def _refund_kind(o, m):
    ex = 21000 + 16 * int(m["nz"]) + 4 * int(m["z"]) + 2400 * int(m["alAddrs"]) + 1900 * int(m["alKeys"]) + 5006 * int(m["slots"])
    gas = int(m["gas"])
    if gas < ex:
        return ""
    counter, cap = 4800 * int(m["slots"]), ex // 5
    after = ex - min(counter, cap)
    clamp = -(-int(o["par"]["mult18"]) * gas // 10**18)
    return "%s,%s,%s" % ("capped" if counter > cap else "uncapped", "spare" if gas > ex else "exact", "visible" if clamp < after else "hidden")


def run(c):
    quick = c.tier == "quick"
    build_harness()
    wd = scratch("C07")

    # 1. the design: M satisfies P on the whole grid; with the named defect the strict invariant
    #    must fail (reproduction recipe) and P must fail only in the DynamicFee corner
    gen = "EvmFeesGen_quick.cfg" if quick else "EvmFeesGen_thorough.cfg"
    r = tlc_exhaustive(wd, "EvmFeesGen.tla", gen, workers=4, timeout=3000)
    c.add_tlc(gen, r)
    scenarios = r.printed("SCRIPT")
    r2 = tlc_exhaustive(wd, "EvmFeesGen.tla", "EvmFeesGen_defect_comp.cfg", workers=4, timeout=3000)
    c.add_tlc("EvmFeesGen_defect_comp.cfg", r2)
    r3 = tlc_exhaustive(wd, "EvmFeesGen.tla", "EvmFeesGen_defect_strict.cfg", must="fail", workers=4, timeout=3000)
    c.add_tlc("EvmFeesGen_defect_strict.cfg", r3)
    scenarios.sort(key=lambda s: json.dumps(s, sort_keys=True))
    total = len(scenarios)
    if total < 3000:
        raise Infra("scenario grid too small: %d" % total)

    # 2. spec -> code: the grid (quick: every small family + a seeded sample of the main product)
    #    and seeded random parameter points on the real chain
    if quick:
        rnd = random.Random(c.seed)
        main = [s for s in scenarios if s["tag"] == "grid"]
        rest = [s for s in scenarios if s["tag"] != "grid"]
        scenarios = rest + rnd.sample(main, min(len(main), 1800))
        scenarios.sort(key=lambda s: json.dumps(s, sort_keys=True))
    nrandom = 400 if quick else 6000
    nrun = _run_scenarios(wd, scenarios, nrandom, c.seed)

    # 3. code -> spec
    res, n = _validate(wd)
    lines = [json.loads(l) for l in open(os.path.join(wd, "trace.ndjson"))]
    skipped = [o for o in lines if o["ev"] == "skip"]
    if len(skipped) > max(3, nrun // 100):
        raise Infra("%d of %d scenarios could not be set up: %s" % (len(skipped), nrun, skipped[0].get("why")))
    txs = [o for o in lines if o["ev"] == "tx"]
    acc = Counter(_kind_of(o) for o in txs if o["res"]["code"] == 0)
    rej = sum(1 for o in txs if o["res"]["code"] != 0)
    by_type = Counter()
    for (t, oc), k in acc.items():
        by_type[t] += k
    c.traces = len(txs)
    c.extra.update({
        "scenario_grid": total, "grid_scenarios_executed": len(scenarios), "random_scenarios": nrandom,
        "grid_exhaustive": not quick, "scenarios_skipped": len(skipped),
        "accepted": res["accepted"], "rejected": rej,
        "accepted_by_type_outcome": {"%s/%s" % k: v for k, v in sorted(acc.items())},
        "twin_measurements": sum(1 for o in txs for m in o["msgs"] if m["twinGas"] != "-1"),
        "conformance_divergence_count": len(res["div"]), "conformance_divergences": res["div"][:10]})

    # vacuity floors: accepted transactions of every type and every outcome
    floor = 20 if quick else 200
    for t in ("legacy", "access", "dynamic", "multi", "cosmos-none", "cosmos-dynfee", "cosmos-web3"):
        # (the legacy EIP-712 chain is one of eight Cosmos entry points of the grid: half the floor)
        if by_type[t] < (floor // 2 if t == "cosmos-web3" else floor):
            raise Infra("vacuous run: only %d accepted transactions of type %s" % (by_type[t], t))
    for t in ("legacy", "access", "dynamic"):
        for oc in ("success", "revert", "oog", "refund"):
            if acc[(t, oc)] < 5:
                raise Infra("vacuous run: only %d accepted %s transactions with scripted outcome %s" % (acc[(t, oc)], t, oc))
    # every entry point of a Cosmos transaction: accepted ones, and attempts (counted from the inputs,
    # whatever the code answered) below a floor that only the MinGasPrice rule can enforce because
    # the base fee in effect is satisfied
    entry = Counter((o["cos"]["ext"], o["cos"]["sign"], o["res"]["code"] == 0) for o in txs if o["route"] == "cosmos")
    floor_only = Counter((o["cos"]["ext"], o["cos"]["sign"]) for o in txs if o["route"] == "cosmos" and _floor_only(o))
    for k in (("none", "direct"), ("none", "amino"), ("none", "eip712"), ("dynfee", "direct"), ("web3", "eip712")):
        if entry[k + (True,)] < (8 if quick else 40):
            raise Infra("vacuous run: only %d accepted Cosmos transactions through entry point %s/%s" % (entry[k + (True,)], k[0], k[1]))
        if floor_only[k] < 3:
            raise Infra("vacuous run: only %d Cosmos transactions through entry point %s/%s below the floor with the base fee satisfied" % (floor_only[k], k[0], k[1]))
    c.extra["cosmos_entry_points_accepted"] = {"%s/%s" % k[:2]: v for k, v in sorted(entry.items()) if k[2]}
    c.extra["cosmos_entry_points_below_floor_only"] = {"%s/%s" % k: v for k, v in sorted(floor_only.items())}
    nsenders = Counter(len({m["from"] for m in o["msgs"]}) for o in txs if o["res"]["code"] == 0 and o["route"] == "eth")
    for k in (2, 3):
        if nsenders[k] < (15 if quick else 100):
            raise Infra("vacuous run: only %d accepted transactions with messages of %d different senders" % (nsenders[k], k))
    c.extra["accepted_by_number_of_senders"] = {str(k): v for k, v in sorted(nsenders.items())}
    if not any("success" in oc.split("+") and ("revert" in oc or "oog" in oc) for (t, oc) in acc if t == "multi"):
        raise Infra("vacuous run: no accepted two-message transaction with mixed outcomes")
    refund = sum(1 for o in txs if o["res"]["code"] == 0 for m in o["msgs"] if m["prog"] == "sstore" and m["twinGas"] != "-1")
    if refund < 10:
        raise Infra("vacuous run: only %d accepted refund-heavy executions with a twin measurement" % refund)
    # refunds judged by the statement: counter below / above the EIP-3529 cap, with spare gas in the
    # limit, and the minimum-gas rule not hiding the EVM gas
    rk = Counter(_refund_kind(o, m) for o in txs if o["res"]["code"] == 0 for m in o["msgs"] if m["prog"] == "sstore")
    for k in ("capped,spare,visible", "uncapped,spare,visible", "capped,exact,visible", "capped,spare,hidden"):
        if rk[k] < (5 if quick else 30):
            raise Infra("vacuous run: only %d accepted SSTORE-clearing executions of kind %s" % (rk[k], k))
    c.extra["refund_executions_by_kind"] = dict(sorted((k, v) for k, v in rk.items() if k))
    clamp_hi = sum(1 for o in txs if o["res"]["code"] == 0 for m in o["msgs"] if _clamp_expected(o, m))
    if clamp_hi < 10:
        raise Infra("vacuous run: the minimum-gas rule was expected to bind in only %d accepted executions" % clamp_hi)
    if rej < 20:
        raise Infra("vacuous run: only %d rejected transactions" % rej)
    c.extra["refund_heavy_executions"] = refund
    c.extra["clamp_expected_to_bind_executions"] = clamp_hi
    def sample(o):
        return {"par": o["par"], "route": o["route"], "cos": o["cos"] if o["route"] == "cosmos" else None,
                "msgs": [{k: m[k] for k in ("from", "type", "gas", "cap", "tip", "value", "prog", "twinGas", "resp")} for m in o["msgs"]],
                "res": {k: o["res"][k] for k in ("code", "gasUsed", "gasWanted")}, "pre": o["pre"], "post": o["post"]}
    seen = set()
    for o in txs:
        k = _kind_of(o)
        if len({m["from"] for m in o["msgs"]}) > 1:
            k = ("multisender", "")
        if o["res"]["code"] == 0 and k not in seen and len(c.samples) < 6 and k[0] in ("dynamic", "multi", "multisender", "cosmos-dynfee", "legacy"):
            seen.add(k)
            c.samples.append(sample(o))

    # 4. verdict: every signature is reproduced alone from its recorded scenario
    first = {}
    for v in sorted(res["viol"], key=lambda v: v["line"]):
        first.setdefault(sig_of(v), v)
    confirmed = []
    paths = {}
    for s, v in first.items():
        o = lines[v["line"] - 1]
        paths[s] = save_replay("C07", "%s-scn%d" % (c.seed, o["scn"]),
                               {"property": "C07", "driver": "evmfees", "signature": s, "scenario": json.loads(o["cfgJson"])})
    # one harness + one TLC start for all of them; every scenario still runs alone on its own fresh chain
    shown = _replay_many(list(paths.values()))
    for s, v in first.items():
        if s in shown[paths[s]]:
            confirmed.append(v)
            c.replays[s] = paths[s]
        else:
            raise Infra("signature %s did not reproduce from %s" % (s, paths[s]))
    c.add_violations(confirmed)
    c.assumptions += [
        "TLC 1.8.0, the Json community module and the BigNum Java override (java/BigNum.java) are trusted",
        "EVM gas of scripted programs is computed by the specification from the gas schedule (21000 / 53000, 16 / 4 per calldata byte, 2400 / 1900 per access-list entry, 6 for PUSH1 PUSH1 REVERT, everything for INVALID / an endless loop; clearing a cold non-zero slot: 5006 gas and 4800 refund, the refund capped at one fifth of the gas consumed)",
        "balances are read from the bank keeper immediately before and after DeliverTx inside block 1 (before EndBlock); the fee collector receives nothing else in that interval",
        "each chain's genesis sets the fee-market parameters with EnableHeight = 1, so block 1 runs with exactly the genesis base fee",
        "P tolerates a charged Cosmos fee below a fractional floor by less than one price unit per gas (integral gas prices) and either integer rounding of multiplier x gasLimit",
        "messages of one sender inside one transaction are judged in sum (balances are observed around the transaction); messages of different senders are judged per sender",
        "senders are funded far above every fee; staking-reward claims for fees, fee grants, erc20 hooks and precompiles are not exercised",
    ]


def _replay_many(paths):
    """re-executes saved scenarios (each on its own fresh chain); returns path -> signatures shown"""
    if not paths:
        return {}
    build_harness()
    wd = scratch("C07-replay")
    _run_scenarios(wd, [json.load(open(p))["scenario"] for p in paths], 0, 1, procs=1)
    res, _ = validate_trace(wd, "EvmFeesTrace.tla", TRACE_CFG)
    out = {p: set() for p in paths}
    for v in res["viol"]:
        out[paths[v["scn"] - 1]].add(sig_of(v))
    return out


def replay(path, quiet=False):
    """re-executes one saved scenario on the real code and returns the signatures it shows"""
    sigs = sorted(_replay_many([path])[path])
    if not quiet:
        for s in sigs:
            log("replay shows: " + s)
    return sigs
