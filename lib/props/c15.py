"""C15 Module accounting invariants hold after every block."""
import chainrun
from vlib import *

MANIFEST_ENTRY = dict(engine="Chain", design="§4 C15",
    technique="TLA+ scenario space ChainGen.tla simulated by TLC into block histories; every invariant route registered in the crisis keeper is evaluated on the real deliver state after every real EndBlock; results validated by TLC trace spec ChainTrace.tla (a broken route is a violation signature named after the route)",
    text="The statement is about the concrete registered invariants, so the oracle is those routes themselves evaluated on the real state; what the specification contributes is the history space (TLC-simulated block histories mixing bank, staking incl. undelegation/redelegation, slashing by downtime and double-sign evidence, distribution, governance, vesting, liquid vesting, DAO, EVM transfers and contracts; every sixth history ends with the v1.7.6 upgrade handler force-undelegating a listed vesting account from a bonded or a freshly tombstoned, still unbonding validator) and the trace validation that consumes every block's result; the ledger equations of Haqq's own modules are additionally checked by their module specifications (Ucdao, Vesting, LiquidVesting, Erc20Peg) on their own histories.",
    note="Histories are bounded simulated samples; invariant routes are trusted to mean what the SDK says they mean; the crisis routes are evaluated after EndBlock, before Commit.",
    category="exploration")


def run(c):
    quick = c.tier == "quick"
    c.level = "exploration"
    st = chainrun.run_family(c, "C15", "C15", nscen=24 if quick else 1000, maxlen=17 if quick else 35,
                             followers=0, exhaustive=False)
    if st["routes_evaluated"] < 100:
        raise Infra("vacuous run: only %d invariant route evaluations" % st["routes_evaluated"])
    c.extra["evaluations"] = st["routes_evaluated"]
    c.extra["distinct_nontrivial"] = st["commits"]
    c.extra["rule"] = ("one evaluation = one registered invariant route on the deliver state after one real EndBlock; "
                       "distinct_nontrivial counts the distinct blocks (of TLC-simulated histories) after which all routes were evaluated")


def replay(path, quiet=False):
    sigs = [s for s in chainrun.replay_file(path, "C15") if s.startswith("C15|")]
    if not quiet:
        for s in sigs:
            log("replay shows: " + s)
    return sigs
