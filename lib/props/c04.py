"""C04 Precompiles act only for the signer or caller, within grants."""
import evmrun
from vlib import *

MANIFEST_ENTRY = dict(engine="EvmCosmos", design="§4 C04",
    technique="TLA+ spec EvmCosmos.tla (AuthProblems: named account must be signer or immediate caller; caller != signer needs a live grant of the right type covering validator and amount; SpendGrant: exact allowance arithmetic) ; EvmCosmosGen.tla enumerates the identity matrix x grant states and all length-3 sequences of approve/increase/decrease/revoke/spend, model-checked by TLC; every scenario executed by real DeliverTx; TLC trace spec evaluates the authorization clauses on every successful call and compares the authz store with the running allowance; EvmCosmosRand.tla draws random call trees (150 in the quick tier, 15000 in the thorough tier) that are executed on the real chain and judged by the same trace specification",
    text="For every successful state-changing precompile call observed in a real transaction the trace specification checks who was acted upon (signer or immediate caller only), that a live grant of the right type existed when the caller is not the signer, covering validator and amount, and that the grant store after the transaction equals the allowance computed by the specification (exact decrease, deletion when used up, never overspent) - over the full identity matrix {signer, caller, third party} x methods x grant states {absent, unlimited, exact, too small, larger, expired, wrong validator, wrong type} and all sequences of three allowance operations.",
    note="Staking grants only (ICS-20 and ERC-20 style grants not exercised); grants are set up with authz MsgGrant before the transaction or by the approve family inside it; bounded scenario space.")


def run(c):
    evmrun.run_family(c, "C04", "C04", nquick=8000, nrand=(150, 15000))


def replay(path, quiet=False):
    sigs = [s for s in evmrun.replay_file(path, "C04") if s.startswith("C04|")]
    if not quiet:
        for s in sigs:
            log("replay shows: " + s)
    return sigs
