"""C20 Restarting a node at any block boundary changes nothing."""
import chainrun
from vlib import *

MANIFEST_ENTRY = dict(engine="Chain", design="§4 C20",
    technique="TLA+ spec Chain.tla (Restart action resets process memory to what the constructor rebuilds from the database; defect machine 'unpersisted' must fail) + ChainGen.tla scenarios with restart steps; a real replica process re-runs NewHaqq on the same database at the scripted block boundaries; Info() and all later commit records validated by TLC trace spec against a replica that never stopped",
    text="TLC explores every placement of restarts between blocks and local actions on the model and shows that agreement with a never-stopped replica holds exactly when everything execution depends on is rebuilt from the database. On the code, TLC-simulated histories with restart steps at arbitrary block boundaries (also twice in a row, right after blocks that create contracts, vesting accounts, liquid denoms/token pairs or change validator sets) are executed by a restarting replica process and a continuous one; Info() after each restart must report the last commit, and every later commit record must equal the continuous replica's.",
    note="Restart = discard the app object and construct NewHaqq on the same MemDB (no OS-level crash, no torn writes); upgrades (app/upgrades) are not executed; bounded simulated samples.")


def run(c):
    quick = c.tier == "quick"
    chainrun.run_family(c, "C20", "C20", nscen=24 if quick else 600, maxlen=17 if quick else 31,
                        followers=1)


def replay(path, quiet=False):
    sigs = [s for s in chainrun.replay_file(path, "C20") if s.startswith("C20|")]
    if not quiet:
        for s in sigs:
            log("replay shows: " + s)
    return sigs
