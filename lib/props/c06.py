"""C06 Ethereum messages and blocked types cannot bypass their route
(specs/AnteRoute.tla, specs/AnteRouteTrace.tla, harness/anteroute.go)."""
import collections
import json
import os
import re
import shutil
from vlib import *

TRACE_CFG = "AnteRouteTrace.cfg"
CHUNK = 100000   # trace lines per validation JVM

MANIFEST_ENTRY = dict(engine="AnteRoute", design="§4 C06",
   technique="TLA+ spec AnteRoute.tla: message trees and extension-option lists as TLA+ values; TLC exhaustively proves that the transcribed route selection + authz limiter (as-built machine M) reject every transaction the property layer P (MustReject) forbids; TLC emits the enumerated transactions as cases, the harness builds each as a real signed tx and runs it through app.BaseApp.DeliverTx; TLC validates every recorded outcome against P (verdict) and M (diagnostic)",
   text="TLC enumerates every message forest up to the stated bound (all ordered trees over {MsgSend, MsgEthereumTx, MsgCreateVestingAccount, MsgGrant with 5 authorizations, MsgExec} of width <= 3; chains of 1..9 nested MsgExec with extra siblings at every level; every all-MsgSend shape with one leaf replaced) times every extension-option list of length <= 2 and proves on the model that whatever the property forbids is rejected by the transcription of the ante handler. The binding to the code is two-way: the enumerated transactions (all small ones, all chains, a seeded sample of the rest in the quick tier, all of them up to the bound in the thorough tier) are built as real signed transactions and delivered to the real application through DeliverTx, and TLC evaluates MustReject => (rejected, no handler ran, nothing changed) on every recorded outcome; the transcription M is compared with every outcome as a diagnostic.",
   note="Bounded by the constants in specs/AnteRoute_*.cfg (nodes, width 3, depth 9, 2 extension options). 'A message handler ran' is observed as 'the signer's sequence moved' (baseapp writes the ante branch iff the ante handler passed, then runs the messages). In the as-built application sdk MsgCreateVestingAccount and any non-standard extension option are already refused by the TxDecoder; a second application instance whose interface registry is widened by the harness lets them reach the ante handler. Acceptance is counted, never asserted. TLC and the Json community module are trusted.")


def _shape(n):
    if n["t"] == "exec":
        return "Exec[" + ",".join(_shape(k) for k in n["kids"]) + "]"
    if n["t"] == "grant":
        return "Grant(" + n["auth"] + ")"
    return n["t"]


def _tx_str(tx):
    return ",".join(_shape(n) for n in tx["msgs"]) + " ext=" + "[" + ",".join(tx["ext"]) + "]"


def _validate_chunks(wd, trace_path, tag):
    """splits the trace into CHUNK-line files, validates each with its own JVM, merges the RESULTs"""
    total = count_lines(trace_path)
    merged = {"consumed": 0, "scenarios": 0, "viol": [], "div": [], "ndiv": 0, "cnt": collections.Counter()}
    walls = 0.0
    with open(trace_path) as fh:
        off = 0
        k = 0
        while off < total:
            k += 1
            d = os.path.join(wd, "%s-chunk%d" % (tag, k))
            os.makedirs(d)
            for f in os.listdir(wd):
                if f.endswith(".tla") or f == TRACE_CFG:
                    shutil.copy(os.path.join(wd, f), d)
            n = 0
            with open(os.path.join(d, "trace.ndjson"), "w") as out:
                for line in fh:
                    out.write(line)
                    n += 1
                    if n >= CHUNK:
                        break
            res, r = validate_trace(d, "AnteRouteTrace.tla", TRACE_CFG, timeout=2400)
            walls += r.wall
            if res["consumed"] != n:
                raise Infra("trace spec consumed %d of %d lines (chunk %d)" % (res["consumed"], n, k))
            for v in res["viol"]:
                v["line"] += off
                merged["viol"].append(v)
            for v in res["div"]:
                v["line"] += off
                merged["div"].append(v)
            merged["ndiv"] += res["ndiv"]
            merged["consumed"] += res["consumed"]
            merged["scenarios"] += res["scenarios"]
            merged["cnt"].update(res["cnt"])
            off += n
            shutil.rmtree(d, ignore_errors=True)
    if merged["consumed"] != total:
        raise Infra("trace validation consumed %d of %d lines" % (merged["consumed"], total))
    merged["cnt"] = dict(merged["cnt"])
    merged["wall"] = walls
    return merged


def _line_at(path, lineno):
    with open(path) as fh:
        for i, line in enumerate(fh, 1):
            if i == lineno:
                return json.loads(line)
    raise Infra("line %d not in %s" % (lineno, path))


def _replay_obj(seed, rec, sig):
    case = {"msgs": rec["tx"]["msgs"], "ext": rec["tx"]["ext"], "src": rec.get("src", "replay"), "reg": rec["reg"]}
    return {"property": "C06", "driver": "anteroute", "seed": seed, "case": case, "signature": sig,
            "readable": _tx_str(rec["tx"]) + " reg=" + rec["reg"]}


def run(c):
    quick = c.tier == "quick"
    build_harness()
    wd = scratch("C06")

    # 1. the model: M rejects everything P forbids, on the whole enumerated space; with a
    #    named defect in M the same invariant must fail (the invariant is not vacuous)
    cfg = "AnteRoute_intended.cfg" if quick else "AnteRoute_intended_thorough.cfg"
    r = tlc_exhaustive(wd, "AnteRoute.tla", cfg, workers=8, timeout=3000)
    c.add_tlc(cfg, r)
    r = tlc_exhaustive(wd, "AnteRoute.tla", "AnteRoute_defect_strict.cfg", must="fail", workers=4)
    c.add_tlc("AnteRoute_defect_strict.cfg", r)

    # 2. spec -> code: TLC writes the cases (all small forests, all spines, seeded samples of
    #    the rest; thorough: everything up to the bound), the harness executes them for real
    ecfg = "AnteRoute_emit.cfg" if quick else "AnteRoute_emit_thorough.cfg"
    r = tlc(wd, "AnteRoute.tla", ecfg, workers=1, timeout=1800, extra=["-seed", str(c.seed)], name="emit")
    m = re.search(r'<<"EMITTED", (\d+)>>', r.out)
    cases_path = os.path.join(wd, "cases.ndjson")
    if not m or not os.path.exists(cases_path):
        raise Infra("case emission failed:\n" + r.out[-3000:])
    emitted = int(m.group(1))
    if emitted != count_lines(cases_path):
        raise Infra("emitter announced %d cases, file has %d" % (emitted, count_lines(cases_path)))
    c.extra.setdefault("tlc_runs", []).append({"config": ecfg, "cases_emitted": emitted, "wall_s": round(r.wall, 1)})
    fam = collections.Counter()
    with open(cases_path) as fh:
        for line in fh:
            fam[json.loads(line)["src"]] += 1
    c.extra["cases_emitted_by_family"] = dict(fam)

    out, hwall = hv(["anteroute", "--cases", "cases.ndjson", "--seed", str(c.seed), "--out", "trace.ndjson"],
                    cwd=wd, timeout=6000)
    trace_path = os.path.join(wd, "trace.ndjson")

    # 3. code -> spec: every recorded outcome against P (verdict) and M (diagnostic)
    res = _validate_chunks(wd, trace_path, "v")
    cnt = res["cnt"]
    c.traces = res["scenarios"]
    c.extra["trace_lines"] = res["consumed"]
    c.extra["harness_wall_s"] = round(hwall, 1)
    c.extra["trace_validation_wall_s"] = round(res["wall"], 1)
    c.extra["outcome_counts"] = cnt
    c.extra["conformance_divergences"] = res["div"][:20]
    c.extra["conformance_divergence_count"] = res["ndiv"]
    if res["ndiv"]:
        kinds = collections.Counter((d["what"], d["model"], d["impl"]) for d in res["div"])
        log("NOTE C06: %d outcomes differ from the as-built model M (diagnostic, not a verdict); e.g. %s" % (
            res["ndiv"], "; ".join("%s: model=%s impl=%s" % k for k in list(kinds)[:4])))

    stages = collections.Counter()
    accepted_by_sel = collections.Counter()
    want = {("asbuilt", "ok"): None, ("asbuilt", "ante"): None, ("asbuilt", "decode"): None, ("widened", "ante"): None,
            ("widened", "exec"): None}
    with open(trace_path) as fh:
        for line in fh:
            o = json.loads(line)
            if o["ev"] != "case":
                continue
            stages[o["reg"] + ":" + o["stage"]] += 1
            sel = o["tx"]["ext"][0] if o["tx"]["ext"] else "none"
            if not o["rejected"]:
                accepted_by_sel[sel] += 1
            k = (o["reg"], o["stage"])
            if k in want and want[k] is None and (len(o["tx"]["msgs"]) > 1 or o["tx"]["msgs"][0]["t"] == "exec"):
                want[k] = {"tx": _tx_str(o["tx"]), "reg": o["reg"], "how": o["how"], "rejected": o["rejected"],
                           "handler_ran": o["handler_ran"], "untouched": o["untouched"], "stage": o["stage"],
                           "err": o["err"]}
    c.samples = [v for v in want.values() if v]
    c.extra["stage_counts"] = dict(stages)
    c.extra["accepted_by_route_selector"] = dict(accepted_by_sel)

    # vacuity floors (exit 2, never a verdict)
    if cnt.get("unbuilt", 0):
        raise Infra("%d cases could not be built as transactions" % cnt["unbuilt"])
    if cnt["cases"] < emitted:
        raise Infra("fewer cases executed (%d) than emitted (%d)" % (cnt["cases"], emitted))
    floor = 800 if quick else 5000
    if cnt["accepted"] < floor:
        raise Infra("vacuous run: only %d accepted transactions (floor %d)" % (cnt["accepted"], floor))
    for sel in ("none", "dyn", "web3", "eth"):
        if accepted_by_sel[sel] == 0:
            raise Infra("vacuous run: no transaction was accepted on route selector %s" % sel)
    if cnt["must"] < 10000:
        raise Infra("vacuous run: only %d transactions that must be rejected" % cnt["must"])
    if stages["widened:exec"] == 0 or stages["widened:ante"] == 0:
        raise Infra("vacuous run: the widened registry did not bring vesting messages / options to the ante handler")

    # 4. verdict: the first occurrence of every signature is re-executed alone (fresh application)
    first = {}
    for v in sorted(res["viol"], key=lambda v: v["line"]):
        first.setdefault(sig_of(v), v)
    if first:
        paths = {}
        for s, v in first.items():
            rec = _line_at(trace_path, v["line"])
            paths[s] = save_replay("C06", "%d-scn%d" % (c.seed, v["scn"]), _replay_obj(c.seed, rec, s))
        shown = _replay_many(list(paths.values()))
        confirmed = []
        for s, v in first.items():
            if s in shown:
                confirmed.append(v)
                c.replays[s] = paths[s]
            else:
                raise Infra("signature %s did not reproduce from %s" % (s, paths[s]))
        c.add_violations(confirmed)
    c.extra["signatures_seen"] = len(first)
    c.extra["violating_cases"] = cnt.get("violating", 0)

    c.assumptions += [
        "TLC and the Json community module are trusted; exhaustive model checking is bounded by the constants in specs/AnteRoute_*.cfg",
        "transactions go through app.BaseApp.DeliverTx of an app.Setup application (the application's own TxDecoder, ante handler wiring and message router); one application instance serves many cases, each case's outcome is independent of the others (the signer's sequence is read from the store before each build) and every violation is re-executed alone on a fresh instance",
        "'a message handler ran' is observed as 'the signer's account sequence moved': baseapp.runTx writes the ante handler's store branch, where all three routes increment the sequence, iff the ante handler returned no error, and then calls runMsgs",
        "'nothing changed' covers the signer's and the recipient's balance, the signer's sequence and the signer's authz grants",
        "registry mode 'widened' (second application instance) registers sdk MsgCreateVestingAccount as sdk.Msg and one extra TxExtensionOptionI implementation in the application's interface registry so that such transactions reach the ante handler instead of dying in the TxDecoder; nothing else differs",
        "P includes 'a non-Ethereum message on the Ethereum route must be rejected' (DESIGN C06), which the statement implies only for authz wrappers; an unknown extension option counts at any position of the list",
        "legacy EIP-712 typed data cannot express most message trees; those web3-route transactions are submitted with a well-formed wrong signature and can only be rejected (how=eip712-unsignable)",
    ]


def _replay_many(paths):
    """runs each saved case alone on a fresh application, returns the set of signatures shown"""
    build_harness()
    wd = scratch("C06-replay")
    seed = 1
    with open(os.path.join(wd, "cases.ndjson"), "w") as fh:
        for p in paths:
            obj = json.load(open(p))
            seed = obj.get("seed", 1)
            fh.write(json.dumps(obj["case"]) + "\n")
    hv(["anteroute", "--cases", "cases.ndjson", "--seed", str(seed), "--fresh", "--out", "trace.ndjson"], cwd=wd)
    res, _ = validate_trace(wd, "AnteRouteTrace.tla", TRACE_CFG)
    return sorted({sig_of(v) for v in res["viol"]})


def replay(path, quiet=False):
    """re-executes one saved case on a fresh application and returns the signatures it shows"""
    sigs = _replay_many([path])
    if not quiet:
        for s in sigs:
            log("replay shows: " + s)
    return sigs
