"""C02 EVM execution never mints or burns the native coin."""
import evmrun
from vlib import *

MANIFEST_ENTRY = dict(engine="EvmCosmos", design="§4 C02",
    technique="TLA+ spec EvmCosmos.tla: property layer Ideal (Cosmos-native meaning of the non-reverted operations of a call tree) and as-built machine M (StateDB cache/dirty/flush/mirror/final-commit micro-semantics); EvmCosmosGen.tla enumerates the scenario space and TLC checks M against Ideal exhaustively (intended design passes, defect machine must fail); every scenario is compiled to contracts and executed by real DeliverTx; EvmCosmosRand.tla draws random call trees (150 in the quick tier, 15000 in the thorough tier) that are executed and judged the same way; TLC trace spec evaluates supply and per-account balances against Ideal and M",
    text="TLC enumerates the whole bounded scenario space (call topologies EOA->precompile, EOA->contract->precompile, nested, with and without attached value, dirtying transfers before/after, every staking/distribution method, named account signer/caller/third party, withdraw address self/other, grants) and proves on the model that the intended design conserves supply while the as-built StateDB mechanism does not; each scenario is then run on the real EVM and keepers, and the trace specification decides supply and every tracked balance from the recorded pre/post state - a deviation that the as-built machine does not predict is reported as a different signature than a known one.",
    note="Bounded scenario space (specs/EvmCosmosGen.tla); straight-line contracts; ICS-20 / bank / werc20 precompiles not covered; the known mint/burn mechanisms are listed per scenario class in known_findings.json.")


def run(c):
    evmrun.run_family(c, "C02", "C02", nquick=600, nrand=(150, 15000))


def replay(path, quiet=False):
    sigs = [s for s in evmrun.replay_file(path, "C02") if s.startswith("C02|")]
    if not quiet:
        for s in sigs:
            log("replay shows: " + s)
    return sigs
