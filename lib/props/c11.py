"""C11 Liquid vesting conserves backing and never unlocks early
(specs/LiquidVesting.tla on top of specs/Schedule.tla, harness/liquidvesting.go)."""
import json
import os
import re
import threading
from vlib import *

TRACE_CFG = "LiquidVestingTrace.cfg"
TRACE_MOD = "LiquidVestingTrace.tla"

MANIFEST_ENTRY = dict(engine="LiquidVesting", design="§4 C11",
   technique="TLA+ spec LiquidVesting.tla (on Schedule.tla): TLC exhaustive checking of the split transcription on the whole small input space and of the ledger invariants / step clauses on all accepted message histories of the as-built machine; TLC-simulated behaviours and seeded random large histories executed on the real liquidvesting, vesting, bank and erc20 message servers; every recorded helper output and every recorded step validated by TLC against the property layer (trace validation)",
   text="The split of a lockup schedule (SubtractAmountFromPeriods) is proved exact on every period list of up to 4 periods with amounts 0..4 and every requested amount, on the model and, line by line, on the real function (plus seeded 10^18-scale inputs of up to 8 periods). Liquidate / transfer / redeem histories over three holders with scripted block times are explored exhaustively on the as-built machine (backing, schedule-sums-to-supply, exact split by release instants, no-early-unlock on redeem compared at every critical instant) and replayed on the real keepers, whose stores (module balance, liquid supply and holdings incl. the ERC20 side, Denom records, vesting account records) are projected after every message and checked by TLC; after every redeem the recipient account object itself is asked what it locks at every critical instant (start/end time rule included) and the no-early-unlock clause is evaluated on those answers too; histories contain restarts of the module from its own exported genesis (after full redeems of older tokens), after which the same invariants and clauses apply; histories with many tokens in circulation at once (specs/LiquidVestingMany.tla: 11 to 23 tokens issued, so that the identifiers have one and two digits, then redeemed completely in every order on the model and in random orders on the real keepers, interleaved with transfers, partial redeems, further liquidations and restarts) are judged by the same invariants and frame clauses (the record, supply and holdings of every OTHER token are unchanged by a step).",
   note="Bounded by the constants in specs/LiquidVesting_*.cfg; messages run through MsgServiceRouter handlers on a cached context (baseapp.runMsgs semantics) with scripted block times, not through full DeliverTx; recipients have no delegations; locked amounts are derived from the recorded schedules through the denotation of Schedule.tla (the bank's own LockedCoins at the block time is compared as a diagnostic); TLC, the Json community module and the BigNum override are trusted.")

# regression scenario of finding F2 (merge_min_start, repaired in /repo by c3dec7b; on a tree that has
# the defect it shows C11|redeem-unlocks-early|recipient=existing-vesting,accStart<denomStart): the
# recipient's account starts at t0 with a 1000 s lockup; the liquid token is created at t0+500 and
# is locked for 1000 s more (until t0+1500); the defect re-based it onto t0 when it was redeemed into
# the account, so that the redeemed coins were spendable at t0+1000.
REPRO_F2 = {
    "cfg": {"seed": 11, "minLiq": "1", "accts": {
        "a1": {"kind": "vesting", "start": 0, "lockup": [{"len": 1000, "amt": {"aISLM": "5"}}]},
        "a2": {"kind": "vesting", "start": 0, "lockup": [{"len": 1500, "amt": {"aISLM": "4"}}]},
        "a3": {"kind": "none"}}},
    "steps": [
        {"ev": "liquidate", "args": {"from": "a2", "to": "a2", "amt": "4", "t": 500}},
        {"ev": "redeem", "args": {"from": "a2", "to": "a1", "denom": "aLIQUID0", "amt": "4", "t": 600}},
    ]}


# reproduction of the known finding F17 (aggregate_lock_pairs_grants): a2 holds 10 coins that unlock at
# t=3 but vest only at t=102 (locked 10).  a1 liquidates 5 coins at t=1 that stay locked until t=10 and
# redeems them into a2 at t=5: the right lockup event (5 @ t=10) is attached, but the 5 coins are
# vested at once and the account locks ov - min(unlocked, vested) = 15 - min(10, 5) = 10: the bank
# lets a2 spend 5 coins at t=5.
REPRO_F17 = {
    "cfg": {"seed": 17, "minLiq": "1", "accts": {
        "a1": {"kind": "vesting", "start": 0, "lockup": [{"len": 10, "amt": {"aISLM": "5"}}]},
        "a2": {"kind": "vesting", "start": 2, "lockup": [{"len": 1, "amt": {"aISLM": "10"}}],
               "vesting": [{"len": 100, "amt": {"aISLM": "10"}}]},
        "a3": {"kind": "none"}}},
    "steps": [
        {"ev": "liquidate", "args": {"from": "a1", "to": "a1", "amt": "5", "t": 1}},
        {"ev": "redeem", "args": {"from": "a1", "to": "a2", "denom": "aLIQUID0", "amt": "5", "t": 5}},
    ]}


# regression history for the genesis round trip: three liquidations, the OLDEST token fully redeemed
# (its record is deleted: an id gap below live tokens), a restart of the module from its exported
# genesis, then redeems of the newer tokens
REG_RESTART = {
    "cfg": {"seed": 23, "minLiq": "1", "accts": {
        "a1": {"kind": "vesting", "start": 0, "lockup": [{"len": 4, "amt": {"aISLM": "6"}}, {"len": 4, "amt": {"aISLM": "6"}}]},
        "a2": {"kind": "plain", "extra": "3"},
        "a3": {"kind": "none"}}},
    "steps": [
        {"ev": "liquidate", "args": {"from": "a1", "to": "a1", "amt": "2", "t": 1}},
        {"ev": "liquidate", "args": {"from": "a1", "to": "a2", "amt": "3", "t": 2}},
        {"ev": "liquidate", "args": {"from": "a1", "to": "a1", "amt": "4", "t": 2}},
        {"ev": "redeem", "args": {"from": "a1", "to": "a3", "denom": "aLIQUID0", "amt": "2", "t": 3}},
        {"ev": "export_import", "args": {"t": 3}},
        {"ev": "redeem", "args": {"from": "a2", "to": "a2", "denom": "aLIQUID1", "amt": "1", "t": 4}},
        {"ev": "export_import", "args": {"t": 5}},
        {"ev": "redeem", "args": {"from": "a1", "to": "a3", "denom": "aLIQUID2", "amt": "4", "t": 5}},
        {"ev": "redeem", "args": {"from": "a2", "to": "a1", "denom": "aLIQUID1", "amt": "2", "t": 9}},
    ]}


def _gap(state):
    ex = [d["exists"] for d in state["denoms"]]
    return any((not ex[i]) and any(ex[i + 1:]) for i in range(len(ex)))


def _live(state):
    """identifiers of the tokens in circulation"""
    return [d["id"] for d in state["denoms"] if d["supply"] != "0"]


def _validate(wd):
    res, r = validate_trace(wd, TRACE_MOD, TRACE_CFG, timeout=3000)
    n = count_lines(os.path.join(wd, "trace.ndjson"))
    if res["consumed"] != n:
        raise Infra("trace spec consumed %d of %d lines" % (res["consumed"], n))
    return res


def _read(start, periods, t):
    """the reader of specs/Schedule.tla: sum of the periods ended by t, zero up to the start"""
    if t <= start:
        return 0
    tot, at = 0, start
    for p in periods:
        at += p["len"]
        if at <= t:
            tot += int(p["amt"]["aISLM"])
    return tot


def _redeem_kind(prev, args):
    """recipient of a redeem whose lockup AND vesting are both still running at the block time
    (the recipient classes themselves are counted by the trace specification: stats.redeems)"""
    a = prev["acct"].get(args["to"])
    if a is None or a["kind"] != "vesting":
        return "other"
    ov, t = int(a["ov"]), args["t"]
    if t > a["start"] and _read(a["start"], a["lockup"], t) < ov and _read(a["start"], a["vesting"], t) < ov:
        return "both-running"
    return "other"


def _coverage(path, c):
    cov = dict(liquidate_ok=0, liquidate_other_ok=0, transfer_ok=0, redeem_partial_ok=0, redeem_full_ok=0,
               restarts=0, restarts_with_gap=0, redeem_after_restart_with_gap=0, redeem_into_shorter_lived=0,
               steps_with_11_live_tokens=0, full_redeem_of_id_prefix_of_live_id=0, full_redeem_among_11_live=0,
               restarts_with_11_live_tokens=0, drained_after_11_tokens=0, max_live_tokens=0,
               rejected=0, splits_ok=0, splits_rejected=0, splits_with_residue=0, helper_lines=0, redeem_into={})
    prev = None
    with open(path) as fh:
        for line in fh:
            o = json.loads(line)
            ev = o["ev"]
            if ev == "reset":
                if prev is not None and len(prev["denoms"]) >= 11 and not _live(prev) and prev["mod"] == "0":
                    cov["drained_after_11_tokens"] += 1
                prev = o["post"]
                gapped = False
                continue
            if ev == "pure":
                if o["fn"] == "subtract":
                    if o["ok"]:
                        cov["splits_ok"] += 1
                        ps, x = o["args"]["periods"], int(o["args"]["x"])
                        tot = sum(int(p["amt"]["aISLM"]) for p in ps)
                        if tot and any((int(p["amt"]["aISLM"]) * x) % tot for p in ps):
                            cov["splits_with_residue"] += 1
                        if len(c.samples) < 2 and len(ps) >= 3 and x > 10 ** 18:
                            c.samples.append({k: o[k] for k in ("fn", "args", "ok", "out")})
                    else:
                        cov["splits_rejected"] += 1
                else:
                    cov["helper_lines"] += 1
                continue
            live = _live(prev)
            cov["max_live_tokens"] = max(cov["max_live_tokens"], len(live))
            cov["steps_with_11_live_tokens"] += 1 if len(live) >= 11 else 0
            if ev == "export_import":
                cov["restarts"] += 1 if o["ok"] else 0
                cov["restarts_with_11_live_tokens"] += 1 if o["ok"] and len(live) >= 11 else 0
                if o["ok"] and _gap(prev):
                    cov["restarts_with_gap"] += 1
                    gapped = True
            elif not o["ok"]:
                cov["rejected"] += 1
            elif ev == "liquidate":
                cov["liquidate_ok"] += 1
                cov["liquidate_other_ok"] += 1 if o["args"]["from"] != o["args"]["to"] else 0
            elif ev == "transfer":
                cov["transfer_ok"] += 1
            elif ev == "redeem":
                d = [d for d in o["post"]["denoms"] if d["id"] == o["args"]["denom"]]
                full = bool(d) and not d[0]["exists"]
                cov["redeem_full_ok" if full else "redeem_partial_ok"] += 1
                if full and len(live) >= 11:
                    cov["full_redeem_among_11_live"] += 1
                # the identifier of the token that goes away is the beginning of the identifier of a live one
                if full and any(x != o["args"]["denom"] and x.startswith(o["args"]["denom"]) for x in live):
                    cov["full_redeem_of_id_prefix_of_live_id"] += 1
                cov["redeem_after_restart_with_gap"] += 1 if gapped else 0
                ra = prev["acct"].get(o["args"]["to"])
                pd = [x for x in prev["denoms"] if x["id"] == o["args"]["denom"]]
                if ra and ra["kind"] == "vesting" and pd and ra["end"] < pd[0]["end"] and o["args"]["t"] < pd[0]["end"]:
                    cov["redeem_into_shorter_lived"] += 1
                k = _redeem_kind(prev, o["args"])
                cov["redeem_into"][k] = cov["redeem_into"].get(k, 0) + 1
                if len(c.samples) < 5 and k == "both-running":
                    c.samples.append({"ev": ev, "args": o["args"], "ok": True, "recipient": k,
                                      "post_recipient": o["post"]["acct"][o["args"]["to"]],
                                      "post_denom": d[0] if d else None, "post_mod": o["post"]["mod"]})
            prev = o["post"]
    if prev is not None and len(prev["denoms"]) >= 11 and not _live(prev) and prev["mod"] == "0":
        cov["drained_after_11_tokens"] += 1
    return cov


def _line(path, n):
    with open(path) as fh:
        for i, line in enumerate(fh, 1):
            if i == n:
                return json.loads(line)
    raise Infra("no line %d in %s" % (n, path))


def run(c):
    quick = c.tier == "quick"
    build_harness()
    wd = scratch("C11")

    # 1. the design.  (a) the split transcription on the whole input space (<= 4 periods, amounts 0..4,
    #    every requested amount): SplitOK and never front-loading.  (b) every accepted history of
    #    liquidate / transfer / redeem on the intended machine satisfies P; on the as-built machine P
    #    fails only in the named class (compensated), and does fail there (strict: non-vacuity).
    many_cfg, many_ntok = ("LiquidVestingMany_asbuilt.cfg", 11) if quick else ("LiquidVestingMany_asbuilt_thorough.cfg", 13)
    many_res = {}

    def _many():
        try:
            many_res["r"] = tlc_exhaustive(wd, "LiquidVestingMany.tla", many_cfg, workers=2, timeout=3000)
        except Exception as ex:     # reported by the main thread
            many_res["err"] = ex
    many = threading.Thread(target=_many)
    many.start()
    r = tlc_exhaustive(wd, "LiquidVesting.tla", "LiquidVesting_split.cfg", workers=4, timeout=900)
    c.add_tlc("LiquidVesting_split.cfg", r)
    if r.distinct < 7000:
        raise Infra("split input space smaller than expected: %d" % r.distinct)
    #    Two named deviations: merge_min_start (F2, repaired in /repo; must stay recognisable) and
    #    aggregate_lock_pairs_grants (F17, present: redeem into a recipient whose vesting is unfinished).
    cfgs = ["LiquidVesting_intended.cfg", "LiquidVesting_intended_c.cfg", "LiquidVesting_defect2_comp.cfg"] if quick else \
        ["LiquidVesting_intended_thorough.cfg", "LiquidVesting_intended_b.cfg", "LiquidVesting_intended_c_thorough.cfg",
         "LiquidVesting_defect_comp_b.cfg", "LiquidVesting_defect2_comp_thorough.cfg"]
    for cfg in cfgs:
        r = tlc_exhaustive(wd, "LiquidVesting.tla", cfg, workers=4, timeout=3000)
        c.add_tlc(cfg, r)
    r = tlc_exhaustive(wd, "LiquidVesting.tla", "LiquidVesting_defect_comp.cfg", workers=4, timeout=1500)
    c.add_tlc("LiquidVesting_defect_comp.cfg", r)
    for cfg in ("LiquidVesting_defect_strict.cfg", "LiquidVesting_defect2_strict.cfg"):
        r = tlc_exhaustive(wd, "LiquidVesting.tla", cfg, must="fail", workers=4)
        c.add_tlc(cfg, r)
    #    (c) many tokens in circulation at once (LiquidVestingMany.tla): NTok tokens issued, then every order
    #    in which they are redeemed completely (2^NTok ledgers), all of P; the search depth shows that the
    #    drains end (issue + drain + 1), thorough: NotDrained must fail (the ledger does end empty)
    many.join()
    if many_res.get("err"):
        raise many_res["err"]
    r = many_res["r"]
    c.add_tlc(many_cfg, r)
    m = re.search(r"depth of the complete state graph search is (\d+)", r.out)
    if r.distinct < 2 ** many_ntok or not m or int(m.group(1)) < 2 * many_ntok + 1:
        raise Infra("many-token exploration smaller than expected: %d states, depth %s" % (r.distinct, m and m.group(1)))
    if not quick:
        r = tlc_exhaustive(wd, "LiquidVestingMany.tla", "LiquidVestingMany_drained.cfg", must="fail", workers=4, timeout=1500)
        c.add_tlc("LiquidVestingMany_drained.cfg", r)

    # 2. spec -> code: behaviours of the as-built machine as scripts (two initial configurations), the
    #    regression scenario of finding F2, the enumerated split inputs and seeded random inputs
    nscripts = 100 if quick else 1200
    scripts = []
    for cfg in ("LiquidVesting_sim.cfg", "LiquidVesting_sim2.cfg", "LiquidVesting_sim3.cfg"):
        sc, _ = tlc_scripts(wd, "LiquidVesting.tla", cfg, nscripts, 8, c.seed)
        if len(sc) < nscripts // 2:
            raise Infra("too few scripts generated from %s: %d" % (cfg, len(sc)))
        scripts += [{"cfg": s["cfg"], "steps": [{"ev": st["ev"], "args": st["args"]} for st in s["steps"]]} for s in sc]
    #    histories with many tokens (issue 12, then drain): 32 steps each
    nmany = 12 if quick else 40
    sc, _ = tlc_scripts(wd, "LiquidVestingMany.tla", "LiquidVestingMany_sim.cfg", nmany, 32, c.seed)
    if len(sc) < nmany // 2:
        raise Infra("too few scripts generated from LiquidVestingMany_sim.cfg: %d" % len(sc))
    scripts += [{"cfg": s["cfg"], "steps": [{"ev": st["ev"], "args": st["args"]} for st in s["steps"]]} for s in sc]
    scripts.append(REPRO_F2)
    scripts.append(REPRO_F17)
    scripts.append(REG_RESTART)
    with open(os.path.join(wd, "scripts.json"), "w") as fh:
        json.dump(scripts, fh)
    nrandom = 80 if quick else 1500
    npure = 1500 if quick else 40000
    hv(["liquidvesting", "--enum", "4,4", "--pure-random", str(npure), "--scripts", "scripts.json",
        "--random", str(nrandom), "--steps", "10" if quick else "16",
        "--many", "12" if quick else "60", "--tokens", "12", "--seed", str(c.seed),
        "--out", "trace.ndjson"], cwd=wd, timeout=6000)

    # 3. code -> spec
    res = _validate(wd)
    trace = os.path.join(wd, "trace.ndjson")
    cov = _coverage(trace, c)
    c.traces = res["scenarios"]
    c.extra["trace_lines"] = res["consumed"]
    c.extra["history_steps_validated"] = res["stats"]["steps"]
    c.extra["accepted_splits_validated"] = res["stats"]["splits"]
    c.extra["scripts_replayed"] = len(scripts)
    c.extra["random_scenarios"] = nrandom
    c.extra["many_token_scripts"] = len(sc)
    c.extra["many_token_random_scenarios"] = 12 if quick else 60
    c.extra["coverage"] = cov
    c.extra["conformance_divergences"] = res["div"][:20]
    c.extra["conformance_divergence_count"] = len(res["div"])
    if res["div"]:
        log("note: %d steps where the real code is not the as-built machine of the specification (diagnostic): %s"
            % (len(res["div"]), sorted({d["what"] for d in res["div"]})))

    # 4. verdict: every signature is reproduced alone from its recorded scenario (or pure line)
    def replay_for(v):
        lines = scenario_lines(trace, v["scn"])
        if lines[0].get("mode") == "pure":
            o = _line(trace, v["line"])
            script = {"cases": [{"fn": o["fn"], "args": o["args"]}]}
        else:
            script = {"cfg": lines[0]["cfg"], "steps": [{"ev": l["ev"], "args": l["args"]} for l in lines[1:]]}
        return save_replay("C11", "%s-scn%d-l%d" % (c.seed, v["scn"], v["line"]),
                           {"property": "C11", "driver": "liquidvesting", "script": script, "signature": sig_of(v)})

    first = {}
    for v in sorted(res["viol"], key=lambda v: v["line"]):
        first.setdefault(sig_of(v), v)
    confirmed = []
    for s, v in first.items():
        path = replay_for(v)
        if s in replay(path, quiet=True):
            confirmed.append(v)
            c.replays[s] = path
        else:
            raise Infra("signature %s did not reproduce from %s" % (s, path))
    c.add_violations(confirmed)

    # vacuity floors.  A run that shows a new violation is reported as such even if it is otherwise
    # thin (a broken tree may make every later message fail); without one, a thin run is exit 2.
    floors = [("liquidate_ok", 100), ("liquidate_other_ok", 20), ("transfer_ok", 20), ("redeem_partial_ok", 50),
              ("redeem_full_ok", 30), ("splits_ok", 6000), ("splits_with_residue", 1000), ("splits_rejected", 500),
              ("helper_lines", 500), ("restarts_with_gap", 5), ("redeem_after_restart_with_gap", 5),
              ("redeem_into_shorter_lived", 5), ("steps_with_11_live_tokens", 100), ("full_redeem_among_11_live", 10),
              ("full_redeem_of_id_prefix_of_live_id", 5), ("drained_after_11_tokens", 5)]
    thin = ["%s = %d < %d" % (k, cov[k], n) for k, n in floors if cov[k] < n]
    classes = {k: n for k, n in res["stats"]["redeems"].items() if k != "none"}
    classes["both-running"] = cov["redeem_into"].get("both-running", 0)
    cov["redeem_into"] = classes
    thin += ["successful redeems into %s: %d < 5" % (k, classes.get(k, 0))
             for k in ("recipient=fresh", "recipient=plain", "recipient=existing-vesting,accStart<denomStart",
                       "recipient=existing-vesting,accStart>denomStart", "recipient=vesting-unfinished,lockup-ahead",
                       "recipient=vesting-unfinished,lockup-not-ahead", "both-running") if classes.get(k, 0) < 5]
    if thin:
        known = {k["signature"] for k in load_known() if k["property"] == "C11" and k.get("status", "known") == "known"}
        if all(sig_of(v) in known for v in confirmed):
            raise Infra("vacuous run: " + "; ".join(thin))
        log("note: thin run (%s); reported because it shows a new violation" % "; ".join(thin))
        c.extra["thin_run"] = thin
    c.assumptions += [
        "TLC and the BigNum Java override (java/BigNum.java) are trusted",
        "the projection in harness/liquidvesting.go reads the real stores (bank balances and supply, ERC20 balanceOf, liquidvesting Denom records, auth accounts)",
        "messages are executed through MsgServiceRouter handlers on a cached context (as baseapp.runMsgs does) with scripted block times, not through full DeliverTx",
        "what an account may spend is derived from its recorded schedules and end time (locked = original vesting - min(unlocked, vested), everything released from the recorded end time on) and, for the recipient of a redeem, also read from the account object's own LockedCoins(time); recipients have no delegations",
        "a restart is the liquidvesting module's ExportGenesis -> JSON -> Validate -> wiped module store -> InitGenesis on the same application (bank, erc20 and auth state stay), not an application-level export and InitChain",
        "exhaustive model checking is bounded by the constants in specs/LiquidVesting_*.cfg",
    ]


def replay(path, quiet=False):
    """re-executes one saved scenario (or pure case) on the real code and returns the signatures it shows"""
    build_harness()
    wd = scratch("C11-replay")
    obj = json.load(open(path))
    with open(os.path.join(wd, "scripts.json"), "w") as fh:
        json.dump([obj["script"]], fh)
    hv(["liquidvesting", "--scripts", "scripts.json", "--out", "trace.ndjson"], cwd=wd)
    res, _ = validate_trace(wd, TRACE_MOD, TRACE_CFG)
    sigs = sorted({sig_of(v) for v in res["viol"]})
    if not quiet:
        for s in sigs:
            log("replay shows: " + s)
    return sigs
