"""C13 Coinomics mints the formula amount and never exceeds the cap
(specs/Coinomics.tla, specs/Dec18.tla, specs/CoinomicsTrace.tla, harness/coinomics.go)."""
import datetime
import json
import os
from collections import Counter
from vlib import *

TRACE_CFG = "CoinomicsTrace.cfg"
NATIVE = "aISLM"

MANIFEST_ENTRY = dict(engine="Coinomics", design="§4 C13",
   technique="TLA+ specs Coinomics.tla + CoinomicsBlock.tla + Dec18.tla: TLC exhaustive model checking of the per-block mint/cap rules and of whole blocks (validator-set changes, parameter proposals and the order of the end blockers); TLC-simulated sequences and seeded random 128-bit scenarios executed on the real x/coinomics EndBlocker at scripted block times, TLC-simulated and seeded random whole blocks executed on the real application through ABCI; every recorded block validated by TLC (exact BigNum arithmetic) against the property layer (trace validation)",
   text="The statement is written as TLA+ clauses over (bank supply, fee collector, params, bonded, max supply) before/after a block: the minted integer must be the nearest integer to some value an 18-decimal evaluation of bonded x coeff% x elapsed/year can reach (band checked by exact cross-multiplication, no association order imposed), elapsed is the difference of consecutive block timestamps, the year length follows the block's calendar year, supply' = supply + min(mint, max - supply) where max is the configured amount whatever it is (placed relative to the supply or configured absolutely: zero, a few units, far below the supply) and whatever denomination label MaxSupply is stored with (the statement knows one coin, so the label has no meaning for P), the crossing block mints the remainder and switches minting off, nothing is minted while disabled / on the first block after an activation / at or above the cap, and everything minted reaches the fee collector. TLC proves these clauses for the intended design on all block/parameter-change sequences up to the configured length over small grids (incl. rounding ties, year boundaries, every position of the cap relative to the mint); TLC-generated sequences and random large-value sequences are run on the real EndBlocker and each step is judged by TLC against the clauses. SDK LegacyDec semantics (Dec18.tla) are additionally compared with the real library on random vectors. Whole blocks: the statement does not say at which instant of a block bonded and the parameters are read; P fixes it as app.go wires it - the mint of block h is computed from the bonded tokens, RewardCoefficient and EnableCoinomics that block h leaves behind (transactions and every other module's end blocker applied: a validator that leaves the bonded set in block h earns nothing for it, one that joins does, a parameter proposal applies to the block that executes it). CoinomicsBlock.tla models the block (BeginBlock jailing by double-sign evidence and downtime, delegate / undelegate / create-validator / unjail / proposal transactions, the gov, staking and coinomics end blockers); TLC checks the clause on all block sequences within the bounds, and witness configurations with coinomics wired before staking or before gov must violate it. Its block scripts and seeded random block scenarios run on the real application (InitChain, BeginBlock with evidence and absences, signed transactions, EndBlock of all modules, Commit) and every block is judged by TLC from the states read before and after the application's EndBlock and the proposals the gov store shows as executed.",
   note="EndBlocker scenarios: the EndBlocker is called directly on a deliver-state context (cache-wrapped per scenario) with scripted block times; bonded is set through the bonded-pool balance that TotalBondedTokens reads; other modules' EndBlockers do not run. Block scenarios: a fresh application per scenario driven through ABCI with the harness as consensus (votes and evidence are what the scenario says); the cap is placed relative to the genesis supply through the keeper before block 1; the mint is the supply difference across the application's EndBlock (nothing in the scenarios' transactions mints or burns the native coin; a supply change before EndBlock is reported as divergence). The band is deliberately permissive for large bonded amounts (18-decimal noise scales with bonded), so rounding-mode mutations are visible only on the small-amount scenarios. Exhaustive checking is bounded by specs/Coinomics_*.cfg; TLC, the Json module and the BigNum override are trusted.")


def _year(ms):
    return (datetime.datetime(1970, 1, 1) + datetime.timedelta(milliseconds=ms)).year


def _leap(y):
    return (y % 4 == 0 and y % 100 != 0) or y % 400 == 0


def _write_scripts(scripts, path):
    with open(path, "w") as fh:
        json.dump([{"cfg": s["cfg"], "steps": [{"ev": st["ev"], "args": st["args"]} for st in s["steps"]]}
                   for s in scripts], fh)


def _validate(wd):
    res, r = validate_trace(wd, "CoinomicsTrace.tla", TRACE_CFG, timeout=3000)
    n = count_lines(os.path.join(wd, "trace.ndjson"))
    if res["consumed"] != n:
        raise Infra("trace spec consumed %d of %d lines" % (res["consumed"], n))
    return res


def _census(path, cen, samples):
    """Which situations the recorded blocks exercised (python side, for vacuity floors and the
    evidence file only).  Situations are defined by the inputs of a block (pre-state, timestamps,
    history of the enable flag), not by what the code did with them."""
    pre, last, mode, stale = None, 0, "fresh", None
    with open(path) as fh:
        for line in fh:
            o = json.loads(line)
            ev = o["ev"]
            if ev == "dec":
                cen["dec_vectors"] += 1
                continue
            post = o["post"]
            if ev == "reset":
                pre, last, mode, stale = post, 0, "fresh", None
                continue
            if ev == "block":
                # whole block: s = committed by the previous block, b = before the application's EndBlock
                s, b = pre, o["pre"]
                ts = int(o["args"]["ts"])
                en = b["enabled"]
                for g in o["gov"]:
                    if g["key"] == "enabled":
                        en = g["val"] == "true"
                cen["chain_blocks"] += 1
                room = int(b["max"]) - int(b["supply"])
                year = 31622400000 if _leap(_year(ts)) else 31536000000
                due = int(post["bonded"]) * int(post["coeff"]) * (ts - last) // (10 ** 20 * year) if last else 0
                moved = lambda x, y: abs(int(x) - int(y)) * 1000 > int(y)        # by more than 0.1 %
                if en and mode == "live" and due >= 1:
                    cen["chain_blocks_due_to_mint"] += 1
                    if int(post["bonded"]) < int(b["bonded"]) and moved(post["bonded"], b["bonded"]):
                        cen["chain_due_validator_left_in_endblock"] += 1
                    if int(post["bonded"]) > int(b["bonded"]) and moved(post["bonded"], b["bonded"]):
                        cen["chain_due_validator_joined_in_endblock"] += 1
                    if b["bonded"] != s["bonded"]:
                        cen["chain_due_bonded_moved_by_transactions"] += 1
                    if post["coeff"] != b["coeff"]:
                        cen["chain_due_coeff_changed_by_gov"] += 1
                    if 0 <= room < due:
                        cen["chain_due_to_cross_cap"] += 1
                        if b["maxDenom"] != NATIVE:
                            cen["chain_due_to_cross_cap_other_label"] += 1
                    if len(samples) < 8 and int(post["bonded"]) != int(b["bonded"]) and room > due and cen["chain_samples"] < 2:
                        cen["chain_samples"] += 1
                        samples.append({k: o[k] for k in ("ev", "args", "pre", "gov", "post")})
                if b["enabled"] and not en and mode == "live":
                    cen["chain_disabled_by_gov_while_minting"] += 1
                if en and mode == "fresh":
                    cen["chain_first_block_after_activation"] += 1
                    if not b["enabled"]:
                        cen["chain_activated_by_gov"] += 1
                for t in o["info"]["txs"]:
                    if t.endswith(":0"):
                        cen["chain_tx_" + t.split(":")[0]] += 1
                if o["args"]["evidence"]:
                    cen["chain_blocks_with_evidence"] += 1
                if o["args"]["absent"]:
                    cen["chain_blocks_with_absent_validator"] += 1
                if "j" in o["info"]["vals"]:
                    cen["chain_blocks_with_jailed_validator"] += 1
                mode = "fresh" if not en else ("live" if post["enabled"] else "ambiguous")
                last = ts
                pre = post
                continue
            if ev == "set_enabled" and mode == "live" and not o["args"]["enabled"]:
                mode = "ambiguous"
            if ev == "endblock":
                ts = int(o["args"]["ts"])
                minted = int(post["supply"]) - int(pre["supply"])
                room = int(pre["max"]) - int(pre["supply"])
                bonded = int(pre["bonded"])
                cen["blocks"] += 1
                if not pre["enabled"]:
                    cen["blocks_disabled"] += 1
                    if pre["prevTs"] != "0":
                        stale = "disabled-blocks"
                else:
                    year = 31622400000 if _leap(_year(ts)) else 31536000000
                    due = bonded * int(pre["coeff"]) * (ts - last) // (10 ** 20 * year) if last else 0
                    if mode == "fresh":
                        cen["blocks_first_after_activation"] += 1
                        if last:
                            cen["blocks_first_after_reactivation"] += 1
                    elif mode == "live":
                        cen["blocks_live"] += 1
                        if due >= 1 and room >= 1:
                            cen["blocks_due_to_mint"] += 1
                            if bonded < 10 ** 12:
                                cen["blocks_due_to_mint_small_bonded"] += 1
                            if len(samples) < 3 and bonded > 10 ** 20 and room > due:
                                samples.append({"ev": ev, "args": o["args"], "pre": pre, "post": post})
                        # how the maximum is configured: an absolute value (zero, far below the supply) rather than
                        # a distance from the supply; the denomination label MaxSupply is stored with
                        if due >= 1 and int(pre["max"]) == 0:
                            cen["blocks_due_to_mint_cap_zero"] += 1
                        if due >= 1 and 0 < int(pre["max"]) < int(pre["supply"]) // 2:
                            cen["blocks_due_to_mint_cap_far_below_supply"] += 1
                        if due >= 1 and room >= 1 and pre["maxDenom"] != NATIVE:
                            cen["blocks_due_to_mint_other_label"] += 1
                        if 0 <= room < due and pre["maxDenom"] != NATIVE:
                            cen["blocks_due_to_cross_cap_other_label"] += 1
                        if 0 <= room < due:
                            cen["blocks_due_to_cross_cap"] += 1
                            if len(samples) < 5 and room > 0:
                                samples.append({"ev": ev, "args": o["args"], "pre": pre, "post": post})
                    # the two ways a stale PrevBlockTS reaches an enabled block (what the code did; not a floor)
                    if stale and minted > 0:
                        cen["reactivation_mints_after_" + stale] += 1
                    stale = "above-cap-path" if room < 0 and pre["prevTs"] != "0" else None
                    if room < 0:
                        cen["blocks_above_cap"] += 1
                    elif room == 0:
                        cen["blocks_at_cap"] += 1
                    if last and ts == last:
                        cen["blocks_equal_timestamp"] += 1
                    if last and _year(ts) != _year(last):
                        cen["blocks_across_new_year"] += 1
                    cen["blocks_leap_year" if _leap(_year(ts)) else "blocks_common_year"] += 1
                    if int(pre["supply"]) >= 2 ** 100 or bonded >= 2 ** 100:
                        cen["blocks_100bit_values"] += 1
                mode = "fresh" if not pre["enabled"] else ("live" if post["enabled"] else "ambiguous")
                last = ts
            pre = post


def _agreement(path, bscripts, agree):
    """block scripts: the expectation of the scenario machine (field exp of every step) against the recording"""
    exps = [[st["exp"] for st in s["steps"]] for s in bscripts]
    k, i = -1, 0
    with open(path) as fh:
        for line in fh:
            o = json.loads(line)
            if o["ev"] == "reset":
                if o.get("src") == "script" and isinstance(o.get("cfg"), dict) and o["cfg"].get("mode") == "chain":
                    k, i = k + 1, 0
                else:
                    i = None
                continue
            if o["ev"] != "block" or i is None or k >= len(exps) or i >= len(exps[k]):
                continue
            e, post = exps[k][i], o["post"]
            i += 1
            got = dict(bonded=post["bonded"], enabled=post["enabled"], coeff=post["coeff"], prevTs=post["prevTs"],
                       minted=str(int(post["supply"]) - int(o["pre"]["supply"])))
            agree["blocks"] += 1
            for f in got:
                if got[f] != e[f]:
                    agree["differs_" + f] += 1


def run(c):
    quick = c.tier == "quick"
    build_harness()
    wd = scratch("C13")

    # 1. the design: exhaustive model checking of P on the intended machine; on the as-built machine
    #    (stale PrevBlockTS across disabled blocks) P fails only through the named defect
    #    (compensated passes, strict must fail = non-vacuity witness); two reachability probes
    #    whole blocks (CoinomicsBlock): P on the as-built block, intended and with the named defect;
    #    hypothetical wirings of the coinomics end blocker before staking / before gov must violate P;
    #    reachability probes.  The configurations are independent: a few TLC processes run side by side.
    from concurrent.futures import ThreadPoolExecutor
    suffix = ".cfg" if quick else "_thorough.cfg"
    jobs = [("Coinomics.tla", "Coinomics_intended" + suffix, "pass", 4),
            ("Coinomics.tla", "Coinomics_defect_comp.cfg", "pass", 4),
            ("CoinomicsBlock.tla", "CoinomicsBlock_intended" + suffix, "pass", 4),
            ("CoinomicsBlock.tla", "CoinomicsBlock_defect_comp" + suffix, "pass", 4),
            ("Coinomics.tla", "Coinomics_defect_strict.cfg", "fail", 4),
            ("Coinomics.tla", "Coinomics_probe_cross.cfg", "fail", 2),
            ("Coinomics.tla", "Coinomics_probe_round.cfg", "fail", 2)]
    jobs += [("CoinomicsBlock.tla", "CoinomicsBlock_%s.cfg" % n, "fail", 2)
             for n in ("order_staking", "order_gov", "probe_leave", "probe_join", "probe_coeff")]
    #    They also run beside the scenario batches below (which are single-threaded) and are collected at the end.
    pool = ThreadPoolExecutor(max_workers=3)
    futs = [(j, pool.submit(tlc_exhaustive, wd, j[0], j[1], must=j[2], workers=j[3] if quick else 2 * j[3],
                            timeout=3000, extra=["-noGenerateSpecTE"])) for j in jobs]
    try:
        _scenarios(c, wd, quick)
        for j, f in futs:
            c.add_tlc(j[1], f.result())
    finally:
        pool.shutdown(wait=True, cancel_futures=True)


def _scenarios(c, wd, quick):

    # 2./3. spec -> code and code -> spec, in batches (one harness run + one validation JVM each)
    batches = 1 if quick else 4
    nscripts = 1500 if quick else 4000
    nrandom = 2500 if quick else 5000
    nsteps = 14 if quick else 24
    ndec = 3000 if quick else 10000
    nbscripts = 120 if quick else 250
    nbrandom = 150 if quick else 300
    nbsteps = 12 if quick else 16
    agree = Counter()
    cen = Counter()
    first, divs, ndiv = {}, [], 0
    c.traces = 0
    c.extra.update(trace_lines=0, scripts_replayed=0, random_scenarios=0)
    trace = os.path.join(wd, "trace.ndjson")

    def replay_for(v, seed):
        lines = scenario_lines(trace, v["scn"])
        script = {"cfg": lines[0]["cfg"], "steps": [{"ev": l["ev"], "args": l["args"]} for l in lines[1:]]}
        if lines[0]["cfg"].get("mode") == "chain":
            script["cfg"]["seed"] = lines[0]["cfg"]["seed"]      # the keys of the recorded run
        return save_replay("C13", "%s-scn%d" % (seed, v["scn"]),
                           {"property": "C13", "driver": "coinomics", "script": script, "signature": sig_of(v)})

    for b in range(batches):
        seed = c.seed if batches == 1 else c.seed * 1000 + b
        scripts, r = tlc_scripts(wd, "Coinomics.tla", "Coinomics_sim.cfg", nscripts, 10, seed, timeout=1800)
        if len(scripts) < nscripts // 2:
            raise Infra("too few scripts generated: %d" % len(scripts))
        _write_scripts(scripts, os.path.join(wd, "scripts.json"))
        bscripts, r = tlc_scripts(wd, "CoinomicsBlock.tla", "CoinomicsBlock_sim.cfg", nbscripts, 10, seed, timeout=1800)
        if len(bscripts) < nbscripts // 2:
            raise Infra("too few block scripts generated: %d" % len(bscripts))
        _write_scripts(bscripts, os.path.join(wd, "chain-scripts.json"))
        hv(["coinomics", "--scripts", "scripts.json", "--random", str(nrandom), "--steps", str(nsteps),
            "--chain-scripts", "chain-scripts.json", "--chain-random", str(nbrandom), "--chain-steps", str(nbsteps),
            "--decvec", str(ndec), "--seed", str(seed), "--out", "trace.ndjson"], cwd=wd)
        _agreement(trace, bscripts, agree)
        c.extra["block_scripts_replayed"] = c.extra.get("block_scripts_replayed", 0) + len(bscripts)
        c.extra["block_random_scenarios"] = c.extra.get("block_random_scenarios", 0) + nbrandom
        res = _validate(wd)
        c.traces += res["scenarios"]
        c.extra["trace_lines"] += res["consumed"]
        c.extra["scripts_replayed"] += len(scripts)
        c.extra["random_scenarios"] += nrandom
        ndiv += len(res["div"])
        divs += res["div"][:20]
        _census(trace, cen, c.samples)
        # every new signature is re-executed alone from its recorded scenario before it counts
        for v in sorted(res["viol"], key=lambda v: v["line"]):
            s = sig_of(v)
            if s in first:
                continue
            path = replay_for(v, seed)
            if s in replay(path, quiet=True):
                first[s] = v
                c.replays[s] = path
            else:
                raise Infra("signature %s did not reproduce from %s" % (s, path))

    c.extra["conformance_divergences"] = divs[:20]
    c.extra["conformance_divergence_count"] = ndiv
    cen.pop("chain_samples", None)
    c.extra["exercised"] = dict(sorted(cen.items()))
    # how well the scenario machine of CoinomicsBlock.tla (its staking / slashing / gov environment) predicted
    # what the real blocks of its scripts left behind (diagnostic: the verdict never uses the prediction)
    c.extra["block_scenario_model_agreement"] = dict(sorted(agree.items()))
    if ndiv:
        log("NOTE: %d divergences between the recorded executions and the as-built machine M / Dec18 "
            "(diagnostic, not a verdict): %s" % (ndiv, json.dumps(divs[:3])))
    c.add_violations(list(first.values()))
    floors = dict(blocks_due_to_mint=300, blocks_due_to_mint_small_bonded=50, blocks_due_to_cross_cap=30,
                  blocks_disabled=100, blocks_first_after_activation=300, blocks_first_after_reactivation=50,
                  blocks_at_cap=20, blocks_above_cap=20, blocks_due_to_mint_cap_zero=30,
                  blocks_due_to_mint_cap_far_below_supply=10, blocks_due_to_mint_other_label=100,
                  blocks_due_to_cross_cap_other_label=10, chain_due_to_cross_cap_other_label=3, blocks_across_new_year=50, blocks_leap_year=200,
                  blocks_common_year=200, blocks_equal_timestamp=30, blocks_100bit_values=200, dec_vectors=1000,
                  chain_blocks=1500, chain_blocks_due_to_mint=400, chain_due_validator_left_in_endblock=25,
                  chain_due_validator_joined_in_endblock=25, chain_due_bonded_moved_by_transactions=50,
                  chain_due_coeff_changed_by_gov=15, chain_disabled_by_gov_while_minting=15, chain_activated_by_gov=15,
                  chain_blocks_with_evidence=30, chain_blocks_with_absent_validator=30, chain_tx_create=30,
                  chain_tx_unjail=10)
    short = {k: cen[k] for k, f in floors.items() if cen[k] < f}
    c.extra["vacuity_floors_missed"] = short
    listed = {k["signature"] for k in load_known() if k.get("status", "known") == "known"}
    if short and not (set(first) - listed):
        # (an unlisted violation reproduced on the real code stands on its own; without one, a thin run is not a pass)
        raise Infra("vacuous run: %s below the floors %s" % (short, {k: floors[k] for k in short}))
    c.assumptions += [
        "TLC 1.8.0, the Json community module and the BigNum Java override (java/BigNum.java) are trusted",
        "the projection in harness/coinomics.go reads bank supply, fee-collector balance, coinomics params, PrevBlockTS, MaxSupply and staking TotalBondedTokens through the real keepers",
        "EndBlocker scenarios: keeper.EndBlocker is called directly with ctx.WithBlockTime(scripted time) on a cache-wrapped deliver context; BeginBlock/EndBlock of other modules do not run, so the fee collector is not drained between blocks",
        "block scenarios: the application is driven through ABCI (InitChain, BeginBlock, DeliverTx, EndBlock, Commit) with the harness as consensus: last-commit votes, absences and double-sign evidence are what the scenario says; the proposer is always validator 1, which the scenarios never take out of the bonded set",
        "block scenarios: P reads 'the mint of block h' as the supply difference across the application's EndBlock, computed from bonded / RewardCoefficient as read after it (coinomics writes neither) and EnableCoinomics as read before it with the parameter changes of the proposals applied that the gov store shows as moved from the voting period to PASSED by this EndBlock",
        "block scenarios generated by TLC run with slash fractions 0 (exchange rate 1 in the scenario machine); half of the seeded random ones slash 5 % / 1 %",
        "MaxSupply is written through keeper.SetMaxSupply (what InitGenesis calls) with the amount and denomination label of the scenario; params.MintDenom stays aISLM in every scenario (the statement speaks of the native coin only), and P judges the bank supply of params.MintDenom against the amount of MaxSupply whatever its label",
        "bonded is controlled through the balance of the bonded pool (what TotalBondedTokens reads), not through delegations",
        "the amount is judged against a band (18-decimal noise scaled by bonded, plus 1/2 + 1/1000), not against one association order; exact agreement with the as-built formula is reported as conformance only",
        "exhaustive model checking is bounded by the constants in specs/Coinomics_*.cfg (env steps between two blocks in canonical order)",
    ]


def replay(path, quiet=False):
    """re-executes one saved scenario on the real code and returns the signatures it shows"""
    build_harness()
    wd = scratch("C13-replay")
    obj = json.load(open(path))
    with open(os.path.join(wd, "scripts.json"), "w") as fh:
        json.dump([obj["script"]], fh)
    flag = "--chain-scripts" if obj["script"]["cfg"].get("mode") == "chain" else "--scripts"
    hv(["coinomics", flag, "scripts.json", "--out", "trace.ndjson"], cwd=wd)
    res, _ = validate_trace(wd, "CoinomicsTrace.tla", TRACE_CFG)
    sigs = sorted({sig_of(v) for v in res["viol"]})
    if not quiet:
        for s in sigs:
            log("replay shows: " + s)
    return sigs
