"""C13 Coinomics mints the formula amount and never exceeds the cap
(specs/Coinomics.tla, specs/Dec18.tla, specs/CoinomicsTrace.tla, harness/coinomics.go)."""
import datetime
import json
import os
from vlib import *

TRACE_CFG = "CoinomicsTrace.cfg"

MANIFEST_ENTRY = dict(engine="Coinomics", design="§4 C13",
   technique="TLA+ specs Coinomics.tla + Dec18.tla: TLC exhaustive model checking of the per-block mint/cap rules; TLC-simulated block sequences and seeded random 128-bit scenarios executed on the real x/coinomics EndBlocker at scripted block times; every recorded block validated by TLC (exact BigNum arithmetic) against the property layer (trace validation)",
   text="The statement is written as TLA+ clauses over (bank supply, fee collector, params, bonded, max supply) before/after a block: the minted integer must be the nearest integer to some value an 18-decimal evaluation of bonded x coeff% x elapsed/year can reach (band checked by exact cross-multiplication, no association order imposed), elapsed is the difference of consecutive block timestamps, the year length follows the block's calendar year, supply' = supply + min(mint, max - supply), the crossing block mints the remainder and switches minting off, nothing is minted while disabled / on the first block after an activation / at or above the cap, and everything minted reaches the fee collector. TLC proves these clauses for the intended design on all block/parameter-change sequences up to the configured length over small grids (incl. rounding ties, year boundaries, every position of the cap relative to the mint); TLC-generated sequences and random large-value sequences are run on the real EndBlocker and each step is judged by TLC against the clauses. SDK LegacyDec semantics (Dec18.tla) are additionally compared with the real library on random vectors.",
   note="EndBlocker is called directly on a deliver-state context (cache-wrapped per scenario) with scripted block times; bonded is set through the bonded-pool balance that TotalBondedTokens reads; other modules' EndBlockers do not run. The band is deliberately permissive for large bonded amounts (18-decimal noise scales with bonded), so rounding-mode mutations are visible only on the small-amount scenarios. Exhaustive checking is bounded by specs/Coinomics_*.cfg; TLC, the Json module and the BigNum override are trusted.")


def _year(ms):
    return (datetime.datetime(1970, 1, 1) + datetime.timedelta(milliseconds=ms)).year


def _leap(y):
    return (y % 4 == 0 and y % 100 != 0) or y % 400 == 0


def _write_scripts(scripts, path):
    with open(path, "w") as fh:
        json.dump([{"cfg": s["cfg"], "steps": [{"ev": st["ev"], "args": st["args"]} for st in s["steps"]]}
                   for s in scripts], fh)


def _validate(wd):
    res, r = validate_trace(wd, "CoinomicsTrace.tla", TRACE_CFG, timeout=3000)
    n = count_lines(os.path.join(wd, "trace.ndjson"))
    if res["consumed"] != n:
        raise Infra("trace spec consumed %d of %d lines" % (res["consumed"], n))
    return res


def _census(path, cen, samples):
    """Which situations the recorded blocks exercised (python side, for vacuity floors and the
    evidence file only).  Situations are defined by the inputs of a block (pre-state, timestamps,
    history of the enable flag), not by what the code did with them."""
    pre, last, mode, stale = None, 0, "fresh", None
    with open(path) as fh:
        for line in fh:
            o = json.loads(line)
            ev = o["ev"]
            if ev == "dec":
                cen["dec_vectors"] += 1
                continue
            post = o["post"]
            if ev == "reset":
                pre, last, mode, stale = post, 0, "fresh", None
                continue
            if ev == "set_enabled" and mode == "live" and not o["args"]["enabled"]:
                mode = "ambiguous"
            if ev == "endblock":
                ts = int(o["args"]["ts"])
                minted = int(post["supply"]) - int(pre["supply"])
                room = int(pre["max"]) - int(pre["supply"])
                bonded = int(pre["bonded"])
                cen["blocks"] += 1
                if not pre["enabled"]:
                    cen["blocks_disabled"] += 1
                    if pre["prevTs"] != "0":
                        stale = "disabled-blocks"
                else:
                    year = 31622400000 if _leap(_year(ts)) else 31536000000
                    due = bonded * int(pre["coeff"]) * (ts - last) // (10 ** 20 * year) if last else 0
                    if mode == "fresh":
                        cen["blocks_first_after_activation"] += 1
                        if last:
                            cen["blocks_first_after_reactivation"] += 1
                    elif mode == "live":
                        cen["blocks_live"] += 1
                        if due >= 1 and room >= 1:
                            cen["blocks_due_to_mint"] += 1
                            if bonded < 10 ** 12:
                                cen["blocks_due_to_mint_small_bonded"] += 1
                            if len(samples) < 3 and bonded > 10 ** 20 and room > due:
                                samples.append({"ev": ev, "args": o["args"], "pre": pre, "post": post})
                        if 0 <= room < due:
                            cen["blocks_due_to_cross_cap"] += 1
                            if len(samples) < 5 and room > 0:
                                samples.append({"ev": ev, "args": o["args"], "pre": pre, "post": post})
                    # the two ways a stale PrevBlockTS reaches an enabled block (what the code did; not a floor)
                    if stale and minted > 0:
                        cen["reactivation_mints_after_" + stale] += 1
                    stale = "above-cap-path" if room < 0 and pre["prevTs"] != "0" else None
                    if room < 0:
                        cen["blocks_above_cap"] += 1
                    elif room == 0:
                        cen["blocks_at_cap"] += 1
                    if last and ts == last:
                        cen["blocks_equal_timestamp"] += 1
                    if last and _year(ts) != _year(last):
                        cen["blocks_across_new_year"] += 1
                    cen["blocks_leap_year" if _leap(_year(ts)) else "blocks_common_year"] += 1
                    if int(pre["supply"]) >= 2 ** 100 or bonded >= 2 ** 100:
                        cen["blocks_100bit_values"] += 1
                mode = "fresh" if not pre["enabled"] else ("live" if post["enabled"] else "ambiguous")
                last = ts
            pre = post


def run(c):
    quick = c.tier == "quick"
    build_harness()
    wd = scratch("C13")

    # 1. the design: exhaustive model checking of P on the intended machine; on the as-built machine
    #    (stale PrevBlockTS across disabled blocks) P fails only through the named defect
    #    (compensated passes, strict must fail = non-vacuity witness); two reachability probes
    cfg = "Coinomics_intended.cfg" if quick else "Coinomics_intended_thorough.cfg"
    r = tlc_exhaustive(wd, "Coinomics.tla", cfg, workers=8, timeout=3000)
    c.add_tlc(cfg, r)
    r = tlc_exhaustive(wd, "Coinomics.tla", "Coinomics_defect_comp.cfg", workers=8, timeout=3000)
    c.add_tlc("Coinomics_defect_comp.cfg", r)
    r = tlc_exhaustive(wd, "Coinomics.tla", "Coinomics_defect_strict.cfg", must="fail", workers=4)
    c.add_tlc("Coinomics_defect_strict.cfg", r)
    for p in ("Coinomics_probe_cross.cfg", "Coinomics_probe_round.cfg"):
        r = tlc_exhaustive(wd, "Coinomics.tla", p, must="fail", workers=2)
        c.add_tlc(p, r)

    # 2./3. spec -> code and code -> spec, in batches (one harness run + one validation JVM each)
    batches = 1 if quick else 4
    nscripts = 1500 if quick else 4000
    nrandom = 2500 if quick else 5000
    nsteps = 14 if quick else 24
    ndec = 3000 if quick else 10000
    from collections import Counter
    cen = Counter()
    first, divs, ndiv = {}, [], 0
    c.traces = 0
    c.extra.update(trace_lines=0, scripts_replayed=0, random_scenarios=0)
    trace = os.path.join(wd, "trace.ndjson")

    def replay_for(v, seed):
        lines = scenario_lines(trace, v["scn"])
        script = {"cfg": lines[0]["cfg"], "steps": [{"ev": l["ev"], "args": l["args"]} for l in lines[1:]]}
        return save_replay("C13", "%s-scn%d" % (seed, v["scn"]),
                           {"property": "C13", "driver": "coinomics", "script": script, "signature": sig_of(v)})

    for b in range(batches):
        seed = c.seed if batches == 1 else c.seed * 1000 + b
        scripts, r = tlc_scripts(wd, "Coinomics.tla", "Coinomics_sim.cfg", nscripts, 10, seed, timeout=1800)
        if len(scripts) < nscripts // 2:
            raise Infra("too few scripts generated: %d" % len(scripts))
        _write_scripts(scripts, os.path.join(wd, "scripts.json"))
        hv(["coinomics", "--scripts", "scripts.json", "--random", str(nrandom), "--steps", str(nsteps),
            "--decvec", str(ndec), "--seed", str(seed), "--out", "trace.ndjson"], cwd=wd)
        res = _validate(wd)
        c.traces += res["scenarios"]
        c.extra["trace_lines"] += res["consumed"]
        c.extra["scripts_replayed"] += len(scripts)
        c.extra["random_scenarios"] += nrandom
        ndiv += len(res["div"])
        divs += res["div"][:20]
        _census(trace, cen, c.samples)
        # every new signature is re-executed alone from its recorded scenario before it counts
        for v in sorted(res["viol"], key=lambda v: v["line"]):
            s = sig_of(v)
            if s in first:
                continue
            path = replay_for(v, seed)
            if s in replay(path, quiet=True):
                first[s] = v
                c.replays[s] = path
            else:
                raise Infra("signature %s did not reproduce from %s" % (s, path))

    c.extra["conformance_divergences"] = divs[:20]
    c.extra["conformance_divergence_count"] = ndiv
    c.extra["exercised"] = dict(sorted(cen.items()))
    if ndiv:
        log("NOTE: %d divergences between the recorded executions and the as-built machine M / Dec18 "
            "(diagnostic, not a verdict): %s" % (ndiv, json.dumps(divs[:3])))
    c.add_violations(list(first.values()))
    floors = dict(blocks_due_to_mint=300, blocks_due_to_mint_small_bonded=50, blocks_due_to_cross_cap=30,
                  blocks_disabled=100, blocks_first_after_activation=300, blocks_first_after_reactivation=50,
                  blocks_at_cap=20, blocks_above_cap=20, blocks_across_new_year=50, blocks_leap_year=200,
                  blocks_common_year=200, blocks_equal_timestamp=30, blocks_100bit_values=200, dec_vectors=1000)
    short = {k: cen[k] for k, f in floors.items() if cen[k] < f}
    c.extra["vacuity_floors_missed"] = short
    listed = {k["signature"] for k in load_known() if k.get("status", "known") == "known"}
    if short and not (set(first) - listed):
        # (an unlisted violation reproduced on the real code stands on its own; without one, a thin run is not a pass)
        raise Infra("vacuous run: %s below the floors %s" % (short, {k: floors[k] for k in short}))
    c.assumptions += [
        "TLC 1.8.0, the Json community module and the BigNum Java override (java/BigNum.java) are trusted",
        "the projection in harness/coinomics.go reads bank supply, fee-collector balance, coinomics params, PrevBlockTS, MaxSupply and staking TotalBondedTokens through the real keepers",
        "keeper.EndBlocker is called directly with ctx.WithBlockTime(scripted time) on a cache-wrapped deliver context; BeginBlock/EndBlock of other modules do not run, so the fee collector is not drained between blocks",
        "bonded is controlled through the balance of the bonded pool (what TotalBondedTokens reads), not through delegations",
        "the amount is judged against a band (18-decimal noise scaled by bonded, plus 1/2 + 1/1000), not against one association order; exact agreement with the as-built formula is reported as conformance only",
        "exhaustive model checking is bounded by the constants in specs/Coinomics_*.cfg (env steps between two blocks in canonical order)",
    ]


def replay(path, quiet=False):
    """re-executes one saved scenario on the real code and returns the signatures it shows"""
    build_harness()
    wd = scratch("C13-replay")
    obj = json.load(open(path))
    with open(os.path.join(wd, "scripts.json"), "w") as fh:
        json.dump([obj["script"]], fh)
    hv(["coinomics", "--scripts", "scripts.json", "--out", "trace.ndjson"], cwd=wd)
    res, _ = validate_trace(wd, "CoinomicsTrace.tla", TRACE_CFG)
    sigs = sorted({sig_of(v) for v in res["viol"]})
    if not quiet:
        for s in sigs:
            log("replay shows: " + s)
    return sigs
