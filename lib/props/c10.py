"""C10 ERC20 <-> coin conversion keeps a 1:1 backed peg (specs/Erc20Peg.tla, harness/erc20peg.go)."""
import concurrent.futures
import json
import os
import shutil
from vlib import *

TRACE_CFG = "Erc20PegTrace.cfg"

MANIFEST_ENTRY = dict(engine="Erc20Peg", design="§4 C10",
   technique="TLA+ spec Erc20Peg.tla: property layer (backing invariants per pair origin, exact-or-no-effect rule for every conversion path) and as-built machine (ConvertCoin, ConvertERC20, EVM post-tx hook, bank-send wrapper, ICS-20 callbacks, toggle, holder burn, thief drain, contract destruction) parameterised by the behaviour of the token contract - five fixed contracts and a switchable adversarial family (how balanceOf/totalSupply answer: truthfully / no data / revert / 16 bytes / always 0 / too high; what transfer does: honest / nothing / half / double / to the thief instead / to the receiver and as much again to the thief / moves but answers false, nothing, 16 bytes / moves nothing and answers false; for ever or only until the first transfer, so that the answer before a transfer differs from the one after it); the state holds the token's TRUE books, the machine computes what the keeper SEES; TLC exhaustive model checking of the intended design and of the machine with the named defects hook_no_checks and unescrow_receiver_only (compensated invariants pass, strict ones must fail; wrapper_false_is_success, repaired in the code, is kept as a witness configuration); TLC-simulated behaviours and seeded random large-amount scenarios executed on the real chain (message router, real Ethereum transactions through DeliverTx so that the hook runs, the application's real ICS-20 stack); every recorded step validated by TLC against the property layer",
   text="TLC enumerates every sequence of conversions in both directions by message, by ERC20 transfer to the module address (hook), by bank send and by IBC receive/acknowledgement/timeout (both pair origins), ERC20 transfers, approvals, holder burns, pair toggles, thief drains and contract destruction (2 holders + thief, amounts 1..3, both pair origins, honest / delayed-malicious / direct-balance-manipulation / self-destructed / fake-Transfer-log tokens and 22 members of the adversarial family with the owner's arm/disarm switch as a step) and proves the backing invariants and the exact-or-no-effect rule on the intended design; the same behaviours are then executed against the real keepers with the repository's compiled token contracts (thief address substituted so that the drain can be signed) a hand-assembled log-forging token and the hand-assembled adversarial family (34 combinations; armed by a real transaction of its owner after holders converted honestly; the attacker picks amounts adaptively, e.g. exactly what the escrow holds), and TLC decides from real bank supply/balances and the token's books (real totalSupply()/balanceOf() calls; for the adversarial family, whose answers are the thing under test, its contract storage) after every step whether the pair is still backed and whether each step moved both representations by the same amount or neither.",
   note="Bounded by the constants in specs/Erc20Peg_*.cfg; Cosmos messages run through MsgServiceRouter handlers on a cached context (baseapp.runMsgs semantics) rather than signed DeliverTx, Ethereum transactions through full DeliverTx; IBC callbacks are driven by calling the application's transfer stack from the IBC router with crafted packets (no light clients / channel handshake; outgoing MsgTransfer is not driven, the coins in flight of an ERC20-origin pair are put into the channel escrow account by an environment step); contract destruction is a state edit (no SELFDESTRUCT-capable artifact in the repository); a dead contract has no token side, so the backing invariants are only evaluated for living contracts; the adversarial family logs truthfully (lying logs are the fake-Transfer-log token) and leaves out tokens whose two answers within one conversion differ by exactly the converted amount while nothing moved (a forged delta is the only evidence any implementation can have: Erc20Peg_forged_delta.cfg and one fixed witness scenario record that the code mints against nothing for them).")

PROCS = 4


def _chunk_dirs(wd, k):
    d = os.path.join(wd, "chunk%d" % k)
    os.makedirs(d, exist_ok=True)
    for f in ("Erc20Peg.tla", "Erc20PegTrace.tla", "BigNum.tla", TRACE_CFG):
        shutil.copy(os.path.join(wd, f), d)
    return d


def _run_chunk(wd, k, args):
    """one harness process + one trace-validation JVM in its own directory"""
    d = _chunk_dirs(wd, k)
    hv(["erc20peg"] + args + ["--out", "trace.ndjson"], cwd=d)
    res, _ = validate_trace(d, "Erc20PegTrace.tla", TRACE_CFG, timeout=3000)
    n = count_lines(os.path.join(d, "trace.ndjson"))
    if res["consumed"] != n:
        raise Infra("trace spec consumed %d of %d lines (chunk %d)" % (res["consumed"], n, k))
    for v in res["viol"]:
        v["chunk"] = k
    for v in res["div"]:
        v["chunk"] = k
    return res


def _changed(a, b, keys):
    return any(a[k] != b[k] for k in keys)


def _scan(path, c, counts, classes, combos):
    """vacuity bookkeeping: which conversions really happened, by origin and path"""
    prev = None
    with open(path) as fh:
        for line in fh:
            o = json.loads(line)
            if o["ev"] != "reset":
                p, q = prev["post"], o["post"]
                kind = p["kind"]
                coin_moved = _changed(p, q, ("escrowCoins", "coinSupply", "coinBal", "ibcEscrow"))
                tok_moved = _changed(p, q, ("tokenSupply", "tokenBal"))
                conv = o["ok"] and coin_moved and (tok_moved or p["behaviour"] == "fakeTransferLog")
                path_ = {"convert_coin": "msg_c2t", "convert_erc20": "msg_t2c", "evm_transfer": "hook", "bank_send": "bank",
                         "ibc_recv": "ibc_recv", "ibc_ack": "ibc_ack", "ibc_timeout": "ibc_timeout"}.get(o["ev"])
                if conv and path_:
                    counts["%s:%s" % (kind, path_)] = counts.get("%s:%s" % (kind, path_), 0) + 1
                    counts["conv:%s:%s" % (p["behaviour"], path_)] = counts.get("conv:%s:%s" % (p["behaviour"], path_), 0) + 1
                if o["ev"] == "evm_approve" and o["ok"]:
                    counts["%s:approve_%s" % (kind, "module" if o["args"]["spender"] == "m" else "holder")] = \
                        counts.get("%s:approve_%s" % (kind, "module" if o["args"]["spender"] == "m" else "holder"), 0) + 1
                if o["ev"] == "ibc_out" and o["ok"]:
                    counts["%s:ibc_out" % kind] = counts.get("%s:ibc_out" % kind, 0) + 1
                if o["ev"] in ("holder_burn", "thief_drain", "toggle", "destroy") and o["ok"] and (tok_moved or o["ev"] in ("toggle", "destroy")):
                    counts["%s:%s" % (kind, o["ev"])] = counts.get("%s:%s" % (kind, o["ev"]), 0) + 1
                counts["steps"] = counts.get("steps", 0) + 1
                counts["steps_ok"] = counts.get("steps_ok", 0) + (1 if o["ok"] else 0)
                classes.add((kind, p["behaviour"], o["ev"], o["ok"]))
                if p["behaviour"] == "adv":
                    if o["ev"] == "arm" and o["ok"]:
                        counts["adv:arm"] = counts.get("adv:arm", 0) + 1
                    if p["armed"] and path_:
                        combos.add((p["bal"], p["xfer"], p["shot"]))
                        key = "adv:armed:" + ("accepted" if o["ok"] and (coin_moved or tok_moved) else "rejected" if not o["ok"] else "no-effect")
                        counts[key] = counts.get(key, 0) + 1
                if conv and len(c.samples) < 6 and (o["ev"], kind) not in {(s["ev"], s["kind"]) for s in c.samples}:
                    c.samples.append({"ev": o["ev"], "kind": kind, "behaviour": p["behaviour"], "args": o["args"], "ok": o["ok"],
                                      "pre": {k: p[k] for k in ("escrowCoins", "coinSupply", "coinBal", "tokenSupply", "tokenBal")},
                                      "post": {k: q[k] for k in ("escrowCoins", "coinSupply", "coinBal", "tokenSupply", "tokenBal")}})
            prev = o


FLOORS = ["coin:msg_c2t", "coin:msg_t2c", "erc20:msg_c2t", "erc20:msg_t2c", "coin:hook", "erc20:hook", "coin:bank", "erc20:bank",
          "coin:ibc_recv", "coin:ibc_ack", "coin:ibc_timeout", "erc20:ibc_recv", "erc20:ibc_ack", "erc20:ibc_timeout", "erc20:ibc_out",
          "coin:approve_module", "coin:approve_holder", "erc20:approve_module", "erc20:approve_holder", "coin:holder_burn", "erc20:thief_drain", "erc20:destroy",
          "coin:toggle", "erc20:toggle", "conv:delayedMalicious:hook", "conv:directManipulation:hook", "conv:fakeTransferLog:hook",
          "conv:adv:msg_t2c", "conv:adv:msg_c2t", "conv:adv:hook", "conv:adv:bank", "conv:adv:ibc_timeout",
          "adv:armed:accepted", "adv:armed:rejected"]
ADV_COMBOS = 34      # MC_AdvReal of the specification

# a token that forges the keeper's only evidence (answers 0 before, the truth after, moves nothing):
# outside what any implementation can defend, recorded as a known finding by this fixed witness
FORGED_WITNESS = {"cfg": {"kind": "erc20", "behaviour": "adv", "bal": "zero", "xfer": "noop", "shot": "once"},
                  "steps": [{"ev": "convert_erc20", "args": {"from": "a1", "to": "a1", "amt": "2"}},
                            {"ev": "arm", "args": {"on": True}},
                            {"ev": "convert_erc20", "args": {"from": "t", "to": "t", "amt": "2"}}]}


def run(c):
    quick = c.tier == "quick"
    build_harness()
    wd = scratch("C10")

    # 1. the design: exhaustive model checking of P on the intended machine; the machine with the
    #    known defect satisfies the compensated invariants and violates the strict ones
    big = ["Erc20Peg_intended.cfg" if quick else "Erc20Peg_intended_thorough.cfg",
           "Erc20Peg_defect_comp.cfg" if quick else "Erc20Peg_defect_comp_thorough.cfg"]
    # the adversarial family (22 members, the owner's switch as a step): intended design and the
    # machine with the three named defects
    for base in ("Erc20Peg_adv_intended.cfg", "Erc20Peg_adv_defect_comp.cfg"):
        cfg = base
        if not quick:
            txt = open(os.path.join(wd, base)).read().replace("MaxLen = 4", "MaxLen = 6")
            cfg = base.replace(".cfg", "_thorough.cfg")
            open(os.path.join(wd, cfg), "w").write(txt)
        big.append(cfg)
    with concurrent.futures.ThreadPoolExecutor(max_workers=2) as ex:
        futs = [(cfg, ex.submit(tlc_exhaustive, wd, "Erc20Peg.tla", cfg, workers=4, timeout=3000)) for cfg in big]
        for cfg, f in futs:
            c.add_tlc(cfg, f.result())
    # non-vacuity: with a named defect the strict property layer must fail; so must it for a forged delta
    witnesses = ("Erc20Peg_defect_strict.cfg", "Erc20Peg_defect_strict_fake.cfg", "Erc20Peg_defect_strict_extra.cfg",
                 "Erc20Peg_defect_strict_refuse.cfg", "Erc20Peg_forged_delta.cfg")
    with concurrent.futures.ThreadPoolExecutor(max_workers=3) as ex:
        futs = [(cfg, ex.submit(tlc_exhaustive, wd, "Erc20Peg.tla", cfg, must="fail", workers=2)) for cfg in witnesses]
        for cfg, f in futs:
            c.add_tlc(cfg, f.result())

    # 2. spec -> code: behaviours of the model as scripts
    depth = 8 if quick else 12
    scripts = []
    for kind, num in (("coin", 140 if quick else 1200), ("erc20", 260 if quick else 2400), ("erc20ibc", 120 if quick else 1000),
                      ("adv", 600 if quick else 4000)):
        cfgname = "Erc20Peg_sim_%s.cfg" % kind
        d = depth + 2 if kind == "adv" else depth      # the adversarial walk: honest phase, arming, attempts
        if not quick:
            txt = open(os.path.join(wd, cfgname)).read().replace("MaxLen = %d" % (10 if kind == "adv" else 8), "MaxLen = %d" % d)
            cfgname = "Erc20Peg_sim_%s_long.cfg" % kind
            open(os.path.join(wd, cfgname), "w").write(txt)
        s, _ = tlc_scripts(wd, "Erc20Peg.tla", cfgname, num, d, c.seed, timeout=1500)
        if len(s) < num // 2:
            raise Infra("too few %s scripts generated: %d" % (kind, len(s)))
        scripts += s
    scripts.append(FORGED_WITNESS)
    for s in scripts:
        s["steps"] = [{"ev": st["ev"], "args": st["args"]} for st in s["steps"]]
    with open(os.path.join(wd, "scripts.json"), "w") as fh:
        json.dump(scripts, fh)
    nrandom = 96 if quick else 1200
    rsteps = 14 if quick else 30

    # 3. real executions and code -> spec validation, in PROCS independent chunks
    n = len(scripts)
    per = (n + PROCS - 1) // PROCS
    rper = (nrandom + PROCS - 1) // PROCS
    jobs = []
    for k in range(PROCS):
        lo, hi = k * per, min(n, (k + 1) * per)
        jobs.append((k, ["--scripts", os.path.join(wd, "scripts.json"), "--from", str(lo), "--to", str(hi), "--seed", str(c.seed),
                         "--scnbase", "0"]))
        jobs.append((PROCS + k, ["--random", str(rper), "--steps", str(rsteps), "--seed", str(c.seed * 16 + k),
                                 "--scnbase", str(1000000 * (k + 1))]))
    results = {}
    with concurrent.futures.ThreadPoolExecutor(max_workers=PROCS) as ex:
        futs = {ex.submit(_run_chunk, wd, k, a): k for k, a in jobs}
        for f in concurrent.futures.as_completed(futs):
            results[futs[f]] = f.result()
    viol, div, consumed, scen = [], [], 0, 0
    counts, classes, combos = {}, set(), set()
    for k in sorted(results):
        res = results[k]
        viol += res["viol"]
        div += res["div"]
        consumed += res["consumed"]
        scen += res["scenarios"]
        _scan(os.path.join(wd, "chunk%d" % k, "trace.ndjson"), c, counts, classes, combos)
    c.traces = scen
    c.extra["trace_lines"] = consumed
    c.extra["scripts_replayed"] = len(scripts)
    c.extra["random_scenarios"] = rper * PROCS
    c.extra["conformance_divergences"] = div[:20]
    c.extra["conformance_divergence_count"] = len(div)
    c.extra["conversions_and_steps_observed"] = dict(sorted(counts.items()))
    c.extra["step_classes_exercised"] = len(classes)
    c.extra["adversarial_combinations_met_armed"] = len(combos)
    # 4. verdict: every signature is reproduced alone from its recorded scenario
    def replay_for(v):
        lines = scenario_lines(os.path.join(wd, "chunk%d" % v["chunk"], "trace.ndjson"), v["scn"])
        script = {"cfg": lines[0]["cfg"], "steps": [{"ev": l["ev"], "args": l["args"]} for l in lines[1:]]}
        return save_replay("C10", "%s-c%d-scn%d" % (c.seed, v["chunk"], v["scn"]),
                           {"property": "C10", "driver": "erc20peg", "script": script, "signature": sig_of(v)})

    first = {}
    for v in sorted(viol, key=lambda v: (v["chunk"], v["line"])):
        s = sig_of(v)
        if s not in first:
            first[s] = v
    confirmed = []
    for s, v in first.items():
        path = replay_for(v)
        if s in replay(path, quiet=True):
            confirmed.append(v)
            c.replays[s] = path
        else:
            raise Infra("signature %s did not reproduce from %s" % (s, path))
    c.add_violations(confirmed)

    # 5. vacuity floors: a run that did not exercise every conversion path with an effect is
    #    inconclusive (exit 2) - unless it reproduced a violation that is not a listed finding,
    #    which stands on its own
    known = {k["signature"] for k in load_known() if k["property"] == "C10" and k.get("status", "known") == "known"}
    new = [s for s in first if s not in known]
    vacuous = [f for f in FLOORS if counts.get(f, 0) < (1 if quick else 5)]
    if counts.get("steps_ok", 0) < 500:
        vacuous.append("steps_ok>=500")
    if len(combos) < ADV_COMBOS:
        vacuous.append("adversarial combinations met armed on a conversion path: %d < %d" % (len(combos), ADV_COMBOS))
    c.extra["vacuity_floors_missed"] = vacuous
    if vacuous:
        if not new:
            raise Infra("vacuous run: no successful step with an effect for %s (%s)" % (vacuous, counts))
        log("WARNING property=C10: vacuity floors missed %s - reported because a new violation was reproduced" % vacuous)
    if div:
        log("NOTE property=C10: %d recorded steps differ from the as-built machine M of specs/Erc20Peg.tla (diagnostic, not a verdict): %s"
            % (len(div), sorted({(d["ev"], d["class"], d["what"]) for d in div})[:8]))
    c.assumptions += [
        "TLC 1.8.0, the Json community module and the BigNum Java override (java/BigNum.java) are trusted",
        "the projection in harness/erc20peg.go reads bank supply/balances through the bank keeper and totalSupply()/balanceOf()/allowance() through real read-only EVM calls; the pair registry through the erc20 keeper",
        "MsgConvertCoin / MsgConvertERC20 / bank MsgSend run through MsgServiceRouter handlers on a cached context (as baseapp.runMsgs does); ERC20 transfer / burn / transferFrom are signed Ethereum transactions through DeliverTx (ante handler, hook included)",
        "IBC receive / acknowledgement / timeout are driven by calling the application's transfer stack (erc20 middleware, packet-forward middleware, ICS-20 module) obtained from the IBC router with crafted packets on a cached context that is written exactly when core IBC would write it; light clients, channel handshakes and outgoing MsgTransfer are not exercised (ibc_out emulates only its escrow half for ERC20-origin pairs)",
        "pairs are registered and toggled through the x/erc20 governance proposal handler on the deliver state, not through a voted proposal",
        "the thief address hard-coded in ERC20MaliciousDelayed / ERC20DirectBalanceManipulation is replaced in the creation bytecode by an address whose key the harness holds",
        "contract destruction is a state edit (statedb Suicide + Commit, as in the repository's own tests)",
        "the adversarial token family is hand-assembled EVM code (harness/erc20peg.go epAdvTokenCode); its true books are its storage slots, read through EvmKeeper.GetState; it is armed / disarmed by a signed Ethereum transaction of the thief",
        "exhaustive model checking is bounded by the constants in specs/Erc20Peg_*.cfg",
    ]


def replay(path, quiet=False):
    """re-executes one saved scenario on the real code and returns the signatures it shows"""
    build_harness()
    wd = scratch("C10-replay")
    obj = json.load(open(path))
    with open(os.path.join(wd, "scripts.json"), "w") as fh:
        json.dump([obj["script"]], fh)
    hv(["erc20peg", "--scripts", "scripts.json", "--out", "trace.ndjson"], cwd=wd)
    res, _ = validate_trace(wd, "Erc20PegTrace.tla", TRACE_CFG)
    sigs = sorted({sig_of(v) for v in res["viol"]})
    if not quiet:
        for s in sigs:
            log("replay shows: " + s)
    return sigs
