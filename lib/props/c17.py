"""C17 Base fee follows EIP-1559 and stays within its bounds (specs/FeeMarket.tla, harness/feemarket.go)."""
import json
import os
import re
from vlib import *

TRACE_CFG = "FeeMarketTrace.cfg"

MANIFEST_ENTRY = dict(engine="FeeMarket", design="§4 C17",
   technique="TLA+ spec FeeMarket.tla with exact BigNum arithmetic: TLC exhaustive check of the piecewise EIP-1559 definition, its bounds and monotonicity in g over the full small input grid and of block sequences of the as-built machine; the same grid, seeded random 64/128-bit points and TLC-simulated / random block sequences - with node operations between blocks: restart on the same database, x/feemarket ExportGenesis -> InitGenesis, ExportAppStateAndValidators -> InitChain on a fresh application, in the ABCI order (no Commit before the first block) and with a Commit, and a software-upgrade plan becoming due so that the next block runs the module's in-place store migrations (x/upgrade BeginBlocker) before the fee market's BeginBlock - are executed on the real keeper CalculateBaseFee, feemarket BeginBlock/EndBlock and ante GasWantedDecorator, and, at the level of the ABCI interface (fresh application per sequence: InitChain, real BeginBlock with all begin blockers, DeliverTx of signed Cosmos / dynamic-fee Cosmos / legacy EIP-712 / Ethereum transactions through the application's ante handler, EndBlock, Commit, restarts and upgrade blocks), and every real output is validated by TLC against the property layer (trace validation), step by step and against the recorded history (the base fee of a block is the function of the base fee and the gas figure recorded for the previous block)",
   text="The statement's piecewise definition (unchanged at g = T, +max(1, base x (g-T)/T/denominator) above, -base x (T-g)/T/denominator clamped at the min gas price below, T = gas limit / elasticity, unlimited = 2^64-1) and the gas-figure clamp max(floor(gasWanted x minGasMultiplier), gasUsed) are written as TLA+ operators over decimal strings. TLC proves bounds and monotonicity (on base >= minGasPrice) for every tuple of the enumerated grid and that the code-shaped model satisfies the definition, explores all block sequences of the model up to the configured length, and then validates every value the real CalculateBaseFee returns for the same grid plus random 64/128-bit inputs (with neighbouring g for monotonicity), and every step of scripted block sequences run through the real BeginBlock, GasWantedDecorator, EndBlock and store commit. Sequences are histories: between two blocks a node may be restarted (new application object on the same database), the module may be re-initialised from its own exported genesis, or the chain may be exported (ExportAppStateAndValidators on a new application object, as the export command does) and a fresh application initialised from the exported document (InitChain), either in the ABCI order InitChain, BeginBlock, ..., Commit or with a Commit right after InitChain. The specification demands that these operations carry the base fee, the gas figure, the parameters and the block gas limit unchanged (step level) and, independently of what the stores say, that the base fee of every block is the function of the base fee and the gas figure RECORDED for the previous block - the figure being computed by the statement's formula from the gas the block's transactions declared and the gas used (history level, ghost variable gh of FeeMarket.tla). A model whose import loses the gas figure must be refuted by TLC (FeeMarket_import_witness.cfg).",
   note="Keeper-level blocks: the block context is built as baseapp.BeginBlock builds it (consensus params from the param store, block gas meter from GetMaximumBlockGas) and gas used is consumed on that meter, but transactions are not executed through DeliverTx. The export/import scenario exports and imports the fee market module's genesis and the consensus parameters (the other modules of the fresh application start from the test genesis); InitChain's uncommitted deliver state is written to the root multistore without a commit, which gives the first block the view baseapp gives it. The statement is taken to be silent when the base fee is disabled, for the first base-fee block (height = EnableHeight), where a division of the formula is undefined (elasticity 0, denominator 0, T = 0 with g > 0: the code panics there, recorded as notes) and for gas quantities beyond MaxInt64. A fractional min gas price may be rounded either way (the code truncates; recorded as a note). Bounded by the constants in specs/FeeMarket_*.cfg; TLC, the Json community module and the BigNum override are trusted.")

REQUIRED_COVER = [
    "calc:g=T", "calc:g>T", "calc:g>T,min-step", "calc:g<T", "calc:g<T,clamped",
    "begin_block:g=T", "begin_block:g>T", "begin_block:g<T", "begin_block:g>T,min-step", "begin_block:g<T,clamped",
    "ante:enabled", "end_block:used>wanted*mult", "end_block:wanted*mult>=used", "commit:-", "set_params:-",
    # node operations between blocks, each after a block that left a non-zero gas figure
    "restart:fig>0", "reinit:abci-order,fig>0", "reinit:committed,fig>0",
    "export_import:abci-order,fig>0", "export_import:committed,fig>0",
    # the history-level statement spoke about a block that follows each of them, in a region where g matters
    "sequence:g<T,after=commit", "sequence:g>T,after=commit",
    # a software-upgrade block (in-place store migrations before the fee market's BeginBlock) after a non-empty block
    "upgrade:from=3,fig>0", "sequence:g<T,after=upgrade", "sequence:g>T,after=upgrade",
    # transactions of every kind the application's ante handler routes, delivered through DeliverTx in ABCI-level blocks
    "ante:enabled,tx=cosmos", "ante:enabled,tx=cosmos-dynfee", "ante:enabled,tx=eip712-legacy", "ante:enabled,tx=eth",
    "sequence:g<T,after=restart", "sequence:g<T,after=reinit", "sequence:g<T,after=export_import",
]


def _grid_of_cfg(path):
    """the enumerated grid is defined once, in the TLC configuration"""
    txt = open(path).read()
    g = {}
    for k in ("BaseMax", "GMax", "ElasticityMax", "DenominatorMax"):
        g[k] = int(re.search(r"^\s*%s\s*=\s*(\d+)" % k, txt, re.M).group(1))
    for k in ("MaxGases", "MinGasPrices"):
        body = re.search(r"^\s*%s\s*=\s*\{([^}]*)\}" % k, txt, re.M).group(1)
        g[k] = re.findall(r'"(-?\d+)"', body)
    return g


def _grid_rows(g):
    return (g["BaseMax"] + 1) * len(g["MaxGases"]) * g["ElasticityMax"] * g["DenominatorMax"] * len(g["MinGasPrices"])


def _scripts_to_file(scripts, path):
    out = []
    for s in scripts:
        assert s[0]["ev"] == "init"
        out.append({"cfg": s[0]["args"], "steps": [{"ev": st["ev"], "args": st["args"]} for st in s[1:]]})
    with open(path, "w") as fh:
        json.dump(out, fh)


def _validate(wd, timeout=3000):
    res, r = validate_trace(wd, "FeeMarketTrace.tla", TRACE_CFG, timeout=timeout)
    n = count_lines(os.path.join(wd, "trace.ndjson"))
    if res["consumed"] != n:
        raise Infra("trace spec consumed %d of %d lines" % (res["consumed"], n))
    return res, r


def _replay_obj(lines, sig):
    if lines[0]["ev"] == "calc":
        script = {"calc": lines[0]["args"]}
    else:
        script = {"cfg": lines[0]["cfg"], "steps": [{"ev": l["ev"], "args": l["args"]} for l in lines[1:]]}
    return {"property": "C17", "driver": "feemarket", "script": script, "signature": sig}


def run(c):
    quick = c.tier == "quick"
    build_harness()
    wd = scratch("C17")

    # 1. the design: the definition's theorems on the whole input grid, the code-shaped function
    #    against the definition, the non-monotone region outside the stated domain (must produce a
    #    counterexample), and all block sequences of the as-built machine against StepOK
    calc_cfg = "FeeMarket_calc.cfg" if quick else "FeeMarket_calc_thorough.cfg"
    r = tlc_exhaustive(wd, "FeeMarket.tla", calc_cfg, workers=8, timeout=3000, heap="3g")
    c.add_tlc(calc_cfg, r)
    grid = _grid_of_cfg(os.path.join(wd, calc_cfg))
    rows = _grid_rows(grid)
    if r.distinct != 1 + rows + rows * (grid["GMax"] + 1):
        raise Infra("grid size mismatch: TLC found %d states for %d rows" % (r.distinct, rows))
    r = tlc_exhaustive(wd, "FeeMarket.tla", "FeeMarket_calc_nonmono.cfg", must="fail", workers=4, heap="3g")
    c.add_tlc("FeeMarket_calc_nonmono.cfg", r)
    seq_cfg = "FeeMarket_intended.cfg" if quick else "FeeMarket_intended_thorough.cfg"
    r = tlc_exhaustive(wd, "FeeMarket.tla", seq_cfg, workers=8, timeout=3000, heap="6g")
    c.add_tlc(seq_cfg, r)
    # block sequences with node operations (restart, module re-initialisation, export/import) between blocks
    bnd_cfg = "FeeMarket_boundary.cfg" if quick else "FeeMarket_boundary_thorough.cfg"
    r = tlc_exhaustive(wd, "FeeMarket.tla", bnd_cfg, workers=8, timeout=3000, heap="6g")
    c.add_tlc(bnd_cfg, r)
    # non-vacuity of the history-level property: a machine whose import loses the gas figure must
    # produce a counterexample
    r = tlc_exhaustive(wd, "FeeMarket.tla", "FeeMarket_import_witness.cfg", must="fail", workers=8, timeout=3000, heap="6g")
    c.add_tlc("FeeMarket_import_witness.cfg", r)

    # 2. spec -> code: the same grid, behaviours of the model, and random inputs on the real code
    # behaviours with node operations between blocks (each restart / export-import opens an application:
    # ~50 ms), and in the thorough tier more behaviours of blocks only
    nscripts = 150 if quick else 2500
    nwith = 150 if quick else 900
    scripts, r = tlc_scripts(wd, "FeeMarket.tla", "FeeMarket_sim.cfg", nwith, 32, c.seed)
    if nscripts > nwith:
        more, r = tlc_scripts(wd, "FeeMarket.tla", "FeeMarket_sim_blocks.cfg", nscripts - nwith, 32, c.seed)
        seen = {json.dumps(x, sort_keys=True) for x in scripts}
        scripts += [x for x in more if json.dumps(x, sort_keys=True) not in seen]
    if len(scripts) < nscripts // 2:
        raise Infra("too few scripts generated: %d" % len(scripts))
    _scripts_to_file(scripts, os.path.join(wd, "scripts.json"))
    with open(os.path.join(wd, "grid.json"), "w") as fh:
        json.dump(grid, fh)
    nrandom = 100 if quick else 2000
    nrandcalc = 1500 if quick else 25000
    nabci = 60 if quick else 600
    out, hv_wall = hv(["feemarket", "--grid", "grid.json", "--scripts", "scripts.json",
                       "--random", str(nrandom), "--blocks", "8" if quick else "25", "--node-ops", "250" if quick else "40",
                       "--abci", str(nabci), "--random-calc", str(nrandcalc), "--seed", str(c.seed), "--out", "trace.ndjson"], cwd=wd)
    m = re.search(r"calc_rows=(\d+) calc_evaluations=(\d+) sequences=(\d+)", out)
    if not m:
        raise Infra("unexpected harness output: " + out[-500:])
    calc_rows, calc_evals, nseq = map(int, m.groups())
    if calc_rows != rows + nrandcalc:
        raise Infra("harness validated %d calc rows, expected %d" % (calc_rows, rows + nrandcalc))

    # 3. code -> spec: every recorded output checked against P (verdict) and M (diagnostic)
    res, r = _validate(wd)
    c.traces = res["scenarios"]
    c.extra["trace_lines"] = res["consumed"]
    c.extra["trace_validation_wall_s"] = round(r.wall, 1)
    c.extra["harness_wall_s"] = round(hv_wall, 1)
    c.extra["grid"] = grid
    c.extra["grid_rows_validated_on_real_code"] = rows
    c.extra["grid_enumeration"] = "the harness enumerates the product defined in specs/%s (parsed from the cfg); TLC checks the model on the same product and validates every recorded line" % calc_cfg
    c.extra["random_calc_rows"] = nrandcalc
    c.extra["calc_evaluations"] = calc_evals
    c.extra["evaluations_where_P_speaks"] = res["spoke"]
    c.extra["scripts_replayed"] = len(scripts)
    c.extra["random_sequences"] = nrandom
    c.extra["block_sequences"] = nseq
    c.extra["classes_exercised"] = sorted(res["cover"])
    c.extra["notes_recorded_corners"] = sorted(res["notes"], key=lambda n: (n["kind"], n["class"]))
    c.extra["conformance_divergences"] = res["div"][:20]
    c.extra["conformance_divergence_count"] = len(res["div"])
    missing = [k for k in REQUIRED_COVER if k not in res["cover"]]
    if missing:
        raise Infra("vacuous run: classes never exercised: %s" % missing)
    if res["spoke"] < rows * (grid["GMax"] + 1) // 2:
        raise Infra("vacuous run: the statement spoke about only %d evaluations" % res["spoke"])
    c.extra["abci_level_sequences"] = nabci
    if nseq != len(scripts) + nrandom + nabci:
        raise Infra("only %d block sequences executed" % nseq)
    steps = 0
    nkind = {}
    nbound, sampled = {}, set()
    with open(os.path.join(wd, "trace.ndjson")) as fh:
        for line in fh:
            if '"ev":"calc"' in line:
                if len(c.samples) < 2 and '"src":"random"' in line and '"out":"value"' in line:
                    o = json.loads(line)
                    k = min(range(len(o["res"])), key=lambda i: o["res"][i]["out"] != "value")
                    a = dict(o["args"], g=o["args"]["gs"][k])
                    del a["gs"]
                    c.samples.append({"ev": "calc", "args": a, "res": o["res"][k]})
                continue
            o = json.loads(line)
            if o["ev"] != "reset":
                steps += 1
                if o["ev"] == "ante" and o["args"]["kind"] != "decorator":
                    kk = o["args"]["kind"] + (":accepted" if o["ok"] else ":rejected")
                    nkind[kk] = nkind.get(kk, 0) + 1
                    if o["ok"] and o["args"]["kind"] not in sampled and o["post"]["tgw"] != "0":
                        sampled.add(o["args"]["kind"])
                        c.samples.append({k: o[k] for k in ("ev", "args", "ok", "err")} |
                                         {"post": {k: o["post"][k] for k in ("baseFee", "bgw", "tgw", "height", "maxGas")}})
                if o["ev"] in ("restart", "reinit", "export_import", "upgrade"):
                    nbound[o["ev"]] = nbound.get(o["ev"], 0) + 1
                    if o["ev"] not in sampled and o["post"]["bgw"] != "0":
                        sampled.add(o["ev"])
                        c.samples.append({k: o[k] for k in ("ev", "args", "ok", "err")} |
                                         {"post": {k: o["post"][k] for k in ("baseFee", "bgw", "tgw", "height", "phase", "maxGas")}})
                if o["ev"] in ("begin_block", "end_block") and o["scn"] % 37 == 0 and len(c.samples) < 9:
                    c.samples.append({k: o[k] for k in ("ev", "args", "ok", "err")} |
                                     {"post": {k: o["post"][k] for k in ("baseFee", "bgw", "tgw", "height", "maxGas")}})
    c.extra["sequence_steps"] = steps
    c.extra["node_operations_between_blocks"] = nbound
    c.extra["transactions_delivered_by_kind"] = nkind
    for kd in ("cosmos", "cosmos-dynfee", "eip712-legacy", "eth"):
        if nkind.get(kd + ":accepted", 0) < 10:
            raise Infra("vacuous run: only %d accepted transactions of kind %s" % (nkind.get(kd + ":accepted", 0), kd))
    if steps < 18 * nseq:
        raise Infra("vacuous run: only %d sequence steps" % steps)

    # 4. verdict: every signature is reproduced alone from its recorded scenario
    def replay_for(v):
        lines = scenario_lines(os.path.join(wd, "trace.ndjson"), v["scn"])
        return save_replay("C17", "%s-scn%d" % (c.seed, v["scn"]), _replay_obj(lines, sig_of(v)))

    first = {}
    for v in sorted(res["viol"], key=lambda v: v["line"]):
        first.setdefault(sig_of(v), v)
    c.extra["signatures_before_replay"] = sorted(first)
    confirmed = []
    for s, v in list(first.items())[:10]:
        path = replay_for(v)
        if s in replay(path, quiet=True, build=False):
            confirmed.append(v)
            c.replays[s] = path
        else:
            raise Infra("signature %s did not reproduce from %s" % (s, path))
    c.add_violations(confirmed)
    c.assumptions += [
        "TLC and the BigNum Java override (java/BigNum.java) are trusted",
        "an unlimited block gas limit (max gas -1) is the largest gas value 2^64-1",
        "the statement is silent when the base fee is disabled (NoBaseFee / height < EnableHeight), for the first base-fee block (height = EnableHeight), where the formula divides by zero (elasticity 0, denominator 0, target 0 with g > 0) and for gas quantities above MaxInt64",
        "a fractional min gas price may be rounded to either neighbouring integer",
        "blocks are run at keeper level: real feemarket BeginBlock / ante GasWantedDecorator on a branched context / EndBlock / root multistore commit, with a block context built as baseapp.BeginBlock builds it and gas used consumed on the block gas meter; transactions are not executed through DeliverTx",
        "node operations happen between blocks on committed state: restart = app.NewHaqq on the same MemDB; reinit = feemarket.ExportGenesis -> JSON -> InitGenesis on a store reset to the module defaults; export_import = ExportAppStateAndValidators(feemarket) on a new application object, InitChain of a fresh application on a new MemDB with the exported fee market genesis, consensus parameters and height; uncommitted (ABCI order) or committed",
        "upgrade = after EndBlock of a block the store is put into the layout of consensus version 3 (parameters copied into the x/params subspace, removed from the module store), the module version map says 3 and a plan with a registered handler (v1.8.2) is scheduled for the next height; the next block runs the x/upgrade BeginBlocker before the fee market's; only the 3 -> 4 migration exists",
        "ABCI-level sequences: one funded ethsecp256k1 sender, bank MsgSend / value transfer of 1 unit, gas declared by the script, fee twice the required price; a transaction counts as accepted when the sender's sequence advanced (ante handler passed); the block's gas used is observed as the sum over DeliverTx responses of min(gas used, gas wanted), capped at a finite block gas limit; new-style EIP-712 (no extension option) and multi-message Ethereum envelopes are not generated; TLC-generated scripts are replayed at keeper level only (kind decorator), the kinds are drawn by the seeded generator of the harness",
        "parameters are changed through MsgUpdateParams (ValidateBasic + message router) inside a block; consensus max gas through the baseapp parameter store",
        "exhaustive model checking is bounded by the constants in specs/FeeMarket_*.cfg",
    ]


def replay(path, quiet=False, build=True):
    """re-executes one saved scenario on the real code and returns the signatures it shows"""
    if build:
        build_harness()
    wd = scratch("C17-replay")
    obj = json.load(open(path))
    sc = obj["script"]
    if "calc" in sc:
        with open(os.path.join(wd, "calc.json"), "w") as fh:
            json.dump([sc["calc"]], fh)
        hv(["feemarket", "--calc", "calc.json", "--out", "trace.ndjson"], cwd=wd)
    else:
        with open(os.path.join(wd, "scripts.json"), "w") as fh:
            json.dump([sc], fh)
        hv(["feemarket", "--scripts", "scripts.json", "--out", "trace.ndjson"], cwd=wd)
    res, _ = _validate(wd)
    sigs = sorted({sig_of(v) for v in res["viol"]})
    if not quiet:
        for s in sigs:
            log("replay shows: " + s)
    return sigs
