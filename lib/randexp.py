"""exploration helper: random call trees through the real code; prints divergences from M and violation signatures"""
import sys, json, os, collections
sys.path.insert(0, os.path.dirname(__file__))
from vlib import *
import evmrun

seed = int(sys.argv[1]); num = int(sys.argv[2]); maxops = int(sys.argv[3]) if len(sys.argv) > 3 else 9
build_harness()
wd = scratch("randexp")
cfg = open(os.path.join(wd, "EvmCosmosRand_sim.cfg")).read().replace("MaxOps = 9", "MaxOps = %d" % maxops)
open(os.path.join(wd, "EvmCosmosRand_sim.cfg"), "w").write(cfg)
scripts, r = tlc_scripts(wd, "EvmCosmosRand.tla", "EvmCosmosRand_sim.cfg", num, maxops + 6, seed)
print("scripts", len(scripts), "tlc error:", r.error)
evmrun.run_scenarios(wd, scripts, seed)
res, r = validate_trace(wd, "EvmCosmosTrace.tla", "EvmCosmosTrace.cfg", timeout=3000)
print("consumed", res["consumed"], "txok", res["txok"], "div", len(res["div"]))
sk = sum(1 for l in open(os.path.join(wd, "trace.ndjson")) if '"ev":"skip"' in l)
print("skipped", sk)
c = collections.Counter(sig_of(v) for v in res["viol"])
for s, n in sorted(c.items()):
    print(n, s)
for d in res["div"][:15]:
    print("DIV", d)
