"""debug helper: python3 lib/randdbg.py <scn> [rundir]: shows the tree, flags and the fields where M, real, Ideal differ"""
import sys, json, os, subprocess, re
sys.path.insert(0, os.path.dirname(__file__))
from vlib import *
scn = int(sys.argv[1]); wd = sys.argv[2] if len(sys.argv) > 2 else os.path.join(BUILD, "run", "randexp")
line = None
for l in open(os.path.join(wd, "trace.ndjson")):
    o = json.loads(l)
    if o.get("scn") == scn:
        line = l; break
o = json.loads(line)
def show(op, ind=0):
    d = op["op"]
    if d == "pc": d += " %s who=%s amt=%s mode=%s grantee=%s" % (op["m"], op["who"], op["amt"], op["mode"], op["grantee"])
    elif d in ("call", "create", "recall"): d += " value=%s mode=%s to=%s" % (op["value"], op["mode"], op["to"])
    elif d == "selfdestruct": d += " to=" + op["to"]
    print("  " * ind + "#%d %s" % (op["id"], d))
    for b in op["body"]: show(b, ind + 1)
    if op.get("alt"):
        print("  " * ind + " alt:")
        for b in op["alt"]: show(b, ind + 1)
su = json.loads(o["setupJson"])
print("setup: wd=%s grants=%s delegC=%s denom2=%s" % (su["wd"], [(g["grantee"], g["type"], g["limit"], g["val"]) for g in su["grants"]], su["delegC"], su["denom2"]))
show(o["top"])
print("res:", {k: o["res"][k] for k in ("code", "failed", "vmError", "gasUsed")})
print("flags:", o["post"]["storage"])
d = os.path.join(BUILD, "run", "randdbg")
import shutil
shutil.rmtree(d, ignore_errors=True); os.makedirs(d)
for f in glob.glob(os.path.join(SPECS, "*.tla")): shutil.copy(f, d)
open(os.path.join(d, "trace.ndjson"), "w").write(line)
open(os.path.join(d, "Dbg.tla"), "w").write('''---- MODULE Dbg ----
EXTENDS EvmCosmos
Trace == ndJsonDeserialize("trace.ndjson")
e == Trace[1]
Cmp(s) == [f \\in DOMAIN s \\ {"grantVals", "grantExp"} |-> s[f]]
m == Cmp(MTx(e))
r == Cmp(e.post)
i == Cmp(Ideal(e).st)
ASSUME PrintT(<<"DIFF", ToJson([f \\in DiffFields(m, r) \\cup DiffFields(i, r) |-> [M |-> m[f], real |-> r[f], ideal |-> i[f], pre |-> e.pre[f]]])>>)
VARIABLE x
Init == x = 0
Next == UNCHANGED x
====
''')
open(os.path.join(d, "Dbg.cfg"), "w").write('INIT Init\nNEXT Next\nCONSTANTS\n  Defects = {"stale_overwrite", "no_cosmos_revert"}\n')
r = tlc(d, "Dbg.tla", "Dbg.cfg", workers=1, timeout=300)
for x in r.printed("DIFF"):
    for f, v in x.items():
        print("==", f)
        def flat(a, pre=""):
            if isinstance(a, dict):
                out = {}
                for k, w in a.items(): out.update(flat(w, pre + k + "."))
                return out
            return {pre: a}
        fm, fr, fi, fp = flat(v["M"]), flat(v["real"]), flat(v["ideal"]), flat(v["pre"])
        for k in sorted(set(fm) | set(fr) | set(fi)):
            if not (fm.get(k) == fr.get(k) == fi.get(k)):
                print("   %-28s pre=%s M=%s real=%s ideal=%s%s" % (k, fp.get(k), fm.get(k), fr.get(k), fi.get(k), "   <-- M!=real" if fm.get(k) != fr.get(k) else ""))
if not r.printed("DIFF"): print(r.out[-2000:])
