"""Shared runner of the EvmCosmos family (C02, C04, C05): specs/EvmCosmos.tla (P = Ideal, M = StateDB
micro-semantics), specs/EvmCosmosGen.tla (scenario space + exhaustive model check), harness/evmc.go
(real DeliverTx of the compiled call trees), specs/EvmCosmosTrace.tla (verdicts)."""
import concurrent.futures
import json
import os
import random

from vlib import *


def run_scenarios(wd, scenarios, seed, procs=8):
    with open(os.path.join(wd, "scripts.json"), "w") as fh:
        json.dump(scenarios, fh)
    n = len(scenarios)
    chunk = max(1, (n + procs - 1) // procs)
    parts = []
    with concurrent.futures.ThreadPoolExecutor(max_workers=procs) as ex:
        futs = []
        for k, lo in enumerate(range(0, n, chunk)):
            out = "part%d.ndjson" % k
            parts.append(out)
            futs.append(ex.submit(hv, ["evmc", "--scripts", "scripts.json", "--seed", str(seed), "--from", str(lo),
                                       "--to", str(min(n, lo + chunk)), "--out", out], wd))
        for f in futs:
            f.result()
    with open(os.path.join(wd, "trace.ndjson"), "w") as out:
        for p in parts:
            out.write(open(os.path.join(wd, p)).read())


RAND_MAXOPS = 9


def random_trees(c, wd, num, seed):
    """random call trees: behaviours of specs/EvmCosmosRand.tla (TLC simulation); the simulation also checks on
    the model that the intended design satisfies P on every tree, and a second run that the as-built machine
    fails only in trees with a precompile call"""
    scripts, r = tlc_scripts(wd, "EvmCosmosRand.tla", "EvmCosmosRand_sim.cfg", num, RAND_MAXOPS + 6, seed)
    if r.error or "is violated" in r.out:
        raise Infra("the intended design violates P on a random tree (specs/EvmCosmosRand.tla Intended):\n" + r.out[-3000:])
    c.add_tlc("EvmCosmosRand_sim.cfg", r)
    _, r2 = tlc_scripts(wd, "EvmCosmosRand.tla", "EvmCosmosRand_defect_comp.cfg", num, RAND_MAXOPS + 6, seed)
    if r2.error or "is violated" in r2.out:
        raise Infra("as-built machine fails P in a tree without precompile call (ExplainedR):\n" + r2.out[-3000:])
    c.add_tlc("EvmCosmosRand_defect_comp.cfg", r2)
    if len(scripts) < num // 2:
        raise Infra("too few random trees: %d" % len(scripts))
    return scripts


def run_family(c, prop, family, nquick, nrand=(0, 0)):
    quick = c.tier == "quick"
    build_harness()
    wd = scratch(prop)
    gen = "EvmCosmosGen_%s.cfg" % family
    r = tlc_exhaustive(wd, "EvmCosmosGen.tla", gen, workers=4, timeout=3000)
    c.add_tlc(gen, r)
    scenarios = r.printed("SCRIPT")
    r2 = tlc_exhaustive(wd, "EvmCosmosGen.tla", "EvmCosmosGen_%s_defect_comp.cfg" % family, workers=4, timeout=3000)
    c.add_tlc("EvmCosmosGen_%s_defect_comp.cfg" % family, r2)
    r3 = tlc_exhaustive(wd, "EvmCosmosGen.tla", "EvmCosmosGen_%s_defect_strict.cfg" % family, must="fail", workers=4, timeout=3000)
    c.add_tlc("EvmCosmosGen_%s_defect_strict.cfg" % family, r3)
    scenarios.sort(key=lambda s: json.dumps(s, sort_keys=True))
    total = len(scenarios)
    if quick and total > nquick:
        # the identity / single-call scenarios are always run in full; the sample is drawn from the
        # multi-operation sequences (a scenario whose top-level body has more than two ops)
        rnd = random.Random(c.seed)
        def is_core(x):
            return x["top"]["op"] == "pc" or len(x["top"]["body"]) <= 2 or any(b["op"] in ("call", "create") and (b["body"] or b.get("rt")) for b in x["top"]["body"])
        core = [x for x in scenarios if is_core(x)]
        rest = [x for x in scenarios if not is_core(x)]
        scenarios = core + rnd.sample(rest, max(0, min(len(rest), nquick - len(core))))
    nr = nrand[0] if quick else nrand[1]
    rand = random_trees(c, wd, nr, c.seed * 7919 + {"C02": 1, "C04": 2, "C05": 3}.get(prop, 0)) if nr else []
    scenarios = scenarios + rand
    run_scenarios(wd, scenarios, c.seed, procs=8 if quick else 14)
    res, r = validate_trace(wd, "EvmCosmosTrace.tla", "EvmCosmosTrace.cfg", timeout=6000)
    n = count_lines(os.path.join(wd, "trace.ndjson"))
    if res["consumed"] != n:
        raise Infra("trace spec consumed %d of %d lines" % (res["consumed"], n))
    skipped = 0
    nrand_run = nrand_ok = 0
    with open(os.path.join(wd, "trace.ndjson")) as fh:
        for line in fh:
            o = json.loads(line)
            if o["ev"] == "skip":
                skipped += 1
                continue
            if o.get("src") == "rand":
                nrand_run += 1
                nrand_ok += 0 if o["res"]["failed"] or o["res"]["code"] != 0 else 1
            if len(c.samples) < 3:
                c.samples.append({"top": o["top"], "res": {k: o["res"][k] for k in ("code", "failed", "gasUsed", "fee")},
                                  "supply_pre": o["pre"]["supply"], "supply_post": o["post"]["supply"], "bank_pre": o["pre"]["bank"], "bank_post": o["post"]["bank"]})
    if skipped > len(scenarios) // 10:
        raise Infra("%d of %d scenarios could not be set up" % (skipped, len(scenarios)))
    if res["txok"] < (len(scenarios) - len(rand)) // 3:
        raise Infra("vacuous run: only %d of %d transactions succeeded" % (res["txok"], len(scenarios)))
    c.traces = n - skipped
    if rand and nrand_ok < len(rand) // 4:
        raise Infra("vacuous run: only %d of %d random trees succeeded" % (nrand_ok, len(rand)))
    c.extra.update({"scenario_space": total, "scenarios_executed": len(scenarios), "scenarios_skipped": skipped,
                    "random_trees_generated": len(rand), "random_trees_judged": nrand_run, "random_trees_succeeded": nrand_ok,
                    "random_tree_bounds": "specs/EvmCosmosRand.tla: <= %d ops, depth <= 3, every staking/distribution/authorization/ICS-20 method, REVERT/INVALID/SELFDESTRUCT frame ends, top-level call or contract creation" % RAND_MAXOPS,
                    "transactions_succeeded": res["txok"], "exhaustive": (not quick) or total <= nquick,
                    "conformance_divergence_count": len(res["div"]), "conformance_divergences": res["div"][:10]})

    mine = {}
    for v in sorted(res["viol"], key=lambda v: v["line"]):
        if v["prop"] == prop:
            mine.setdefault(sig_of(v), v)
    lines = [json.loads(l) for l in open(os.path.join(wd, "trace.ndjson"))]
    for s, v in mine.items():
        o = lines[v["line"] - 1]
        path = save_replay(prop, "%s-l%d" % (c.seed, v["line"]), {"property": prop, "driver": "evmc", "signature": s,
                           "scenario": {"cfg": o["cfg"], "setup": json.loads(o["setupJson"]), "top": o["top"],
                                        "fam": "" if o.get("src", "script") == "script" else o["src"]}})
        c.replays[s] = path
    # reproduce the signatures that are not listed as known, alone, before they count
    known = {k["signature"] for k in load_known() if k["property"] == prop and k.get("status", "known") == "known"}
    for s, v in mine.items():
        if s not in known and s not in replay_file(c.replays[s], prop):
            raise Infra("signature %s did not reproduce from %s" % (s, c.replays[s]))
    c.add_violations(mine.values())
    c.extra["other_family_signatures_seen"] = sorted({sig_of(v) for v in res["viol"] if v["prop"] != prop})
    c.assumptions += [
        "call trees are straight-line contracts compiled by harness/evmkit.go (one contract per call node), not arbitrary bytecode; depth <= 3",
        "ICS-20, bank and erc20/werc20 precompiles are not exercised by this family",
        "state is projected through keepers after the transaction inside the same block; rewards/commission are the truncated pending amounts",
        "TLC 1.8.0, the Json community module and the BigNum override are trusted",
    ]


def replay_file(path, prop):
    build_harness()
    wd = scratch(prop + "-replay")
    obj = json.load(open(path))
    run_scenarios(wd, [obj["scenario"]], 1, procs=1)
    res, _ = validate_trace(wd, "EvmCosmosTrace.tla", "EvmCosmosTrace.cfg")
    return sorted({sig_of(v) for v in res["viol"]})
