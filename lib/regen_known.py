#!/usr/bin/env python3
"""(Maintenance, run by hand - never by a check.)  Rebuilds the known-findings entries of the EvmCosmos family
(C02, C04, C05, C16) from the evidence of a THOROUGH run on the unchanged tree: every observed signature whose
post-state is explained exactly by the as-built machine (as-built=yes) is listed under its root cause."""
import json, sys
V = '/verif'
k = json.load(open(V + '/known_findings.json'))
props = sys.argv[1:] or ['C02', 'C04', 'C05']
rc = {
 'C02': ('F5/F6/F14', "the StateDB's cached balances are not kept coherent with the bank writes a precompile makes (only hand-written mirrors for the caller in delegate / withdrawDelegatorRewards); a stale cached balance of an account that is dirty at commit (the mirrored caller, or a signer/contract dirtied by a value transfer) overwrites the bank balance and the difference is minted or burned"),
 'C05r': ('F8', "Cosmos-side writes of a precompile call (and balances/storage flushed before it) are not rolled back when the calling frame, or a frame above it that is caught, reverts or runs out of gas"),
 'C05f': ('F15', "a precompile call that fails AFTER writing (allowance change over several message types whose later type fails; staking spend whose grant is re-validated against the validator allow-list only after the message was executed) reports failure to its caller but its writes stay"),
 'C04': ('F15', "consequence of F15: an allowance increased by a precompile call that reported failure is later spent, so the spend exceeds the allowance established by successful calls"),
}
k['findings'] = [f for f in k['findings'] if f['property'] not in props]
n = 0
for prop in props:
    e = json.load(open(V + '/evidence/%s.json' % prop))
    assert e['tier'] == 'thorough', prop
    for s in e['coverage']['signatures_observed']:
        key = prop if prop != 'C05' else ('C05f' if 'failed-precompile-call' in s else 'C05r')
        fid, what = rc[key]
        if prop == 'C04' and 'spend-without-live-grant' in s:
            fid, what = 'F8', "consequence of F8: an allowance granted by a precompile call inside a frame that was then reverted stays in the authz store and is spent by a later call of the same transaction"
        if prop == 'C04' and 'unauthorized-call-reported-failure' in s:
            fid, what = 'F15', "F15 seen from C04: a staking spend by a contract whose grant does not cover the validator is executed before the allow-list is checked; the call reports failure but the delegation change stays - the contract acted outside its grant"
        if prop == 'C05' and 'supply+mods' in s:
            fid, what = 'F8', "F8 with value sent along with a precompile call: the Flush before the (non-payable) precompile mints the amount for the precompile address, cannot deliver it to that blocked address and fails - the minted coins stay in the evm module account although the call failed and the journal was rolled back"
        if 'random-tree' in s:
            what = "random call tree (a behaviour of specs/EvmCosmosRand.tla) whose recorded post-state is exactly what the as-built machine of specs/EvmCosmos.tla predicts through its named defect mechanisms; root cause: " + what
        if 'as-built=NO' in s:
            print('NOT LISTED (unexplained):', s)
            continue
        k['findings'].append({"id": fid, "property": prop, "signature": s, "status": "known", "what_fails": what,
            "found_by": "bin/check %s thorough (seed 1); the class is explained exactly by the as-built machine of specs/EvmCosmos.tla (as-built=yes); replay: build/replay/%s-1-*.json" % (prop, prop)})
        n += 1
json.dump(k, open(V + '/known_findings.json', 'w'), indent=1)
print(n, 'entries')
