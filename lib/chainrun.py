"""Shared runner of the Chain family (C01, C15, C19, C20): specs/Chain.tla (design, exhaustive),
specs/ChainGen.tla (scenario space, simulated), harness/chain.go (real replicas as separate
processes), specs/ChainTrace.tla (validation of the recorded traces)."""
import concurrent.futures
import json
import os
import subprocess
import time

from vlib import *

DEFECT_CFGS = ["Chain_defect_mem_in_result.cfg", "Chain_defect_checktx_leak.cfg", "Chain_defect_unpersisted.cfg"]


def genesis_cfg(seed):
    # parameters every scenario fixes explicitly (DESIGN.md section 8)
    return {"seed": seed, "naccts": 6, "nvals": 3, "acctBalance": "1000000000000000000000000",
            "valStake": "1000000000000000000000", "baseFee": "1000000000", "minGasPrice": "0",
            "maxGas": 40000000, "noBaseFee": False, "coinomics": True, "votingSecs": 20, "loopback": True}


def c20_epilogue(steps, i):
    """C20 names restarts 'right after blocks that change EVM parameters': every C20 history ends with a
    governance proposal on the EVM parameters (alternately one that succeeds and one whose second message
    fails after the parameter change was executed), the end of its voting period, a restart, and Ethereum
    transactions (contract creation included) on the restarted and on the continuous node."""
    np = sum(1 for st in steps if st.get("ev") == "block" for t in st.get("txs", [])
             if t.get("k") in ("gov_submit", "gov_submit2", "gov_toggle", "gov_evm_params", "gov_coinomics", "gov_erc20_params", "gov_params"))
    pid = np + 1
    blk = lambda dt, txs: {"ev": "block", "dt": dt, "proposer": 0, "absent": [], "evidence": [], "txs": txs}
    votes = [{"k": "gov_vote", "from": "v%d" % v, "id": pid, "opt": "yes"} for v in (1, 2, 3)]
    if i % 6 == 5:
        # the later handlers: v1.8.1 rewrites the delegation tracking of every clawback vesting account
        # (the history before created, funded and delegated from such accounts), v1.8.2 only runs migrations
        name = "v1.8.1" if (i // 6) % 2 == 0 else "v1.8.2"
        return [
            blk(5000, [{"k": "gov_upgrade", "from": "a1", "name": name, "delta": 2}] + votes),
            blk(61000, [{"k": "eth_send", "from": "a3", "to": "a4", "amt": "1000", "extraGas": 0}, {"k": "delegate", "from": "a5", "val": 1, "amt": "1000"}]),
            blk(5000, [{"k": "send", "from": "a2", "to": "a1", "amt": "1"}]),     # the upgrade block
            {"ev": "restart"},
            blk(5000, [{"k": "delegate", "from": "a4", "val": 2, "amt": "5000"}, {"k": "undelegate", "from": "a5", "val": 1, "amt": "500"},
                       {"k": "send", "from": "a6", "to": "a2", "amt": "7"}, {"k": "deploy", "from": "a1", "slots": 2}]),
            blk(5000, [{"k": "pc_delegate", "from": "a2", "val": 1, "amt": "1000"}, {"k": "withdraw", "from": "a5", "val": 1}]),
        ]
    if i % 3 == 2:
        # "... or run upgrades": the v1.8.0 upgrade handler (activates the precompiles; the scenario's genesis
        # starts without them) runs at its plan height after an EVM message was executed; the follower restarts
        # right after the upgrade block and both nodes then call a newly activated precompile
        return [
            # the plan height is the block right after the one in which the proposal passes: x/upgrade refuses
            # to run a binary that already contains the handler while the plan is still pending
            blk(5000, [{"k": "gov_upgrade", "from": "a1", "name": "v1.8.0", "delta": 2}] + votes),
            blk(61000, [{"k": "eth_send", "from": "a3", "to": "a4", "amt": "1000", "extraGas": 0}, {"k": "call", "from": "a6", "idx": 0}]),
            blk(5000, [{"k": "send", "from": "a2", "to": "a1", "amt": "1"}]),     # the upgrade block
            {"ev": "restart"},
            blk(5000, [{"k": "pc_delegate", "from": "a2", "val": 1, "amt": "1000"}, {"k": "pc_setwd", "from": "a3", "to": "a4"},
                       {"k": "deploy", "from": "a5", "slots": 2}]),
            blk(5000, [{"k": "pc_withdraw", "from": "a2", "val": 1}]),
        ]
    if i % 6 == 4:
        # the parameters of x/erc20 (the EVM hook that converts ERC20 transfers to the module address back into coins)
        # are switched off before the restart and on again after it; coins are converted into the ERC20 of a
        # registered pair for receivers that hold it and for receivers that do not, before and after the restart,
        # and the tokens are sent to the module address and converted back
        votes2 = [dict(v, id=pid + 1) for v in votes]
        return [
            blk(5000, [{"k": "convert_erc20", "from": "a3", "to": "a3", "id": 2, "amt": "1000000"},
                       {"k": "convert_coin", "from": "a3", "to": "a3", "id": 2, "amt": "1000"},
                       {"k": "gov_params", "from": "a2", "which": "erc20_hook", "enable": False}] + votes),
            blk(25000, [{"k": "send", "from": "a1", "to": "a2", "amt": "1"}, {"k": "erc20_xfer", "from": "a3", "to": "mod:erc20", "id": 2, "amt": "10"}]),
            {"ev": "restart"},
            blk(5000, [{"k": "convert_coin", "from": "a3", "to": "a3", "id": 2, "amt": "1000"},
                       {"k": "convert_coin", "from": "a3", "to": "a5", "id": 2, "amt": "5000"},
                       {"k": "gov_params", "from": "a3", "which": "erc20_hook", "enable": True}] + votes2),
            blk(25000, [{"k": "convert_coin", "from": "a3", "to": "a6", "id": 2, "amt": "700"},
                        {"k": "erc20_xfer", "from": "a3", "to": "a4", "id": 2, "amt": "300"},
                        {"k": "erc20_xfer", "from": "a3", "to": "mod:erc20", "id": 2, "amt": "20"}]),
            blk(5000, [{"k": "erc20_xfer", "from": "a3", "to": "mod:erc20", "id": 2, "amt": "500"},
                       {"k": "convert_erc20", "from": "a5", "to": "a5", "id": 2, "amt": "1000"},
                       {"k": "erc20_xfer", "from": "a4", "to": "mod:erc20", "id": 2, "amt": "100"}]),
            {"ev": "restart"},
            blk(5000, [{"k": "convert_erc20", "from": "a6", "to": "a2", "id": 2, "amt": "200"},
                       {"k": "convert_coin", "from": "a3", "to": "a1", "id": 2, "amt": "900"}]),
        ]
    if i % 6 == 3:
        # a transaction reaches the mempool (CheckTx on every node) while the EVM parameters admit it - an Ethereum
        # transaction signed without chain id -, governance tightens the parameters, the node restarts, and the
        # transaction is included afterwards: what a node learnt in CheckTx is process state
        votes2 = [dict(v, id=pid + 1) for v in votes]
        return [
            blk(5000, [{"k": "gov_evm_params", "from": "a1", "fail": False, "allow": True}] + votes),
            blk(25000, [{"k": "send", "from": "a1", "to": "a2", "amt": "1"}]),
            {"ev": "mempool", "txs": [{"k": "eth_unprotected", "from": "a4", "to": "a5", "amt": "1000"},
                                      {"k": "eth_send", "from": "a5", "to": "a4", "amt": "1000", "extraGas": 0}]},
            blk(5000, [{"k": "eth_unprotected", "from": "a6", "to": "a5", "amt": "1000"},
                       {"k": "gov_evm_params", "from": "a2", "fail": False, "allow": False}] + votes2),
            blk(25000, [{"k": "send", "from": "a1", "to": "a2", "amt": "1"}]),
            {"ev": "restart"},
            blk(5000, [{"k": "pending", "idx": 0}, {"k": "pending", "idx": 1}, {"k": "eth_unprotected", "from": "a6", "to": "a5", "amt": "1000"},
                       {"k": "deploy", "from": "a2", "slots": 2}]),
            blk(5000, [{"k": "eth_send", "from": "a4", "to": "a6", "amt": "1000", "extraGas": 0}, {"k": "pc_delegate", "from": "a2", "val": 1, "amt": "1000"}]),
        ]
    if i % 6 == 1:
        # "right after blocks that change parameters": a module's parameters are moved to legal edge values
        # (zero, empty, the other flag), the node restarts after the block in which the proposal passes
        edges = ["fm_mult0", "fm_nobasefee", "distr_zero", "slash_zero", "fm_mult1", "staking_edge", "evm_channels", "gov_flags",
                 "fm_minprice", "lv_edge", "coin_coeff0", "fm_elasticity1", "lv_off"]
        return [
            blk(5000, [{"k": "gov_params", "from": "a1", "which": edges[(i // 6) % len(edges)], "enable": False}] + votes),
            blk(25000, [{"k": "send", "from": "a1", "to": "a2", "amt": "1"}, {"k": "eth_send", "from": "a3", "to": "a4", "amt": "1000", "extraGas": 5000}]),
            {"ev": "restart"},
            blk(5000, [{"k": "deploy", "from": "a2", "slots": 2}, {"k": "eth_send", "from": "a3", "to": "a4", "amt": "1000", "extraGas": 5000},
                       {"k": "delegate", "from": "a5", "val": 1, "amt": "1000"}, {"k": "set_withdraw", "from": "a6", "to": "a1"},
                       {"k": "liquidate", "from": "vx2", "to": "a2", "amt": "1000000000000000000000"}]),
            [dict(blk(5000, [{"k": "pc_delegate", "from": "a2", "val": 1, "amt": "1000"}, {"k": "withdraw", "from": "a5", "val": 1},
                       {"k": "send", "from": "a4", "to": "a1", "amt": "5"}]), absent=[2], evidence=[2])][0],
        ]
    return [
        blk(5000, [{"k": "gov_evm_params", "from": "a1", "fail": i % 2 == 0}] + votes),
        blk(61000, [{"k": "send", "from": "a1", "to": "a2", "amt": "1"}]),
        {"ev": "restart"},
        blk(5000, [{"k": "deploy", "from": "a2", "slots": 2}, {"k": "eth_send", "from": "a3", "to": "a4", "amt": "1000", "extraGas": 0},
                   {"k": "spray", "from": "a5", "salt": 1}, {"k": "call", "from": "a6", "idx": 0}]),
        blk(5000, [{"k": "deploy_empty", "from": "a1"}, {"k": "pc_delegate", "from": "a2", "val": 1, "amt": "1000"}]),
    ]


def c15_epilogue(steps, i):
    """the v1.7.6 upgrade handler (force-completes the staking of the accounts on its list, undelegates them, turns
    their locked coins into liquid tokens and funds the DAO with those): the listed account w176 holds locked coins
    delegated to two validators, one of which is tombstoned by double-sign evidence in the block before the upgrade
    block (it is unbonding when the handler runs) or, in the other variant, stays bonded; all invariant routes are
    evaluated after the upgrade block and after the blocks that follow it"""
    np = sum(1 for st in steps if st.get("ev") == "block" for t in st.get("txs", [])
             if t.get("k") in ("gov_submit", "gov_submit2", "gov_toggle", "gov_evm_params", "gov_coinomics", "gov_erc20_params", "gov_params"))
    pid = np + 1
    blk = lambda dt, txs: {"ev": "block", "dt": dt, "proposer": 0, "absent": [], "evidence": [], "txs": txs}
    votes = [{"k": "gov_vote", "from": "v%d" % v, "id": pid, "opt": "yes"} for v in (1, 2, 3)]
    passes = blk(61000, [{"k": "send", "from": "a3", "to": "a4", "amt": "1000"}, {"k": "delegate", "from": "a5", "val": 1, "amt": "1000"}])
    if (i // 6) % 2 == 0:
        passes["evidence"] = [2]
    return [
        blk(5000, [{"k": "vest_create", "from": "a3", "to": "w176", "amt": "3000000000000000000000", "lock": 400000, "vest": 1,
                    "startOff": -20, "merge": False, "dust": "0"},
                   {"k": "send", "from": "a3", "to": "w176", "amt": "5000000000000000000"}]),
        blk(5000, [{"k": "delegate", "from": "w176", "val": 2, "amt": "1000000000000000000000"},
                   {"k": "delegate", "from": "w176", "val": 0, "amt": "500000000000000000000"},
                   {"k": "gov_upgrade", "from": "a1", "name": "v1.7.6", "delta": 2}] + votes),
        passes,
        blk(5000, [{"k": "send", "from": "a2", "to": "a1", "amt": "1"}]),     # the upgrade block
        blk(5000, [{"k": "delegate", "from": "a4", "val": 2, "amt": "5000"}, {"k": "undelegate", "from": "a5", "val": 1, "amt": "500"},
                   {"k": "delegate", "from": "w176", "val": 1, "amt": "1000000000000000000"},
                   {"k": "send", "from": "w176", "to": "a2", "amt": "7"}]),
        blk(65000, [{"k": "withdraw", "from": "a5", "val": 1}, {"k": "send", "from": "a6", "to": "a2", "amt": "7"}]),
        blk(5000, [{"k": "send", "from": "a1", "to": "a2", "amt": "1"}]),
    ]


def run_scenario(wd, i, script, followers):
    """one scenario: generating replica + followers, each a separate OS process"""
    sp = os.path.join(wd, "s%d.json" % i)
    with open(sp, "w") as fh:
        json.dump(script, fh)
    outs = []
    a = os.path.join(wd, "t%d_gen.ndjson" % i)
    hv(["chain", "--role", "gen", "--script", sp, "--blocks", os.path.join(wd, "b%d.json" % i),
        "--out", a, "--scn", str(i)], cwd=wd)
    outs.append(a)
    for f in range(followers):
        b = os.path.join(wd, "t%d_f%d.ndjson" % (i, f))
        args = ["chain", "--role", "follow", "--name", "follow%d" % f, "--script", sp,
                "--blocks", os.path.join(wd, "b%d.json" % i), "--out", b, "--scn", str(i)]
        env = None
        if f % 2 == 0:
            # a replica on a machine configured differently: node-local options, a local time zone far from UTC,
            # and a wall clock that is a year and a half ahead
            args.append("--noise")
            env = dict(os.environ, TZ="Pacific/Kiritimati", HV_CLOCK_SKEW_SEC="47000000")
        else:
            # a replica whose process has a past: the whole history is first replayed on a throw-away database
            args.append("--prerun")
        hv(args, cwd=wd, env=env)
        outs.append(b)
    return outs


def run_family(c, prop, mode, nscen, maxlen, followers, exhaustive=True):
    quick = c.tier == "quick"
    build_harness()
    wd = scratch(prop)
    if exhaustive:
        cfg = "Chain_intended.cfg" if quick else "Chain_intended_thorough.cfg"
        r = tlc_exhaustive(wd, "Chain.tla", cfg, workers=8, timeout=3000)
        c.add_tlc(cfg, r)
        for d in DEFECT_CFGS:
            r = tlc_exhaustive(wd, "Chain.tla", d, must="fail", workers=4)
            c.add_tlc(d, r)
    # scenario space -> scripts
    gcfg = "ChainGen_%s.cfg" % mode
    with open(os.path.join(wd, gcfg)) as fh:
        txt = fh.read().replace("MaxLen = 10", "MaxLen = %d" % maxlen)
    with open(os.path.join(wd, gcfg), "w") as fh:
        fh.write(txt)
    scripts, r = tlc_scripts(wd, "ChainGen.tla", gcfg, nscen, maxlen, c.seed)
    scripts = scripts[:nscen]
    if len(scripts) < max(2, nscen // 2):
        raise Infra("too few chain scripts: %d" % len(scripts))
    full = []
    for i, steps in enumerate(scripts):
        cfg = genesis_cfg(c.seed * 1000 + i)
        if i % 4 == 3:
            cfg["baseFee"] = "7"          # a base fee so small that its relative changes round to the minimum step
        if i % 3 == 1:
            cfg["historicalEntries"] = 3   # the header history BLOCKHASH is served from is pruned after three blocks
        if i % 5 == 4:
            cfg["genesisTime"] = "2027-12-31T20:00:00Z"   # the hours before a leap year begins
        if i % 2 == 0:
            # a registered epoch that has not started: its start lies ahead of this machine's clock and behind the
            # clock of the replica whose clock runs ahead
            cfg["futureEpoch"] = time.strftime("%Y-%m-%dT%H:%M:%SZ", time.gmtime(time.time() + 300 * 86400))
        if mode == "C20":
            steps = steps + c20_epilogue(steps, i)
            cfg["noPrecompiles"] = i % 3 == 2 and i % 6 != 5
        if mode == "C15" and i % 6 == 5 and "genesisTime" not in cfg:
            # (only on the scripted clock: the handler was written for its own date - on a chain whose clock is past
            # 2025-12-31 its FixLockupPeriods rewrites every vesting account and divides by the number of lockup periods
            # still ahead, which is zero for an account whose lockup is over; that is outside what the handler is for)
            steps = steps + c15_epilogue(steps, i)
        full.append({"cfg": cfg, "steps": steps})
    outs = [None] * len(full)
    with concurrent.futures.ThreadPoolExecutor(max_workers=6) as ex:
        futs = {ex.submit(run_scenario, wd, i + 1, s, followers): i for i, s in enumerate(full)}
        for f in concurrent.futures.as_completed(futs):
            outs[futs[f]] = f.result()
    with open(os.path.join(wd, "trace.ndjson"), "w") as out:
        for group in outs:
            for p in group:
                with open(p) as fh:
                    out.write(fh.read())
    res, r = validate_trace(wd, "ChainTrace.tla", "ChainTrace.cfg", timeout=3000)
    n = count_lines(os.path.join(wd, "trace.ndjson"))
    if res["consumed"] != n:
        raise Infra("trace spec consumed %d of %d lines" % (res["consumed"], n))
    # measured coverage
    stats = {"commits": 0, "txs": 0, "tx_ok": 0, "kinds": {}, "locals": 0, "restarts": 0, "exports": 0,
             "routes_evaluated": 0, "export_leaves": 0}
    with open(os.path.join(wd, "trace.ndjson")) as fh:
        for line in fh:
            o = json.loads(line)
            if o["ev"] == "commit" and o["r"] == "gen":
                stats["commits"] += 1
                stats["routes_evaluated"] += o["routes"]
                for t in o["rec"]["txs"]:
                    stats["txs"] += 1
                    stats["tx_ok"] += 1 if t["code"] == 0 else 0
                    k = stats["kinds"].setdefault(t["k"], [0, 0])
                    k[0 if t["code"] == 0 else 1] += 1
                if len(c.samples) < 3 and o["rec"]["txs"]:
                    c.samples.append({"replica": o["r"], "height": o["h"], "record": o["rec"]})
            elif o["ev"] == "local":
                stats["locals"] += 1
            elif o["ev"] == "restart":
                stats["restarts"] += 1
                if len(c.samples) < 5:
                    c.samples.append(o)
            elif o["ev"] == "export_import":
                stats["exports"] += 1
                stats["export_leaves"] += o.get("leaves", 0)
    c.traces = res["scenarios"]
    c.extra.update({"trace_lines": n, "replica_processes_per_scenario": 1 + followers, "commit_records_compared": res["commits"],
                    "blocks": stats["commits"], "txs_delivered": stats["txs"], "txs_succeeded": stats["tx_ok"],
                    "tx_kinds_ok_failed": stats["kinds"], "local_actions": stats["locals"], "restarts": stats["restarts"],
                    "export_import_cycles": stats["exports"], "invariant_routes_evaluated": stats["routes_evaluated"],
                    "genesis_leaves_compared": stats["export_leaves"]})
    if stats["tx_ok"] < 10:
        raise Infra("vacuous run: only %d successful transactions" % stats["tx_ok"])

    def replay_for(v):
        i = v["scn"]
        return save_replay(prop, "%s-scn%d" % (c.seed, i), {"property": prop, "driver": "chain", "followers": followers,
                                                               "script": full[i - 1], "signature": sig_of(v)})

    mine = {}
    for v in sorted(res["viol"], key=lambda v: v["line"]):
        if v["prop"] == prop:
            mine.setdefault(sig_of(v), v)
    # A disagreement between replica processes need not show in every execution (that is what C01 is about):
    # the saved scenario is executed again up to four times; it confirms the violation if the signature shows
    # again, or - replicas disagreeing again, in another place - under the signature that does show.
    confirmed, unconfirmed = {}, []
    for s, v in mine.items():
        path = replay_for(v)
        other = None
        for attempt in range(4):
            got = [x for x in replay_file(path, prop) if x.startswith(prop + "|")]
            if s in got:
                confirmed[s] = v
                c.replays[s] = path
                break
            if got and other is None:
                other = got[0]
        else:
            parts = (other or "").split("|")
            v2 = dict(v, kind=parts[1] if other else "")
            v2["class"] = "|".join(parts[2:])
            if other is None or sig_of(v2) != other:
                unconfirmed.append(s)
                continue
            confirmed[other] = v2
            c.replays[other] = path
    if mine and not confirmed:
        raise Infra("signature %s did not reproduce from its saved scenario" % unconfirmed[0])
    c.extra["signatures_seen_once_but_not_again"] = unconfirmed
    mine = confirmed
    c.add_violations(mine.values())
    c.extra["other_family_signatures_seen"] = sorted({sig_of(v) for v in res["viol"] if v["prop"] != prop})
    c.assumptions += [
        "replicas are separate OS processes on this machine and Go version; non-determinism that needs a different machine, OS or compiler is out of reach",
        "the block history is a TLC-simulated behaviour of specs/ChainGen.tla executed through InitChain/BeginBlock/DeliverTx/EndBlock/Commit of the real app on a MemDB",
        "TLC 1.8.0 and the Json community module are trusted; harness/chain.go projections are trusted",
    ]
    return stats


def replay_file(path, prop):
    build_harness()
    wd = scratch(prop + "-replay")
    obj = json.load(open(path))
    outs = run_scenario(wd, 1, obj["script"], obj.get("followers", 1))
    with open(os.path.join(wd, "trace.ndjson"), "w") as out:
        for p in outs:
            out.write(open(p).read())
    res, _ = validate_trace(wd, "ChainTrace.tla", "ChainTrace.cfg")
    return sorted({sig_of(v) for v in res["viol"]})
